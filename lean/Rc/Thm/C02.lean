/-
Property C02 – no byte sequence can panic or hang UPDATE decoding or its
accessors; every iterator is bounded by the octets it runs over; an item-level
error is the last item; the all-or-nothing collection accessors agree with the
iterators.

The statements are about the model of Rc/Model/Update.lean (which mirrors the
code after the repairs F1, F2, F3: before them `parse_total`-style statements
were false of the code, see corpus/C02.ops).  Every slice, index, `unwrap`
and `expect` of the modelled Rust is an operation that can return `.panic`;
the proofs are where each of them is shown to be guarded.
-/
import Rc.Lemmas.Update
import Rc.Lemmas.IterProto

namespace Rc.Thm.C02
open Rc Rc.Nlri Rc.Attr Rc.Upd

/-! ### decoding is total -/

private theorem headerParse_noPanic (bs : Bytes) : headerParse bs ≠ .panic := by
  unfold headerParse
  repeat' split
  all_goals simp

private theorem attrsWalk_noPanic : ∀ (f : Nat) (bs : Bytes), attrsWalk f bs ≠ .panic := by
  intro f
  induction f with
  | zero => intro bs; unfold attrsWalk; split <;> simp
  | succ f ih =>
    intro bs
    unfold attrsWalk
    split
    · simp
    · split
      · exact ih _
      · simp

/-- **parse_total.** For every session configuration and every byte string,
`UpdateMessage::from_octets` returns a message or an error: it never panics. -/
theorem parse_total (cfg : Cfg) (bs : Bytes) : parseUpdate cfg bs ≠ .panic := by
  unfold parseUpdate
  split
  · simp
  · rename_i h; exact absurd h (headerParse_noPanic bs)
  · split
    · simp
    · split
      · simp
      · split
        · simp
        · split
          · simp
          · split
            · simp
            · rename_i h; exact absurd h (convValidate_noPanic _ _)
            · split
              · simp
              · split
                · simp
                · split
                  · simp
                  · rename_i h; exact absurd h (attrsWalk_noPanic _ _)
                  · split
                    · simp
                    · rename_i h; exact absurd h (mpScan_noPanic _ _ _ _)
                    · split
                      · simp
                      · split
                        · simp
                        · split
                          · simp
                          · rename_i h; exact absurd h (convValidate_noPanic _ _)
                          · simp

/-! ### accessors are total -/

/-- The one panic-capable operation on the `to_owned()` path of an attribute
(path_attributes.rs:600 → `AsPath::new(..)?.to_hop_path()` → `PathSegments::
next_asns`, whose two `expect`s assume an `AsPath::check`ed octet string):
the hop reading of an AS_PATH (session's ASN width) / AS4_PATH (always four
octets) value.  `Rc.Attr.parseValue` / `toOwned` turn every non-`ok` of it
into `.err`, so `toOwned .. ≠ .panic` alone is true of ANY wire attribute by
the shape of that definition; THIS is the operation the clause is about
(`AsPath.hops true [2, 3, 0, 0, 0, 1] = .panic`: it does panic on an unchecked
value). Every other step of `parseValue` is a bounds-checked parser read
(`rd8/rd16/rd32/takeN/chunkO/dec32O`: `Option` / `.err`, no panic branch). -/
def ownedHops (four : Bool) : Wire → Outcome AsPath.HopPath
  | .typed _ code v => if code = 2 then AsPath.hops four v else if code = 17 then AsPath.hops true v else .ok []
  | _ => .ok []

/-- what "no accessor panics" means, accessor group by accessor group (the
groups are the ones the correspondence check observes) -/
structure NoPanics (m : Msg) : Prop where
  pcap : m.pcap ≠ .panic
  pathAttributes : ∀ x ∈ m.pathAttributes.1, x ≠ .panic ∧
    ∀ w, x = .ok w → ownedHops m.ppi.four w ≠ .panic ∧ toOwned m.ppi.four w ≠ .panic
  convWd : ∀ x ∈ m.convWd.1, x ≠ .panic
  convAnn : ∀ x ∈ m.convAnn.1, x ≠ .panic
  mpWd : m.mpWd ≠ .panic ∧ ∀ ty bs, m.mpWd = .ok (some (ty, bs)) → ∀ x ∈ (enumItems ty bs).1, x ≠ .panic
  mpAnn : m.mpAnn ≠ .panic ∧ ∀ ty bs, m.mpAnn = .ok (some (ty, bs)) → ∀ x ∈ (enumItems ty bs).1, x ≠ .panic
  withdrawals : m.withdrawals ≠ .panic ∧ ∀ r, m.withdrawals = .ok r → ∀ x ∈ r.1, x ≠ .panic
  announcements : m.announcements ≠ .panic ∧ ∀ r, m.announcements = .ok r → ∀ x ∈ r.1, x ≠ .panic
  wdVec : m.wdVec ≠ .panic
  annVec : m.annVec ≠ .panic
  typedWd : ∀ f ap, m.typedWd f ap ≠ .panic ∧ ∀ r, m.typedWd f ap = .ok (some r) → ∀ x ∈ r.1, x ≠ .panic
  typedAnn : ∀ f ap, m.typedAnn f ap ≠ .panic ∧ ∀ r, m.typedAnn f ap = .ok (some r) → ∀ x ∈ r.1, x ≠ .panic
  afiSafis : m.afiSafis ≠ .panic
  isEor : m.isEor ≠ .panic
  origin : m.origin ≠ .panic
  aspath : m.aspath ≠ .panic
  as4path : m.as4path ≠ .panic
  convNextHop : m.convNextHop ≠ .panic
  mpNextHop : m.mpNextHop ≠ .panic
  findNextHop : ∀ k, m.findNextHop k ≠ .panic
  med : m.med ≠ .panic
  localPref : m.localPref ≠ .panic
  aggregator : m.aggregator ≠ .panic
  communities : ∀ r, m.communities = some r → ∀ x ∈ r.1, x ≠ .panic
  extCommunities : ∀ r, m.extCommunities = some r → ∀ x ∈ r.1, x ≠ .panic
  ipv6ExtCommunities : ∀ r, m.ipv6ExtCommunities = some r → ∀ x ∈ r.1, x ≠ .panic
  largeCommunities : ∀ r, m.largeCommunities = some r → ∀ x ∈ r.1, x ≠ .panic
  allCommunities : m.allCommunities ≠ .panic

private theorem mpAttr_noPanic (m : Msg) (code : Nat) : m.mpAttr code ≠ .panic := by
  unfold Msg.mpAttr
  obtain ⟨h1, h2, h3⟩ := findUnchecked_spec code m.attrs.length m.attrs
  split
  · simp
  · rename_i e he
    obtain ⟨_, v, hv, _⟩ := h3 e he
    simp only [hv]
    split <;> simp
  · simp
  · rename_i h; exact absurd h h1

private theorem mpWd_noPanic (m : Msg) : m.mpWd ≠ .panic := by
  unfold Msg.mpWd
  have := mpAttr_noPanic m 15
  split <;> simp_all

private theorem mpAnn_noPanic (m : Msg) : m.mpAnn ≠ .panic := by
  unfold Msg.mpAnn
  have := mpAttr_noPanic m 14
  split
  · simp
  · split <;> simp
  · simp
  · simp_all

private theorem itemsOfOpt_noPanic (x : Option (NlriTy × Bytes)) : ∀ y ∈ (itemsOfOpt x).1, y ≠ .panic := by
  cases x with
  | none => simp [itemsOfOpt]
  | some p => exact (enumItems_spec p.1 p.2).2.2.2

private theorem nhParse_noPanic (fam : Option Fam) (bs : Bytes) : nhParse fam bs ≠ .panic := by
  unfold nhParse
  split
  · simp
  · simp only
    repeat' split
    all_goals simp

private theorem mpNextHopTuple_noPanic (m : Msg) : m.mpNextHopTuple ≠ .panic := by
  unfold Msg.mpNextHopTuple
  have := mpAttr_noPanic m 14
  split
  · simp
  · split
    · simp
    · simp
    · rename_i h; exact absurd h (nhParse_noPanic _ _)
  · simp
  · simp_all

private theorem convNextHop_noPanic (m : Msg) : m.convNextHop ≠ .panic := by
  unfold Msg.convNextHop
  repeat' split
  all_goals simp

private theorem asPathOf_noPanic (four : Bool) (v : Bytes) : asPathOf four v ≠ .panic := by
  unfold asPathOf
  split
  · rename_i hc
    have hc' : AsPath.check four v = .ok () := by simpa using hc
    obtain ⟨ss, _, _, _, hh, _⟩ := AsPath.wire_view four v hc'
    simp [hh]
  · simp

/-- `PathSegments::next_asns`' `expect`s cannot fire on a value `AsPath::check` accepted -/
private theorem hops_checked_noPanic (four : Bool) (v : Bytes) (hp : pathValid four v = true) :
    AsPath.hops four v ≠ .panic := by
  have hc : AsPath.check four v = .ok () := by
    unfold pathValid at hp
    cases hcv : AsPath.check four v with
    | ok u => cases u; rfl
    | err => simp [hcv] at hp
    | panic => simp [hcv] at hp
  obtain ⟨ss, _, _, _, hh, _⟩ := AsPath.wire_view four v hc
  simp [hh]

private theorem mapO_noPanic {α β : Type} (g : α → β) (x : Outcome α) (h : x ≠ .panic) : mapO g x ≠ .panic :=
  mapO_ne_panic g x h

private theorem comms_noPanic (m : Msg) (code k : Nat) (hk : 0 < k)
    (hv : ∀ v, validate code m.ppi.four v = some true → v.length % k = 0) :
    ∀ r, m.comms code k = some r → ∀ x ∈ r.1, x ≠ .panic := by
  intro r hr x hx
  unfold Msg.comms at hr
  split at hr
  · rename_i v htv
    simp only [Option.some.injEq] at hr; subst hr
    exact comm_collect_noPanic k hk _ v (hv v (typedValue_valid m code v htv)) x hx
  · cases hr

private theorem v8 (four : Bool) (v : Bytes) (h : validate 8 four v = some true) : v.length % 4 = 0 := by
  simpa [validate] using h
private theorem v16 (four : Bool) (v : Bytes) (h : validate 16 four v = some true) : v.length % 8 = 0 := by
  simpa [validate] using h
private theorem v25 (four : Bool) (v : Bytes) (h : validate 25 four v = some true) : v.length % 20 = 0 := by
  simpa [validate] using h
private theorem v32 (four : Bool) (v : Bytes) (h : validate 32 four v = some true) : v.length % 12 = 0 := by
  simpa [validate] using h

private theorem part_noPanic (x : Option (List (Outcome Bytes) × Bool)) (h : ∀ r, x = some r → ∀ y ∈ r.1, y ≠ .panic) :
    ∀ y ∈ commPart x, y ≠ .panic := by
  cases x with
  | none => simp [commPart]
  | some r => exact h r rfl

/-- the sections of an accepted message lie inside the octets it keeps -/
private theorem accepted_body {cfg : Cfg} {bs : Bytes} {m : Msg} (h : parseUpdate cfg bs = .ok m) :
    2 + m.wd.length + 2 + m.attrs.length + m.ann.length ≤ m.body.length := by
  obtain ⟨hl, ty, body, wl, r2, r3, al, r4, r5, reach, unreach, r6, _, _, _, h1, h2, _, h3, h4, _, _, hle, h5, _,
    hb, _⟩ := parseUpdate_ok h
  have e1 := rd16_length h1
  obtain ⟨w1, w2⟩ := takeN_length h2
  have e3 := rd16_length h3
  obtain ⟨a1, a2⟩ := takeN_length h4
  obtain ⟨n1, n2⟩ := takeN_length h5
  have : body.length = 2 + wl + 2 + al + (hl - 19 - (2 + wl + 2 + al)) + r6.length := by
    rw [e1, w2, List.length_append, w1, e3, a2, List.length_append, a1, n2, List.length_append, n1]
    omega
  rw [hb, List.length_take, w1, a1, n1]
  omega

/-- **accessors_total.** On every accepted message each public accessor and
every item of each iterator is a value or an `Err`, never a panic. -/
theorem accessors_total (cfg : Cfg) (bs : Bytes) (m : Msg) (h : parseUpdate cfg bs = .ok m) : NoPanics m := by
  have hcw := (famItems_spec .v4u m.ppi.conv m.wd).2.2.2
  have hca := (famItems_spec .v4u m.ppi.conv m.ann).2.2.2
  have hmw := mpWd_noPanic m
  have hma := mpAnn_noPanic m
  have hc8 := comms_noPanic m 8 4 (by omega) (v8 _)
  have hc16 := comms_noPanic m 16 8 (by omega) (v16 _)
  have hc25 := comms_noPanic m 25 20 (by omega) (v25 _)
  have hc32 := comms_noPanic m 32 12 (by omega) (v32 _)
  refine
    { pcap := ?_, pathAttributes := ?_, convWd := hcw, convAnn := hca, mpWd := ⟨hmw, ?_⟩, mpAnn := ⟨hma, ?_⟩,
      withdrawals := ?_, announcements := ?_, wdVec := ?_, annVec := ?_, typedWd := ?_, typedAnn := ?_,
      afiSafis := ?_, isEor := ?_, origin := ?_, aspath := ?_, as4path := ?_,
      convNextHop := convNextHop_noPanic m, mpNextHop := ?_, findNextHop := ?_, med := ?_, localPref := ?_,
      aggregator := ?_, communities := hc8, extCommunities := hc16, ipv6ExtCommunities := hc25,
      largeCommunities := hc32, allCommunities := ?_ }
  · -- pcap
    have := accepted_body h
    unfold Msg.pcap
    simp only
    split
    · simp
    · omega
  · -- path_attributes
    intro x hx
    have := pa_collect_ok m.ppi.four _ _ x hx
    refine ⟨by intro hp; subst hp; exact this, ?_⟩
    intro w hw
    subst hw
    refine ⟨?_, ?_⟩
    · -- the hop reading: guarded by the `validate` (= `AsPath::check`) the iterator ran
      cases w with
      | typed fl code v =>
        have hv : validate code m.ppi.four v = some true := this
        simp only [ownedHops]
        split
        · rename_i h2; subst h2
          have hp : pathValid m.ppi.four v = true := by simpa [validate] using hv
          exact hops_checked_noPanic _ _ hp
        · split
          · rename_i _ h17; subst h17
            have hp : pathValid true v = true := by simpa [validate] using hv
            exact hops_checked_noPanic _ _ hp
          · simp
      | unimplemented _ _ _ => simp [ownedHops]
      | invalid _ _ _ => simp [ownedHops]
    · unfold toOwned
      repeat' split
      all_goals simp
  · intro ty bs _; exact (enumItems_spec ty bs).2.2.2
  · intro ty bs _; exact (enumItems_spec ty bs).2.2.2
  · -- withdrawals
    unfold Msg.withdrawals
    split
    · rename_i x _
      refine ⟨by simp, ?_⟩
      intro r hr y hy
      simp only [Outcome.ok.injEq] at hr; subst hr
      simp only [List.mem_append] at hy
      rcases hy with hy | hy
      · exact itemsOfOpt_noPanic x y hy
      · exact hcw y hy
    · simp
    · rename_i hp; exact absurd hp hmw
  · unfold Msg.announcements
    split
    · rename_i x _
      refine ⟨by simp, ?_⟩
      intro r hr y hy
      simp only [Outcome.ok.injEq] at hr; subst hr
      simp only [List.mem_append] at hy
      rcases hy with hy | hy
      · exact itemsOfOpt_noPanic x y hy
      · exact hca y hy
    · simp
    · rename_i hp; exact absurd hp hma
  · -- withdrawals_vec
    unfold Msg.wdVec
    split
    · rename_i x _
      refine (collectResult_err _ ?_).2
      intro y hy
      simp only [List.mem_append] at hy
      rcases hy with hy | hy
      · exact hcw y hy
      · exact itemsOfOpt_noPanic x y hy
    · simp
    · rename_i hp; exact absurd hp hmw
  · unfold Msg.annVec
    split
    · rename_i x _
      refine (collectResult_err _ ?_).2
      intro y hy
      simp only [List.mem_append] at hy
      rcases hy with hy | hy
      · exact hca y hy
      · exact itemsOfOpt_noPanic x y hy
    · simp
    · rename_i hp; exact absurd hp hma
  · -- typed_withdrawals
    intro f ap
    have := mpAttr_noPanic m 15
    unfold Msg.typedWd
    split
    · refine ⟨by simp, ?_⟩
      intro r hr; simp only [Outcome.ok.injEq, Option.some.injEq] at hr; subst hr
      exact (famItems_spec f ap m.wd).2.2.2
    · split
      · simp
      · split
        · refine ⟨by simp, ?_⟩
          intro r hr; simp only [Outcome.ok.injEq, Option.some.injEq] at hr; subst hr
          exact (famItems_spec f ap _).2.2.2
        · simp
      · simp
      · simp_all
  · intro f ap
    have := mpAttr_noPanic m 14
    unfold Msg.typedAnn
    split
    · refine ⟨by simp, ?_⟩
      intro r hr; simp only [Outcome.ok.injEq, Option.some.injEq] at hr; subst hr
      exact (famItems_spec f ap m.ann).2.2.2
    · split
      · simp
      · split
        · split
          · refine ⟨by simp, ?_⟩
            intro r hr; simp only [Outcome.ok.injEq, Option.some.injEq] at hr; subst hr
            exact (famItems_spec f ap _).2.2.2
          · simp
        · simp
      · simp
      · simp_all
  · -- afi_safis
    unfold Msg.afiSafis okFlatten
    cases hw : m.mpWd <;> cases ha : m.mpAnn <;> simp_all
  · -- is_eor
    unfold Msg.isEor
    have hh : m.hasMpNlri ≠ .panic := by
      unfold Msg.hasMpNlri
      obtain ⟨h1, _, _⟩ := findUnchecked_spec 14 m.attrs.length m.attrs
      split <;> simp_all
    split
    · simp
    · split
      · split
        · split <;> simp_all
        · simp
      · simp_all
      · simp
  · unfold Msg.origin
    repeat' split
    all_goals simp
  · unfold Msg.aspath
    split
    · exact mapO_noPanic _ _ (asPathOf_noPanic _ _)
    · simp
  · unfold Msg.as4path
    split
    · exact mapO_noPanic _ _ (asPathOf_noPanic _ _)
    · simp
  · exact mapO_noPanic _ _ (mpNextHopTuple_noPanic m)
  · -- find_next_hop
    intro k
    have h1 := mpNextHopTuple_noPanic m
    have h2 := convNextHop_noPanic m
    have hco : Msg.findNextHop.convOr m.convNextHop ≠ .panic := by
      unfold Msg.findNextHop.convOr
      split <;> simp_all
    unfold Msg.findNextHop
    split
    · split
      · simp_all
      · split <;> simp_all
      · exact hco
    · split
      · split <;> simp
      · simp_all
      · simp
  · unfold Msg.med u32Value
    repeat' split
    all_goals simp [mapO]
  · unfold Msg.localPref u32Value
    repeat' split
    all_goals simp [mapO]
  · unfold Msg.aggregator aggrOf
    repeat' split
    all_goals simp
  · -- all_communities
    have hall : ∀ y ∈ m.allItems, y ≠ .panic := by
      intro y hy
      simp only [Msg.allItems, List.mem_append] at hy
      rcases hy with ((hy | hy) | hy) | hy
      · exact part_noPanic _ hc8 y hy
      · exact part_noPanic _ hc16 y hy
      · exact part_noPanic _ hc25 y hy
      · exact part_noPanic _ hc32 y hy
    have hz := (collectResult_err _ hall).2
    unfold Msg.allCommunities
    generalize collectResult m.allItems = z at hz
    cases z with
    | ok l => cases l <;> simp
    | err => simp
    | panic => exact absurd rfl hz

/-! ### iterators are bounded and end -/

/-- **iter_bounded** (NLRI sections). Every NLRI iterator ends (the `true`
flag: no hang) after at most as many items as the section has octets; the
conventional sections and the MP attributes lie inside the message. -/
theorem iter_bounded_nlri (m : Msg) :
    (m.convWd.2 = true ∧ m.convWd.1.length ≤ m.wd.length) ∧
    (m.convAnn.2 = true ∧ m.convAnn.1.length ≤ m.ann.length) ∧
    (∀ ty bs, m.mpWd = .ok (some (ty, bs)) →
      (enumItems ty bs).2 = true ∧ (enumItems ty bs).1.length ≤ bs.length ∧ bs.length ≤ m.attrs.length) ∧
    (∀ ty bs, m.mpAnn = .ok (some (ty, bs)) →
      (enumItems ty bs).2 = true ∧ (enumItems ty bs).1.length ≤ bs.length ∧ bs.length ≤ m.attrs.length) ∧
    (∀ f ap r, m.typedWd f ap = .ok (some r) → r.2 = true ∧ r.1.length ≤ m.wd.length + m.attrs.length) ∧
    (∀ f ap r, m.typedAnn f ap = .ok (some r) → r.2 = true ∧ r.1.length ≤ m.ann.length + m.attrs.length) := by
  have hattr : ∀ code k r, m.mpAttr code = .ok (some (k, r)) → r.length ≤ m.attrs.length := by
    intro code k r hm
    unfold Msg.mpAttr at hm
    obtain ⟨_, _, h3⟩ := findUnchecked_spec code m.attrs.length m.attrs
    split at hm
    · cases hm
    · rename_i e he
      obtain ⟨hle, v, hv, hvl⟩ := h3 e he
      simp only [hv] at hm
      split at hm
      · rename_i x hx
        simp only [Outcome.ok.injEq, Option.some.injEq] at hm
        subst hm
        unfold afiSafi at hx
        split at hx
        · rename_i afi r1 h16
          have := rd16_length h16
          split at hx
          · rename_i safi r2 h8
            simp only [Option.some.injEq, Prod.mk.injEq] at hx
            obtain ⟨_, rfl⟩ := hx
            match r1, h8 with
            | a :: t, h8 => simp only [rd8, Option.some.injEq, Prod.mk.injEq] at h8; obtain ⟨_, rfl⟩ := h8; simp at *; omega
          · cases hx
        · cases hx
      · cases hm
    · cases hm
    · cases hm
  have hskip : ∀ r r', skipNextHop r = some r' → r'.length ≤ r.length := by
    intro r r' hs
    unfold skipNextHop at hs
    split at hs
    · cases hs
    · split at hs
      · cases hs
      · rename_i ht
        have := takeN_some_length ht
        split at hs
        · cases hs
        · simp only [Option.some.injEq] at hs; subst hs; simp at *; omega
  refine ⟨⟨(famItems_spec _ _ _).1, (famItems_spec _ _ _).2.1⟩, ⟨(famItems_spec _ _ _).1, (famItems_spec _ _ _).2.1⟩,
    ?_, ?_, ?_, ?_⟩
  · intro ty bs hm
    refine ⟨(enumItems_spec ty bs).1, (enumItems_spec ty bs).2.1, ?_⟩
    unfold Msg.mpWd at hm
    split at hm
    · cases hm
    · rename_i k r hk
      simp only [Outcome.ok.injEq, Option.some.injEq, Prod.mk.injEq] at hm
      obtain ⟨_, rfl⟩ := hm
      exact hattr 15 k _ hk
    · cases hm
    · cases hm
  · intro ty bs hm
    refine ⟨(enumItems_spec ty bs).1, (enumItems_spec ty bs).2.1, ?_⟩
    unfold Msg.mpAnn at hm
    split at hm
    · cases hm
    · rename_i k r hk
      split at hm
      · rename_i r' hs
        simp only [Outcome.ok.injEq, Option.some.injEq, Prod.mk.injEq] at hm
        obtain ⟨_, rfl⟩ := hm
        have := hattr 14 k _ hk
        have := hskip _ _ hs
        omega
      · cases hm
    · cases hm
    · cases hm
  · intro f ap r hr
    unfold Msg.typedWd at hr
    split at hr
    · simp only [Outcome.ok.injEq, Option.some.injEq] at hr; subst hr
      exact ⟨(famItems_spec _ _ _).1, by have := (famItems_spec f ap m.wd).2.1; omega⟩
    · split at hr
      · cases hr
      · rename_i k r0 hk
        split at hr
        · simp only [Outcome.ok.injEq, Option.some.injEq] at hr; subst hr
          have := hattr 15 k _ hk
          exact ⟨(famItems_spec _ _ _).1, by have := (famItems_spec f ap r0).2.1; omega⟩
        · cases hr
      · cases hr
      · cases hr
  · intro f ap r hr
    unfold Msg.typedAnn at hr
    split at hr
    · simp only [Outcome.ok.injEq, Option.some.injEq] at hr; subst hr
      exact ⟨(famItems_spec _ _ _).1, by have := (famItems_spec f ap m.ann).2.1; omega⟩
    · split at hr
      · cases hr
      · rename_i k r0 hk
        split at hr
        · split at hr
          · rename_i r' hs
            simp only [Outcome.ok.injEq, Option.some.injEq] at hr; subst hr
            have := hattr 14 k _ hk
            have := hskip _ _ hs
            exact ⟨(famItems_spec _ _ _).1, by have := (famItems_spec f ap r').2.1; omega⟩
          · cases hr
        · cases hr
      · cases hr
      · cases hr

/-- **iter_bounded** (attribute and community iterators). -/
theorem iter_bounded_attrs (m : Msg) :
    (m.pathAttributes.2 = true ∧ m.pathAttributes.1.length ≤ m.attrs.length) ∧
    (∀ code k r, 0 < k → m.comms code k = some r → r.2 = true ∧
      ∃ v, m.typedValue code = some v ∧ r.1.length ≤ v.length) := by
  refine ⟨⟨collect_ended _ List.length (paNext_measure _) _ _ (by omega),
    collect_length _ List.length (paNext_measure _) _ _⟩, ?_⟩
  intro code k r hk hr
  unfold Msg.comms at hr
  split at hr
  · rename_i v hv
    simp only [Option.some.injEq] at hr; subst hr
    exact ⟨collect_ended _ List.length (commNext_measure k hk) _ _ (by omega), v, hv,
      collect_length _ List.length (commNext_measure k hk) _ _⟩
  · cases hr

/-- the bound used by the observers (octets + 1) is never the reason an
iterator stops: any larger bound gives the same items (`collect_fuel_enough`) -/
theorem fuel_irrelevant {α : Type} (c : Codec α) (hp : Progress c) (bs : Bytes) (fuel : Nat)
    (h : bs.length ≤ fuel) : collect (nlriNext c) fuel bs = nlriItems c bs :=
  collect_fuel_enough _ List.length (nlriNext_measure hp) _ _ bs h (by omega)

/-! ### an item-level error is the last item -/

/-- **err_is_last.** In every NLRI iterator of the message (conventional, MP,
typed) an item that is not `Ok` is the last item the iterator yields. -/
theorem err_is_last (m : Msg) :
    ErrLast m.convWd.1 ∧ ErrLast m.convAnn.1 ∧
    (∀ ty bs, ErrLast (enumItems ty bs).1) ∧
    (∀ f ap r, m.typedWd f ap = .ok (some r) → ErrLast r.1) ∧
    (∀ f ap r, m.typedAnn f ap = .ok (some r) → ErrLast r.1) := by
  refine ⟨(famItems_spec _ _ _).2.2.1, (famItems_spec _ _ _).2.2.1, fun ty bs => (enumItems_spec ty bs).2.2.1, ?_, ?_⟩
  · intro f ap r hr
    unfold Msg.typedWd at hr
    split at hr
    · simp only [Outcome.ok.injEq, Option.some.injEq] at hr; subst hr; exact (famItems_spec _ _ _).2.2.1
    · split at hr
      · cases hr
      · split at hr
        · simp only [Outcome.ok.injEq, Option.some.injEq] at hr; subst hr; exact (famItems_spec _ _ _).2.2.1
        · cases hr
      · cases hr
      · cases hr
  · intro f ap r hr
    unfold Msg.typedAnn at hr
    split at hr
    · simp only [Outcome.ok.injEq, Option.some.injEq] at hr; subst hr; exact (famItems_spec _ _ _).2.2.1
    · split at hr
      · cases hr
      · split at hr
        · split at hr
          · simp only [Outcome.ok.injEq, Option.some.injEq] at hr; subst hr; exact (famItems_spec _ _ _).2.2.1
          · cases hr
        · cases hr
      · cases hr
      · cases hr

/-- `ErrLast` said with positions: whatever follows a non-`Ok` item is nothing -/
theorem errLast_spec {α : Type} : ∀ (l pre post : List (Outcome α)) (x : Outcome α),
    ErrLast l → l = pre ++ x :: post → isOkItem x = false → post = [] := by
  intro l
  induction l with
  | nil => intro pre post x _ h; simp at h
  | cons a r ih =>
    intro pre post x hl h hx
    cases pre with
    | nil =>
      simp only [List.nil_append, List.cons.injEq] at h
      obtain ⟨h1, h2⟩ := h
      subst h1; subst h2
      cases r with
      | nil => rfl
      | cons y t => simp [ErrLast, hx] at hl
    | cons p ps =>
      simp only [List.cons_append, List.cons.injEq] at h
      obtain ⟨rfl, rfl⟩ := h
      refine ih ps post x ?_ rfl hx
      cases hps : ps ++ x :: post with
      | nil => trivial
      | cons y t => rw [hps] at hl; exact hl.2

/-- the parse-time walk of the attribute section succeeded (what `parseUpdate` checked) -/
theorem attrs_no_err (cfg : Cfg) (bs : Bytes) (m : Msg) (h : parseUpdate cfg bs = .ok m) :
    attrsWalk m.attrs.length m.attrs = .ok () := by
  obtain ⟨_, _, _, _, _, _, _, _, _, _, _, _, _, _, _, _, _, _, _, _, hw, _⟩ := parseUpdate_ok h
  exact hw

/-- **attrs_all_ok.** The attribute iterator `path_attributes()` of an accepted
message yields no `Err` item at all (so "an item-level error is the last item"
holds of it trivially, although the iterator is not fused): the TLV structure
was walked at parse time, and where the walk finds a complete TLV the iterator
yields an `Ok` item and continues after it, whatever the ASN width of the
session (`pa_collect_all_ok`). -/
theorem attrs_all_ok (cfg : Cfg) (bs : Bytes) (m : Msg) (h : parseUpdate cfg bs = .ok m) :
    ∀ x ∈ m.pathAttributes.1, ∃ w, x = .ok w :=
  pa_collect_all_ok m.ppi.four _ _ m.attrs (attrs_no_err cfg bs m h)

/-! ### the all-or-nothing accessors agree with the iterators -/

/-- **vec_agrees.** `withdrawals_vec()` is `Ok(v)` exactly when
`mp_withdrawals()` is `Ok` and the conventional items followed by the MP items
are exactly `v`, all `Ok`; it is `Err` exactly when `mp_withdrawals()` is `Err`
or some item is an `Err`. -/
theorem vec_agrees_withdrawals (m : Msg) :
    (∀ v, m.wdVec = .ok v ↔ ∃ x, m.mpWd = .ok x ∧ m.convWd.1 ++ (itemsOfOpt x).1 = v.map Outcome.ok) ∧
    (m.wdVec = .err ↔ m.mpWd = .err ∨ ∃ x, m.mpWd = .ok x ∧ Outcome.err ∈ m.convWd.1 ++ (itemsOfOpt x).1) := by
  have hcw := (famItems_spec .v4u m.ppi.conv m.wd).2.2.2
  have hmw := mpWd_noPanic m
  unfold Msg.wdVec
  cases hx : m.mpWd with
  | ok x =>
    have hnp : ∀ y ∈ m.convWd.1 ++ (itemsOfOpt x).1, y ≠ .panic := by
      intro y hy
      simp only [List.mem_append] at hy
      rcases hy with hy | hy
      · exact hcw y hy
      · exact itemsOfOpt_noPanic x y hy
    refine ⟨?_, ?_⟩
    · intro v
      simp only [collectResult_ok, Outcome.ok.injEq, exists_eq_left']
    · simp only [(collectResult_err _ hnp).1, reduceCtorEq, Outcome.ok.injEq, exists_eq_left', false_or]
  | err => simp
  | panic => exact absurd hx hmw

/-- **vec_agrees** for `announcements_vec()`. -/
theorem vec_agrees_announcements (m : Msg) :
    (∀ v, m.annVec = .ok v ↔ ∃ x, m.mpAnn = .ok x ∧ m.convAnn.1 ++ (itemsOfOpt x).1 = v.map Outcome.ok) ∧
    (m.annVec = .err ↔ m.mpAnn = .err ∨ ∃ x, m.mpAnn = .ok x ∧ Outcome.err ∈ m.convAnn.1 ++ (itemsOfOpt x).1) := by
  have hca := (famItems_spec .v4u m.ppi.conv m.ann).2.2.2
  have hma := mpAnn_noPanic m
  unfold Msg.annVec
  cases hx : m.mpAnn with
  | ok x =>
    have hnp : ∀ y ∈ m.convAnn.1 ++ (itemsOfOpt x).1, y ≠ .panic := by
      intro y hy
      simp only [List.mem_append] at hy
      rcases hy with hy | hy
      · exact hca y hy
      · exact itemsOfOpt_noPanic x y hy
    refine ⟨?_, ?_⟩
    · intro v
      simp only [collectResult_ok, Outcome.ok.injEq, exists_eq_left']
    · simp only [(collectResult_err _ hnp).1, reduceCtorEq, Outcome.ok.injEq, exists_eq_left', false_or]
  | err => simp
  | panic => exact absurd hx hma

/-- the conventional sections of an accepted message hold no `Err` item: they
were validated at parse time with the same ADD-PATH setting the accessors use -/
theorem conv_all_ok (cfg : Cfg) (bs : Bytes) (m : Msg) (h : parseUpdate cfg bs = .ok m) :
    convValidate m.ppi.conv m.wd = .ok () ∧ convValidate m.ppi.conv m.ann = .ok () := by
  obtain ⟨_, _, _, _, _, _, _, _, _, _, _, _, _, _, _, _, _, hv1, _, _, _, _, _, _, hv2, _, hp⟩ := parseUpdate_ok h
  rw [hp]
  exact ⟨hv1, hv2⟩

end Rc.Thm.C02

namespace Rc.Thm.C02
open Rc Rc.Upd

/-- non-vacuity of the acceptance hypothesis: a 27-octet UPDATE announcing
10.0.0.0/8 ... (no attributes) is accepted in a four-octet session, and the
End-of-RIB marker in an ADD-PATH session -/
example : (parseUpdate ⟨true, []⟩
    (List.replicate 16 0xff ++ [0, 25, 2, 0, 0, 0, 0, 8, 10])).isOk = true := by decide
example : (parseUpdate ⟨false, [((1, 1), .both)]⟩
    (List.replicate 16 0xff ++ [0, 23, 2, 0, 0, 0, 0])).isOk = true := by decide
/-- the `ownedHops` conjunct of `NoPanics.pathAttributes` is not true by construction: on a
value that was not checked (segment of 3 ASNs announced, 4 octets present) the hop reading
panics, and `toOwned` hides that as `.err` -/
example : ownedHops true (.typed 0x40 2 [2, 3, 0, 0, 0, 1]) = .panic := by decide
example : Attr.toOwned true (.typed 0x40 2 [2, 3, 0, 0, 0, 1]) = .err := by decide
/-- and a message is rejected, not panicked on, when a length field lies -/
example : (parseUpdate ⟨true, []⟩ (List.replicate 16 0xff ++ [0, 25, 2, 0, 9, 0, 0, 8, 10])).isOk = false := by decide

/-! ### iteration of a returned `AsPath` is bounded by its octets -/

private theorem dec32_len : ∀ (bs : Bytes), 4 * (AsPath.dec32 bs).length ≤ bs.length
  | [] => by simp [AsPath.dec32]
  | [_] => by simp [AsPath.dec32]
  | [_, _] => by simp [AsPath.dec32]
  | [_, _, _] => by simp [AsPath.dec32]
  | _ :: _ :: _ :: _ :: r => by
    have := dec32_len r
    simp only [AsPath.dec32, List.length_cons]; omega

private theorem dec16_len : ∀ (bs : Bytes), 2 * (AsPath.dec16 bs).length ≤ bs.length
  | [] => by simp [AsPath.dec16]
  | [_] => by simp [AsPath.dec16]
  | _ :: _ :: r => by
    have := dec16_len r
    simp only [AsPath.dec16, List.length_cons]; omega

private theorem decAsns_len (four : Bool) (bs : Bytes) : 2 * (AsPath.decAsns four bs).length ≤ bs.length := by
  cases four
  · simpa [AsPath.decAsns] using dec16_len bs
  · have := dec32_len bs
    simp only [AsPath.decAsns, ↓reduceIte]; omega

private theorem hopsOfSeg_len (s : AsPath.Seg) : (AsPath.hopsOfSeg s).length ≤ 1 + s.asns.length := by
  unfold AsPath.hopsOfSeg
  split <;> simp

private theorem segmentsF_bounds (four : Bool) : ∀ (f : Nat) (bs : Bytes) (ss : List AsPath.Seg),
    AsPath.segmentsF four f bs = .ok ss →
      2 * ss.length + 2 * (ss.map fun sg => sg.asns.length).sum ≤ bs.length ∧
        2 * (AsPath.hopsOfSegs ss).length ≤ bs.length := by
  intro f
  induction f with
  | zero =>
    intro bs ss h
    simp only [AsPath.segmentsF] at h
    split at h
    · simp only [Outcome.ok.injEq] at h; subst h; simp [AsPath.hopsOfSegs]
    · cases h
  | succ f ih =>
    intro bs ss h
    match bs, h with
    | [], h => simp only [AsPath.segmentsF, Outcome.ok.injEq] at h; subst h; simp [AsPath.hopsOfSegs]
    | [t], h =>
      simp only [AsPath.segmentsF] at h
      split at h <;> cases h
    | t :: n :: bs, h =>
      simp only [AsPath.segmentsF] at h
      split at h
      · cases h
      · cases ht : takeN (n.toNat * AsPath.asnSize four) bs with
        | none => simp [ht] at h
        | some p =>
          obtain ⟨v, r⟩ := p
          simp only [ht] at h
          cases hr : AsPath.segmentsF four f r with
          | ok ss' =>
            simp only [hr, Outcome.ok.injEq] at h
            subst h
            obtain ⟨i1, i2⟩ := ih r ss' hr
            obtain ⟨_, hb⟩ := takeN_length ht
            have hv := decAsns_len four v
            have hh := hopsOfSeg_len ⟨t.toNat, four, AsPath.decAsns four v⟩
            have hl : bs.length = v.length + r.length := by rw [hb]; simp
            simp only [AsPath.hopsOfSegs, List.flatMap_cons, List.length_append, List.length_cons, List.map_cons,
              List.sum_cons] at i2 hh ⊢
            constructor <;> omega
          | err => simp [hr] at h
          | panic => simp [hr] at h

/-- **hops_bounded.** A bound on the COUNT of what the iterators of a RETURNED value
yield (the arithmetic the clause "every iterator terminates" rests on; termination
proper is not what this says: `AsPath.segmentsF` is defined by structural recursion
on the octets, so "the iterator ends" is built into the model – a `PathSegments::next`
that does not advance has no counterpart there and is caught by the harness' `pit`
group with its `b + 1` item bound and the watchdog only): whatever octets an `AsPath` holds and whatever its ASN width,
when `segments()` / `hops()` come to an end without a panic they have yielded at
most `len / 2` segments whose `asns()` yield at most `len / 2` AS numbers in all,
and at most `len / 2` hops (`len` = the number of value octets): no AS path
value makes these iterators run longer than its own length.  (That they do not
panic on a value `aspath()` / `as4path()` / `to_owned()` returns is
`accessors_total`.)  The harness drives the three iterators of every returned
path to their ends and compares the three counts with the model's (group `pit`). -/
theorem hops_bounded (four : Bool) (v : Bytes) :
    (∀ ss, AsPath.segments four v = .ok ss →
      2 * ss.length + 2 * (ss.map fun sg => sg.asns.length).sum ≤ v.length) ∧
    (∀ h, AsPath.hops four v = .ok h → 2 * h.length ≤ v.length) := by
  constructor
  · intro ss hs
    exact (segmentsF_bounds four _ v ss hs).1
  · intro h hh
    unfold AsPath.hops at hh
    cases hs : AsPath.segments four v with
    | ok ss =>
      simp only [hs, Outcome.ok.injEq] at hh
      subst hh
      exact (segmentsF_bounds four _ v ss hs).2
    | err => simp [hs] at hh
    | panic => simp [hs] at hh

/-- ... in particular for the paths the accessors of an accepted message return:
`aspath()` (session width) and `as4path()` (four octets) -/
theorem returned_path_bounded (m : Msg) (v : Bytes) (h : AsPath.HopPath) :
    (m.aspath = .ok (some (v, h)) → 2 * h.length ≤ v.length) ∧
    (m.as4path = .ok (some (v, h)) → 2 * h.length ≤ v.length) := by
  have key : ∀ four (w : Bytes), mapO some (asPathOf four w) = .ok (some (v, h)) → 2 * h.length ≤ v.length := by
    intro four w hw
    unfold asPathOf at hw
    split at hw
    · cases hh : AsPath.hops four w with
      | ok x =>
        simp only [hh, mapO, Outcome.ok.injEq, Option.some.injEq, Prod.mk.injEq] at hw
        obtain ⟨rfl, rfl⟩ := hw
        exact (hops_bounded four w).2 x hh
      | err => simp [hh, mapO] at hw
      | panic => simp [hh, mapO] at hw
    · simp [mapO] at hw
  constructor
  · intro hm
    unfold Msg.aspath at hm
    split at hm
    · exact key _ _ hm
    · simp at hm
  · intro hm
    unfold Msg.as4path at hm
    split at hm
    · exact key _ _ hm
    · simp at hm

/-- non-vacuity: 300 empty AS_SET segments in 600 octets are 300 hops – the bound is reached -/
example : (match AsPath.hops true ((List.replicate 300 [1, 0]).flatten) with
    | .ok h => some h.length | _ => none) = some 300 := by decide +kernel

/-! ### how an iterator is consumed does not matter

The iterators of the model are `next` functions observed through `collect` (= `for` / `collect()` /
`next()` until `None`).  Rust code can consume the same iterators through `count`, `last`, `nth`, `skip`,
`step_by`, `fold`, `by_ref().take(j)` followed by any of these, `peekable` ...; for a type that implements
`next` only these are the default methods, all functions of the `next()` sequence
(Rc/Lemmas/IterProto.lean).  The theorems below instantiate that for the community, attribute and NLRI
iterators: every consumption order the default methods allow observes the `collect` sequence - in
particular none of them reaches a state `next` alone does not reach, so `accessors_total` /
`iter_bounded_*` / `err_is_last` cover them.  What a Rust type OVERRIDES (`size_hint`, `nth`, `count` ..)
is outside the model: "the overrides agree with the defaults, and do not panic" is checked on the real
code by the harness (harness/src/common.rs `iter_protocol`, reply group `proto`), on every accepted
message of the stream. -/

/-- the model's observer `collect` computes the `next()` sequence of Rc/Lemmas/IterProto.lean -/
private theorem ends_of_collect {σ ι : Type} (next : σ → Option (ι × σ)) :
    ∀ (f : Nat) (s : σ), (collect next f s).2 = true → IterProto.Ends next s (collect next f s).1 := by
  intro f
  induction f with
  | zero =>
    intro s h
    simp only [collect] at h ⊢
    exact IterProto.Ends.nil (by simpa [Option.isNone_iff_eq_none] using h)
  | succ f ih =>
    intro s h
    cases hn : next s with
    | none => simp only [collect, hn]; exact IterProto.Ends.nil hn
    | some p =>
      obtain ⟨i, s'⟩ := p
      simp only [collect, hn] at h ⊢
      exact IterProto.Ends.cons hn (ih s' h)

/-- **community_iterator_protocol.** For each of the four community iterators (`code`/`k` = 8/4, 16/8,
25/20, 32/12; any `k > 0`) of any message: `count()`, `last()`, `collect()`, every `fold`, `nth(j)`,
`skip(j)`, `step_by(j + 1)` and every one of these after `by_ref().take(j)` observe exactly the items
`communities()` .. `large_communities()` yield through `next()` (`r.1`, the list of `iter_bounded_attrs`). -/
theorem community_iterator_protocol (m : Msg) (code k : Nat) (hk : 0 < k)
    (r : List (Outcome Bytes) × Bool) (h : m.comms code k = some r) :
    ∃ v, m.typedValue code = some v ∧ IterProto.Protocol (commNext k) v r.1 := by
  unfold Msg.comms at h
  split at h
  · rename_i v hv
    simp only [Option.some.injEq] at h; subst h
    exact ⟨v, hv, IterProto.protocol_of_ends (ends_of_collect _ _ _
      (collect_ended _ List.length (commNext_measure k hk) _ _ (by omega)))⟩
  · cases h

/-- **attribute_iterator_protocol.** The same for `path_attributes()` of any message. -/
theorem attribute_iterator_protocol (m : Msg) :
    IterProto.Protocol (paNext m.ppi.four) m.attrs m.pathAttributes.1 :=
  IterProto.protocol_of_ends (ends_of_collect _ _ _ (iter_bounded_attrs m).1.1)

open Rc.Nlri in
/-- **nlri_iterator_protocol.** The same for `NlriIter` / `NlriEnumIter` of every family whose parser
makes progress (all 26: `Progress`, the hypothesis of `fuel_irrelevant`), over any octets. -/
theorem nlri_iterator_protocol {α : Type} (c : Codec α) (hp : Progress c) (bs : Bytes) :
    IterProto.Protocol (nlriNext c) bs (nlriItems c bs).1 :=
  IterProto.protocol_of_ends (ends_of_collect _ _ _
    (collect_ended _ List.length (nlriNext_measure hp) _ _ (by omega)))

/-- three standard communities: `nth(3)` is `None`, `skip(1)` yields the last two, `step_by(2)` the
first and the third (the consumptions that panicked under the seeded constant-time `nth`) -/
example : IterProto.Protocol (commNext 4) [0, 1, 0, 2, 0, 3, 0, 4, 0, 5, 0, 6]
    [.ok [0, 1, 0, 2], .ok [0, 3, 0, 4], .ok [0, 5, 0, 6]] :=
  IterProto.protocol_of_ends ⟨4, by decide⟩
example : (IterProto.nth (commNext 4) 3 [0, 1, 0, 2, 0, 3, 0, 4, 0, 5, 0, 6]).1 = none := by decide
example : (IterProto.nth (commNext 4) 4 [0, 1, 0, 2, 0, 3, 0, 4, 0, 5, 0, 6]).1 = none := by decide

end Rc.Thm.C02
