/-
C06 – UpdateBuilder emits well-formed, size-bounded PDUs that conserve its input.

Property theorems only, about the model in Rc/Model/Builder.lean (the code after
the three `fix:` commits).  All statements hold for every builder content:
any NLRI type `N` with any size function `sz`, any attribute list, any next
hop, any number of withdrawals and announcements.  Helper lemmas are private or
live in Rc/Lemmas/Builder.lean.
-/
import Rc.Lemmas.Builder

namespace Rc.Thm.C06
open Rc Rc.Builder

variable {N : Type} (sz : N → Nat)

/-- A produced message is size-bounded and its two length fields are the number
of bytes actually written (header + empty withdrawn section + attributes). -/
def MsgOk (m : Msg N) : Prop :=
  m.lenField ≤ MAX_PDU ∧ m.lenField = m.actualLen sz ∧ m.attrLenField = m.actualAttrLen sz

/-! ## helper facts -/

private theorem intoMessage_msg {bb : B N} {m : Msg N} (h : intoMessage sz bb = .ok m) :
    MsgOk sz m ∧ m.wdList = bb.wdList ∧ m.annList = bb.annList ∧ m.attrs = bb.attrs ∧
    nhOfAnn m.ann = nhOfAnn bb.ann := by
  obtain ⟨_, hle, hlen, hwd, hann, hattrs, hal⟩ := intoMessage_ok sz h
  have hA : m.actualAttrLen sz = attrsLen bb.attrs + optReachLen sz bb.ann + optUnreachLen sz bb.wd := by
    rw [actualAttrLen_eq, hwd, hann, hattrs]
  refine ⟨⟨by omega, ?_, by omega⟩, by simp [Msg.wdList, B.wdList, hwd],
    by simp [Msg.annList, B.annList, hann], hattrs, by rw [hann]⟩
  rw [hlen]
  unfold Msg.actualLen calcPduLen
  omega

/-- everything the run of `into_messages` guarantees, proved in one induction
over the fuel -/
private theorem run_spec : ∀ (f : Nat) (b : B N) (ms : List (Msg N)),
    intoMessages sz f b = .ok ms →
    (∀ m ∈ ms, MsgOk sz m) ∧
    ms.flatMap Msg.wdList = b.wdList ∧
    ms.flatMap Msg.annList = b.annList ∧
    (∀ m ∈ ms, m.annList ≠ [] → m.attrs = b.attrs ∧ nhOfAnn m.ann = nhOfAnn b.ann) ∧
    (1 ≤ nlriCount b → ∀ m ∈ ms, 1 ≤ m.wdList.length + m.annList.length) ∧
    ms ≠ [] := by
  intro f
  induction f with
  | zero => intro b ms h; simp [intoMessages] at h
  | succ f ih =>
    intro b ms h
    rcases takeMessage_spec sz b with ⟨bb, rem, ht, hb⟩ | ht
    · simp only [intoMessages, ht] at h
      cases hm : intoMessage sz bb with
      | err e => rw [hm] at h; cases h
      | panic => rw [hm] at h; cases h
      | ok m =>
        rw [hm] at h
        obtain ⟨hok, hmw, hma, hmat, hmnh⟩ := intoMessage_msg sz hm
        have hne : 1 ≤ nlriCount b → 1 ≤ m.wdList.length + m.annList.length := by
          intro h1
          have := hb.nonempty h1
          rw [nlriCount_eq] at this
          rw [hmw, hma]; exact this
        have hat : m.annList ≠ [] → m.attrs = b.attrs ∧ nhOfAnn m.ann = nhOfAnn b.ann := by
          intro h1
          rw [hma] at h1
          have := hb.attrs h1
          rw [hmat, hmnh]; exact this
        cases rem with
        | none =>
          simp only at h
          injection h with h
          subst h
          have hw := hb.wd
          have ha := hb.ann
          simp only [remWd, remAnn, List.append_nil] at hw ha
          refine ⟨?_, by simp [hmw, hw], by simp [hma, ha], ?_, ?_, by simp⟩
          · intro m' hm'; simp at hm'; subst hm'; exact hok
          · intro m' hm'; simp at hm'; subst hm'; exact hat
          · intro h1 m' hm'; simp at hm'; subst hm'; exact hne h1
        | some b' =>
          simp only at h
          cases hrec : intoMessages sz f b' with
          | err e => rw [hrec] at h; cases h
          | panic => rw [hrec] at h; cases h
          | outOfFuel => rw [hrec] at h; cases h
          | ok ms' =>
            rw [hrec] at h
            simp only at h
            injection h with h
            subst h
            obtain ⟨i1, i2, i3, i4, i5, _⟩ := ih b' ms' hrec
            obtain ⟨r1, r2, _, r4⟩ := hb.rem b' rfl
            have hw := hb.wd
            have ha := hb.ann
            simp only [remWd, remAnn] at hw ha
            refine ⟨?_, ?_, ?_, ?_, ?_, by simp⟩
            · intro m' hm'
              simp at hm'
              rcases hm' with rfl | hm'
              · exact hok
              · exact i1 m' hm'
            · simp only [List.flatMap_cons, i2, hmw]; exact hw
            · simp only [List.flatMap_cons, i3, hma]; exact ha
            · intro m' hm'
              simp at hm'
              rcases hm' with rfl | hm'
              · exact hat
              · intro h1
                have := i4 m' hm' h1
                rw [r1, r2] at this; exact this
            · intro h1 m' hm'
              simp at hm'
              rcases hm' with rfl | hm'
              · exact hne h1
              · exact i5 r4 m' hm'
    · simp only [intoMessages, ht] at h
      cases h

/-! ## termination -/

private theorem fuel_suffices : ∀ (f : Nat) (b : B N), nlriCount b + 1 ≤ f →
    ∀ (_ : intoMessages sz f b = .outOfFuel), False := by
  intro f
  induction f with
  | zero => intro b h; omega
  | succ f ih =>
    intro b hf h
    rcases takeMessage_spec sz b with ⟨bb, rem, ht, hb⟩ | ht
    · simp only [intoMessages, ht] at h
      cases hm : intoMessage sz bb with
      | err e => rw [hm] at h; cases h
      | panic => rw [hm] at h; cases h
      | ok m =>
        rw [hm] at h
        cases rem with
        | none => cases h
        | some b' =>
          simp only at h
          obtain ⟨_, _, r3, _⟩ := hb.rem b' rfl
          cases hrec : intoMessages sz f b' with
          | err e => rw [hrec] at h; cases h
          | panic => rw [hrec] at h; cases h
          | ok ms' => rw [hrec] at h; cases h
          | outOfFuel => exact ih b' (by omega) hrec
    · simp only [intoMessages, ht] at h
      cases h

/-- **terminates** – `into_messages` ends: with fuel `|wd| + |ann| + 2` the loop
never runs out (each `take_message` that leaves a remainder strictly decreases
the number of NLRI held). -/
theorem terminates (b : B N) : intoMessages sz (nlriCount b + 2) b ≠ .outOfFuel :=
  fun h => fuel_suffices sz _ b (by omega) h

private theorem iter_fuel : ∀ (f : Nat) (b : B N), nlriCount b + 1 ≤ f →
    pduIter sz f (some b) ≠ none := by
  intro f
  induction f with
  | zero => intro b h; omega
  | succ f ih =>
    intro b hf
    simp only [pduIter]
    cases hr : (takeMessage sz b).2 with
    | none => simp [pduIter]
    | some b' =>
      have hlt : nlriCount b' < nlriCount b := by
        rcases takeMessage_spec sz b with ⟨bb, rem, ht, hb⟩ | ht
        · rw [ht] at hr; simp only at hr; exact (hb.rem b' hr).2.2.1
        · rw [ht] at hr; cases hr
      have := ih b' (by omega)
      cases hp : pduIter sz f (some b') with
      | none => exact absurd hp this
      | some rs => simp

/-- **terminates** (iterator) – `PduIterator` yields `None` after at most
`|wd| + |ann| + 2` calls of `next`, whatever errors it reports on the way. -/
theorem iter_terminates (b : B N) : pduIter sz (nlriCount b + 2) (some b) ≠ none :=
  iter_fuel sz _ b (by omega)

/-! ## no panic -/

private theorem takeMessage_ne_panic (b : B N) : ∀ (_ : (takeMessage sz b).1 = .panic), False := by
  intro h
  rcases takeMessage_spec sz b with ⟨bb, rem, ht, _⟩ | ht
  · rw [ht] at h; exact intoMessage_ne_panic sz bb h
  · rw [ht] at h; cases h

/-- The `u16::try_from(..).unwrap()`s of `finish` are guarded by the size check
of `into_message`: no input makes the splitter panic. -/
theorem never_panics : ∀ (f : Nat) (b : B N), intoMessages sz f b ≠ .panic := by
  intro f
  induction f with
  | zero => intro b h; simp [intoMessages] at h
  | succ f ih =>
    intro b h
    have hp := takeMessage_ne_panic sz b
    simp only [intoMessages] at h
    cases ht : takeMessage sz b with
    | mk r rem =>
      rw [ht] at h hp
      cases r with
      | panic => exact hp rfl
      | err e => cases h
      | ok m =>
        cases rem with
        | none => cases h
        | some b' =>
          simp only at h
          cases hrec : intoMessages sz f b' with
          | panic => exact ih b' hrec
          | err e => rw [hrec] at h; cases h
          | ok ms => rw [hrec] at h; cases h
          | outOfFuel => rw [hrec] at h; cases h

/-! ## the clauses of the property, for `into_messages` -/

/-- **bounded** – every produced message is at most 4096 bytes, its header
length field equals the bytes written, and so does its attribute length field. -/
theorem bounded {f : Nat} {b : B N} {ms : List (Msg N)} (h : intoMessages sz f b = .ok ms) :
    ∀ m ∈ ms, m.lenField ≤ 4096 ∧ m.lenField = m.actualLen sz ∧
      m.attrLenField = m.actualAttrLen sz :=
  (run_spec sz f b ms h).1

/-- **conserve_wd** – the withdrawn NLRI of the produced messages, concatenated,
are exactly the builder's withdrawals: each once, in order. -/
theorem conserve_wd {f : Nat} {b : B N} {ms : List (Msg N)} (h : intoMessages sz f b = .ok ms) :
    ms.flatMap Msg.wdList = b.wdList :=
  (run_spec sz f b ms h).2.1

/-- **conserve_ann** – likewise for the announced NLRI. -/
theorem conserve_ann {f : Nat} {b : B N} {ms : List (Msg N)} (h : intoMessages sz f b = .ok ms) :
    ms.flatMap Msg.annList = b.annList :=
  (run_spec sz f b ms h).2.2.1

/-- **attrs_everywhere** – a message that announces anything carries the full
attribute set and the builder's next hop. -/
theorem attrs_everywhere {f : Nat} {b : B N} {ms : List (Msg N)}
    (h : intoMessages sz f b = .ok ms) :
    ∀ m ∈ ms, m.annList ≠ [] → m.attrs = b.attrs ∧ nhOfAnn m.ann = nhOfAnn b.ann :=
  (run_spec sz f b ms h).2.2.2.1

/-- **nonempty** – if the builder holds any NLRI, no produced message is empty;
and there is always at least one message (the only possibly empty one is the
single message of an input without NLRI). -/
theorem nonempty {f : Nat} {b : B N} {ms : List (Msg N)} (h : intoMessages sz f b = .ok ms) :
    ms ≠ [] ∧ (1 ≤ nlriCount b → ∀ m ∈ ms, 1 ≤ m.wdList.length + m.annList.length) :=
  ⟨(run_spec sz f b ms h).2.2.2.2.2, (run_spec sz f b ms h).2.2.2.2.1⟩

/-! ## the bytes on the wire -/

/-- the abstract parts are written with the lengths the length calculation uses
(for NLRI that is property C05, for the next hop `NextHop::compose`) -/
def WireOk (W : Wire N) : Prop :=
  (∀ n, (W.enc n).length = sz n) ∧ (∀ nh, (W.encNh nh).length = nh.composeLen) ∧
  W.afisafi.length = 3

/-- `WireOk` is satisfiable (sizes as NLRI, zero bytes as content) -/
example : WireOk (N := Nat) id
    { enc := fun n => List.replicate n 0, encNh := fun nh => List.replicate nh.composeLen 0,
      afisafi := [0, 1, 1] } :=
  ⟨by intro n; simp, by intro nh; simp, rfl⟩

private theorem flatMap_enc_length (W : Wire N) (h : ∀ n, (W.enc n).length = sz n) (l : List N) :
    (l.flatMap W.enc).length = sumSz sz l := by
  induction l with
  | nil => rfl
  | cons x xs ih => simp [List.flatMap_cons, h, ih]

private theorem attrHeader_length (t : UInt8) (v : Nat) :
    (attrHeader t v).length = if v > 255 then 2 + 2 else 2 + 1 := by
  unfold attrHeader; split <;> simp

private theorem attrSection_length (W : Wire N) (hW : WireOk sz W) (others : Bytes) (m : Msg N)
    (ho : others.length = attrsLen m.attrs) :
    (attrSection sz W others m).length = m.actualAttrLen sz := by
  obtain ⟨h1, h2, h3⟩ := hW
  unfold attrSection Msg.actualAttrLen composedAttr
  rcases hm : m.ann with _ | ⟨l, nh⟩ <;> rcases hw : m.wd with _ | w <;>
    simp only [List.length_append, List.length_nil, attrHeader_length, reachValue, unreachValue,
      flatMap_enc_length sz W h1, h2, h3, ho, reachValueLen, unreachValueLen, List.length_cons] <;>
    (repeat' split) <;> omega

/-- **bounded**, on the wire – for every message `into_messages` produces, the
byte string `finish` writes is exactly as long as its header length field says
(at most 4096), the length field read back from offset 16 is that number, and the
attribute section is exactly as long as the attribute length field says: the
message ends with its attributes, nothing is cut off and nothing trails. -/
theorem wire_consistent (W : Wire N) (hW : WireOk sz W) {f : Nat} {b : B N} {ms : List (Msg N)}
    (h : intoMessages sz f b = .ok ms) :
    ∀ m ∈ ms, ∀ others : Bytes, others.length = attrsLen m.attrs →
      (wireImage sz W others m).length = m.lenField ∧ m.lenField ≤ 4096 ∧
      (rd16 ((wireImage sz W others m).drop 16)).map (·.1) = some (wireImage sz W others m).length ∧
      (attrSection sz W others m).length = m.attrLenField := by
  intro m hm others ho
  obtain ⟨hle, hlen, hal⟩ := bounded sz h m hm
  have hsec := attrSection_length sz W hW others m ho
  have hlen' : (wireImage sz W others m).length = m.lenField := by
    rw [hlen]
    unfold wireImage Msg.actualLen
    simp only [List.length_append, List.length_replicate, be16_length, List.length_cons,
      List.length_nil, hsec]
  refine ⟨hlen', hle, ?_, by rw [hsec, hal]⟩
  rw [hlen']
  unfold wireImage
  simp only [List.append_assoc]
  rw [List.drop_left' (by simp)]
  rw [rd16_be16 _ (by omega)]
  rfl

/-! ## `into_message` and the iterator -/

/-- **into_message_bounded** – a single `into_message` either reports an error
or returns one bounded, consistent message holding the whole input. -/
theorem into_message_bounded {b : B N} {m : Msg N} (h : intoMessage sz b = .ok m) :
    m.lenField ≤ 4096 ∧ m.lenField = m.actualLen sz ∧ m.attrLenField = m.actualAttrLen sz ∧
    m.wdList = b.wdList ∧ m.annList = b.annList ∧ m.attrs = b.attrs ∧
    nhOfAnn m.ann = nhOfAnn b.ann := by
  obtain ⟨⟨h1, h2, h3⟩, h4, h5, h6, h7⟩ := intoMessage_msg sz h
  exact ⟨h1, h2, h3, h4, h5, h6, h7⟩

/-- **take_message** – one step hands out a prefix of the withdrawals and of the
announcements, keeps the rest (attributes and next hop unchanged, strictly fewer
NLRI) and returns no remainder exactly when nothing is left. -/
theorem take_message_step {b : B N} {m : Msg N} {rem : Option (B N)}
    (h : takeMessage sz b = (.ok m, rem)) :
    m.lenField ≤ 4096 ∧ m.lenField = m.actualLen sz ∧ m.attrLenField = m.actualAttrLen sz ∧
    m.wdList ++ remWd rem = b.wdList ∧ m.annList ++ remAnn rem = b.annList ∧
    (∀ b', rem = some b' → b'.attrs = b.attrs ∧ nhOfAnn b'.ann = nhOfAnn b.ann ∧
      nlriCount b' < nlriCount b ∧ 1 ≤ nlriCount b') := by
  rcases takeMessage_spec sz b with ⟨bb, rem', ht, hb⟩ | ht
  · rw [ht] at h
    injection h with h1 h2
    subst h2
    obtain ⟨⟨a1, a2, a3⟩, hw, ha, _, _⟩ := intoMessage_msg sz h1
    refine ⟨a1, a2, a3, ?_, ?_, hb.rem⟩
    · rw [hw]; exact hb.wd
    · rw [ha]; exact hb.ann
  · rw [ht] at h
    injection h with h1 _
    cases h1

/-- `into_message` reports an error exactly when the content is not a valid
combination or does not fit in one PDU; it never panics. -/
theorem into_message_error_iff (b : B N) :
    (∃ e, intoMessage sz b = .err e) ↔ (isValid b ≠ none ∨ calcPduLen sz b > 4096) :=
  intoMessage_err_iff sz b

/-- **error_not_malformed** (iterator) – whatever errors the iterator reports,
every message it does yield is bounded and consistent: nothing malformed is
emitted next to an error. -/
theorem iter_items_ok : ∀ (f : Nat) (ob : Option (B N)) (rs : List (Res (Msg N))),
    pduIter sz f ob = some rs → ∀ m, Res.ok m ∈ rs →
      m.lenField ≤ 4096 ∧ m.lenField = m.actualLen sz ∧ m.attrLenField = m.actualAttrLen sz := by
  intro f
  induction f with
  | zero =>
    intro ob rs h m hm
    cases ob with
    | none => simp [pduIter] at h; subst h; cases hm
    | some b => simp [pduIter] at h
  | succ f ih =>
    intro ob rs h m hm
    cases ob with
    | none => simp [pduIter] at h; subst h; cases hm
    | some b =>
      simp only [pduIter] at h
      cases hp : pduIter sz f (takeMessage sz b).2 with
      | none => rw [hp] at h; cases h
      | some rs' =>
        rw [hp] at h
        simp only at h
        injection h with h
        subst h
        simp at hm
        rcases hm with hm | hm
        · rcases takeMessage_spec sz b with ⟨bb, rem, ht, _⟩ | ht
          · rw [ht] at hm; simp only at hm
            exact (intoMessage_msg sz hm.symm).1
          · rw [ht] at hm; cases hm
        · exact ih _ rs' hp m hm


/-- A next hop without a wire form is refused where it is set (an error, not a
panic later); every encodable next hop is accepted.  This is why builders, and so
all theorems above, only range over encodable next hops. -/
theorem set_nexthop_refuses_unimplemented (b : B N) :
    setMpNexthop b .unimplemented = none ∧ ∀ nh, (setMpNexthop b (.known nh)).isSome = true :=
  ⟨rfl, fun _ => rfl⟩

/-- A link-local address is accepted exactly next to an IPv6 *unicast* next hop
(`Unicast(V6)`, or `Ipv6LL` already) or none yet; the builder then holds the
32-octet form. Next to any other next hop - an IPv6 *multicast* one included
(`set_nexthop_ll_multicast`), which has no form with a link-local address in
routecore's `NextHop` - it is an error (`IllegalCombination`), not a panic – so
`set_nexthop_ll_addr` cannot take a builder outside the states the theorems
above range over. -/
theorem set_nexthop_ll_spec (b : B N) :
    (match setNexthopLl b with
     | some b' => (∃ l, b'.ann = some (l, .ll)) ∧ b'.wd = b.wd ∧ b'.attrs = b.attrs ∧ b'.annList = b.annList
     | none => ∃ l nh, b.ann = some (l, nh) ∧ nh ≠ .v6 ∧ nh ≠ .ll) := by
  unfold setNexthopLl
  cases h : b.ann with
  | none => simp [B.annList, h]
  | some p =>
    obtain ⟨l, nh⟩ := p
    cases nh <;> first
      | (simp [B.annList, h]; done)
      | exact ⟨l, _, rfl, by decide, by decide⟩

/-- audit C06-3a: next to `Multicast(V6)` - the default next hop of the IPv6
multicast NLRI types - the link-local address is refused (update_builder.rs:185-188). -/
theorem set_nexthop_ll_multicast (b : B N) (l : List N) (h : b.ann = some (l, .m6)) :
    setNexthopLl b = none := by
  unfold setNexthopLl; rw [h]

/-- The iterator and `into_messages` are the same loop: when `into_messages`
succeeds, `PduIterator` yields exactly those messages (all `Ok`) and then ends –
so conservation, attributes and non-emptiness hold for the iterator's output too. -/
theorem iter_agrees : ∀ (f : Nat) (b : B N) (ms : List (Msg N)),
    intoMessages sz f b = .ok ms → pduIter sz f (some b) = some (ms.map Res.ok) := by
  intro f
  induction f with
  | zero => intro b ms h; simp [intoMessages] at h
  | succ f ih =>
    intro b ms h
    simp only [intoMessages] at h
    simp only [pduIter]
    cases ht : takeMessage sz b with
    | mk r rem =>
      rw [ht] at h
      cases r with
      | panic => cases h
      | err e => cases h
      | ok m =>
        cases rem with
        | none =>
          simp only at h
          injection h with h
          subst h
          cases f <;> simp [pduIter]
        | some b' =>
          simp only at h
          cases hrec : intoMessages sz f b' with
          | err e => rw [hrec] at h; cases h
          | panic => rw [hrec] at h; cases h
          | outOfFuel => rw [hrec] at h; cases h
          | ok ms' =>
            rw [hrec] at h
            simp only at h
            injection h with h
            subst h
            simp [ih b' ms' hrec]

/-! ## when errors arise -/

/-- a builder as the public API can make it without leaving an empty MP builder
behind: no `set_nexthop` without announcements, no `add_withdrawals_from_pdu`
that found nothing -/
def WfB (b : B N) : Prop := b.wd ≠ some [] ∧ ∀ nh, b.ann ≠ some ([], nh)

/-- this withdrawal does not even fit in a PDU of its own -/
def WdTooBig (w : N) : Prop :=
  calcPduLen sz { wd := some [w], ann := none, attrs := [] } > MAX_PDU

/-- this announcement, with the attributes and next hop, does not fit in a PDU
of its own -/
def AnnTooBig (attrs : List Nat) (nh : NextHop) (a : N) : Prop :=
  calcPduLen sz { wd := none, ann := some ([a], nh), attrs := attrs } > MAX_PDU

/-- the input cannot be represented: one NLRI is too large for any PDU, or there
are no NLRI to split and the attributes alone exceed the PDU -/
def TooBig (b : B N) : Prop :=
  (∃ w ∈ b.wdList, WdTooBig sz w) ∨
  (∃ a ∈ b.annList, ∃ nh, nhOfAnn b.ann = some nh ∧ AnnTooBig sz b.attrs nh a) ∨
  (nlriCount b = 0 ∧ calcPduLen sz b > MAX_PDU)

private theorem calc_wd_only (l : List N) :
    calcPduLen sz { wd := some l, ann := none, attrs := [] } = 23 + unreachLen sz l := by
  simp [calcPduLen, optReachLen, optUnreachLen, attrsLen]

private theorem calc_ann_only (l : List N) (nh : NextHop) (as : List Nat) :
    calcPduLen sz { wd := none, ann := some (l, nh), attrs := as } =
      23 + attrsLen as + reachLen sz l nh := by
  simp [calcPduLen, optReachLen, optUnreachLen]
  omega

private theorem sumSz_single_le {x : N} {l : List N} (h : x ∈ l) : sumSz sz [x] ≤ sumSz sz l := by
  have := sumSz_mem_le sz h
  simpa using this

/-- a single withdrawal of a builder needs no more room than the builder -/
private theorem wd_single_le (b : B N) {w : N} (h : w ∈ b.wdList) :
    calcPduLen sz { wd := some [w], ann := none, attrs := [] } ≤ calcPduLen sz b := by
  rw [calc_wd_only]
  unfold B.wdList at h
  cases hw : b.wd with
  | none => rw [hw] at h; cases h
  | some l =>
    rw [hw] at h
    simp only [Option.getD_some] at h
    have := unreachLen_mono sz (sumSz_single_le sz h)
    simp only [calcPduLen, hw, optUnreachLen]
    omega

private theorem ann_single_le (b : B N) {a : N} {nh : NextHop} (h : a ∈ b.annList)
    (hn : nhOfAnn b.ann = some nh) :
    calcPduLen sz { wd := none, ann := some ([a], nh), attrs := b.attrs } ≤ calcPduLen sz b := by
  rw [calc_ann_only]
  unfold B.annList at h
  cases ha : b.ann with
  | none => rw [ha] at h; cases h
  | some p =>
    obtain ⟨l, nh'⟩ := p
    rw [ha] at h hn
    simp only [nhOfAnn, Option.some.injEq] at hn
    subst hn
    simp only at h
    have := reachLen_mono sz nh' (sumSz_single_le sz h)
    simp only [calcPduLen, ha, optReachLen]
    omega

private theorem isValid_of_wf {b : B N} (h : WfB b) : isValid b = none := by
  obtain ⟨h1, h2⟩ := h
  unfold isValid
  have ha : annIsEmpty b.ann = false := by
    unfold annIsEmpty
    cases ha : b.ann with
    | none => rfl
    | some p =>
      obtain ⟨l, nh⟩ := p
      cases l with
      | nil => exact absurd ha (h2 nh)
      | cons _ _ => rfl
  have hw : wdIsEmpty b.wd = false := by
    unfold wdIsEmpty
    cases hw : b.wd with
    | none => rfl
    | some l =>
      cases l with
      | nil => exact absurd hw h1
      | cons _ _ => rfl
  simp [ha, hw]

/-- a message that `into_message` accepted holds no NLRI that is too big -/
private theorem ok_no_big {bb : B N} {m : Msg N} (h : intoMessage sz bb = .ok m) :
    (∀ w ∈ bb.wdList, ¬ WdTooBig sz w) ∧
    (∀ a ∈ bb.annList, ∀ nh, nhOfAnn bb.ann = some nh → ¬ AnnTooBig sz bb.attrs nh a) := by
  have hle := (intoMessage_ok sz h).2.1
  constructor
  · intro w hw hbig
    have := wd_single_le sz bb hw
    unfold WdTooBig at hbig
    omega
  · intro a ha nh hn hbig
    have := ann_single_le sz bb ha hn
    unfold AnnTooBig at hbig
    omega

/-- with an accepted batch and a remainder, the verdict is the remainder's -/
private theorem tooBig_rem {b bb b' : B N} {m : Msg N} (hb : Batch b bb (some b'))
    (hm : intoMessage sz bb = .ok m) : TooBig sz b ↔ TooBig sz b' := by
  obtain ⟨nw, na⟩ := ok_no_big sz hm
  obtain ⟨r1, r2, r3, r4⟩ := hb.rem b' rfl
  have hw := hb.wd
  have ha := hb.ann
  simp only [remWd, remAnn] at hw ha
  have na' : ∀ a ∈ bb.annList, ∀ nh, nhOfAnn b.ann = some nh → ¬ AnnTooBig sz b.attrs nh a := by
    intro a hmem nh hn
    have hne : bb.annList ≠ [] := by intro h; rw [h] at hmem; cases hmem
    obtain ⟨e1, e2⟩ := hb.attrs hne
    have := na a hmem nh (by rw [e2]; exact hn)
    rw [e1] at this; exact this
  unfold TooBig
  rw [← hw, ← ha, r1, r2]
  constructor
  · rintro (⟨w, hmem, hbig⟩ | ⟨a, hmem, nh, hn, hbig⟩ | ⟨h0, _⟩)
    · rw [List.mem_append] at hmem
      rcases hmem with hmem | hmem
      · exact absurd hbig (nw w hmem)
      · exact Or.inl ⟨w, hmem, hbig⟩
    · rw [List.mem_append] at hmem
      rcases hmem with hmem | hmem
      · exact absurd hbig (na' a hmem nh hn)
      · exact Or.inr (Or.inl ⟨a, hmem, nh, hn, hbig⟩)
    · omega
  · rintro (⟨w, hmem, hbig⟩ | ⟨a, hmem, nh, hn, hbig⟩ | ⟨h0, _⟩)
    · exact Or.inl ⟨w, List.mem_append_right _ hmem, hbig⟩
    · exact Or.inr (Or.inl ⟨a, List.mem_append_right _ hmem, nh, hn, hbig⟩)
    · omega

/-- with an accepted batch and no remainder, the input was representable -/
private theorem not_tooBig_last {b bb : B N} {m : Msg N} (hb : Batch b bb none)
    (hm : intoMessage sz bb = .ok m) (h0 : nlriCount b = 0 → calcPduLen sz b ≤ MAX_PDU) :
    ¬ TooBig sz b := by
  obtain ⟨nw, na⟩ := ok_no_big sz hm
  have hw := hb.wd
  have ha := hb.ann
  simp only [remWd, remAnn, List.append_nil] at hw ha
  rintro (⟨w, hmem, hbig⟩ | ⟨a, hmem, nh, hn, hbig⟩ | ⟨hz, hbig⟩)
  · rw [← hw] at hmem; exact nw w hmem hbig
  · rw [← ha] at hmem
    have hne : bb.annList ≠ [] := by intro h; rw [h] at hmem; cases hmem
    obtain ⟨e1, e2⟩ := hb.attrs hne
    have := na a hmem nh (by rw [e2]; exact hn)
    rw [e1] at this; exact this hbig
  · have := h0 hz; omega

private theorem wd_wf_facts (b : B N) (hwf : WfB b) (w : N) (ws : List N) (k : Nat)
    (hw : b.wd = some (w :: ws)) (hk1 : 1 ≤ k)
    (hk3 : sumSz sz ((w :: ws).take k) ≤ 4000 ∨ k = 1) :
    ((∃ e, intoMessage sz ({ wd := some ((w :: ws).take k), ann := none, attrs := [] } : B N) = .err e) →
      TooBig sz b) ∧
    (∀ b', intoRemainder ({ b with wd := if ((w :: ws).drop k).isEmpty then none else some ((w :: ws).drop k) } : B N) = some b' → WfB b') ∧
    (nlriCount b = 0 → calcPduLen sz b ≤ MAX_PDU) := by
  refine ⟨?_, ?_, ?_⟩
  · intro he
    have hv : isValid ({ wd := some ((w :: ws).take k), ann := none, attrs := [] } : B N) = none := by
      apply isValid_of_wf
      refine ⟨?_, (by intro nh h; cases h)⟩
      intro h
      simp only [Option.some.injEq] at h
      exact take_ne_nil hk1 (by simp) h
    have := (intoMessage_err_iff sz _).1 he
    rcases this with h | h
    · exact absurd hv h
    · rw [calc_wd_only] at h
      rcases hk3 with hsum | hk1'
      · have := hdrLen_le (unreachValueLen sz ((w :: ws).take k))
        unfold unreachLen at h
        unfold unreachValueLen at h this
        simp only [MAX_PDU] at h
        omega
      · subst hk1'
        left
        refine ⟨w, by simp [B.wdList, hw], ?_⟩
        unfold WdTooBig
        rw [calc_wd_only]
        simpa using h
  · intro b' hr
    obtain ⟨hx, _⟩ := intoRemainder_some hr
    subst hx
    refine ⟨?_, hwf.2⟩
    simp only
    split
    · intro h; cases h
    · rename_i hne
      intro h
      simp only [Option.some.injEq] at h
      rw [h] at hne
      simp at hne
  · intro h0
    rw [nlriCount_eq] at h0
    simp [B.wdList, hw] at h0

private theorem ann_wf_facts (hsz : ∀ n, 1 ≤ sz n) (b : B N) (a : N) (as : List N)
    (nh : NextHop) (k : Nat) (hwdn : b.wd = none) (ha : b.ann = some (a :: as, nh)) (hk1 : 1 ≤ k)
    (hk3 : sumSz sz ((a :: as).take k) ≤
        MAX_PDU - ((16 + 2 + 1 + 2 + 2) + 8 + nh.composeLen + attrsLen b.attrs) ∨ k = 1) :
    ((∃ e, intoMessage sz ({ wd := none, ann := some ((a :: as).take k, nh), attrs := b.attrs } : B N) = .err e) →
      TooBig sz b) ∧
    (∀ b', intoRemainder ({ b with ann := some ((a :: as).drop k, nh) } : B N) = some b' → WfB b') ∧
    (nlriCount b = 0 → calcPduLen sz b ≤ MAX_PDU) := by
  refine ⟨?_, ?_, ?_⟩
  · intro he
    have htk : (a :: as).take k ≠ [] := take_ne_nil hk1 (by simp)
    have hv : isValid ({ wd := none, ann := some ((a :: as).take k, nh), attrs := b.attrs } : B N) = none := by
      apply isValid_of_wf
      refine ⟨(by intro h; cases h), ?_⟩
      intro nh' h
      simp only [Option.some.injEq, Prod.mk.injEq] at h
      exact htk h.1
    have := (intoMessage_err_iff sz _).1 he
    rcases this with h | h
    · exact absurd hv h
    · rw [calc_ann_only] at h
      rcases hk3 with hsum | hk1'
      · have hpos := sumSz_pos_of_ne_nil sz hsz htk
        have := hdrLen_le (reachValueLen sz ((a :: as).take k) nh)
        unfold reachLen at h
        unfold reachValueLen at h this
        simp only [MAX_PDU] at h hsum
        omega
      · subst hk1'
        right; left
        refine ⟨a, by simp [B.annList, ha], nh, by simp [nhOfAnn, ha], ?_⟩
        unfold AnnTooBig
        rw [calc_ann_only]
        simpa using h
  · intro b' hr
    obtain ⟨hx, hpos⟩ := intoRemainder_some hr
    subst hx
    refine ⟨(by simp only [hwdn]; intro h; cases h), ?_⟩
    intro nh' h
    simp only [Option.some.injEq, Prod.mk.injEq] at h
    rw [nlriCount_eq] at hpos
    simp only [B.wdList, B.annList, hwdn, h.1] at hpos
    simp at hpos
  · intro h0
    rw [nlriCount_eq] at h0
    simp [B.annList, ha] at h0

/-- the step of the splitter on a well-formed builder, with what an error of the
batch means -/
private theorem takeMessage_spec_wf (hsz : ∀ n, 1 ≤ sz n) (b : B N) (hwf : WfB b) :
    (∃ bb rem, takeMessage sz b = (intoMessage sz bb, rem) ∧ Batch b bb rem ∧
      ((∃ e, intoMessage sz bb = .err e) → TooBig sz b) ∧
      (∀ b', rem = some b' → WfB b') ∧
      (rem = none → nlriCount b = 0 → calcPduLen sz b ≤ MAX_PDU)) ∨
    (takeMessage sz b = (.err .tooLarge, none) ∧ TooBig sz b) := by
  unfold takeMessage
  split
  · -- fits
    rename_i hfit
    left
    have hle : calcPduLen sz b ≤ MAX_PDU := by
      simp only [largerThan, Bool.not_eq_true', Bool.or_eq_false_iff, decide_eq_false_iff_not] at hfit
      omega
    refine ⟨b, none, rfl, ?_, ?_, (by intro b' h; cases h), fun _ _ => hle⟩
    · exact ⟨by simp [remWd], by simp [remAnn], id, (by intro b' h; cases h), fun _ => ⟨rfl, rfl⟩⟩
    · intro he
      have := (intoMessage_err_iff sz b).1 he
      rcases this with h | h
      · exact absurd (isValid_of_wf hwf) h
      · omega
  · rename_i hlarge
    split
    · -- withdrawals
      rename_i w ws hw
      left
      obtain ⟨hk1, hk2, hk3⟩ := splitPoint_spec sz 4000 (l := w :: ws) (by simp)
      obtain ⟨f1, f2, f3⟩ := wd_wf_facts sz b hwf w ws (splitPoint sz 4000 (w :: ws)) hw hk1 hk3
      exact ⟨_, _, rfl, wdStep b w ws _ hw hk1 hk2, f1, f2, fun _ => f3⟩
    · split
      · -- announcements
        rename_i _ hwd _ a as nh ha
        left
        have hwdn : b.wd = none := by
          cases hw : b.wd with
          | none => rfl
          | some l =>
            cases l with
            | nil => exact absurd hw hwf.1
            | cons w ws => exact absurd hw (fun h => hwd w ws h)
        obtain ⟨hk1, hk2, hk3⟩ := splitPoint_spec sz
          (MAX_PDU - ((16 + 2 + 1 + 2 + 2) + 8 + nh.composeLen + attrsLen b.attrs))
          (l := a :: as) (by simp)
        obtain ⟨f1, f2, f3⟩ := ann_wf_facts sz hsz b a as nh _ hwdn ha hk1 hk3
        exact ⟨_, _, rfl, annStep b a as nh _ (fun w ws h => hwd w ws h) ha hk1 hk2, f1, f2,
          fun _ => f3⟩
      · -- nothing to split
        rename_i _ hwd _ hann
        right
        refine ⟨rfl, ?_⟩
        have hwdn : b.wd = none := by
          cases hw : b.wd with
          | none => rfl
          | some l =>
            cases l with
            | nil => exact absurd hw hwf.1
            | cons w ws => exact absurd hw (fun h => hwd w ws h)
        have hannn : b.ann = none := by
          cases ha : b.ann with
          | none => rfl
          | some p =>
            obtain ⟨l, nh⟩ := p
            cases l with
            | nil => exact absurd ha (hwf.2 nh)
            | cons a as => exact absurd ha (fun h => hann a as nh h)
        right; right
        refine ⟨by rw [nlriCount_eq]; simp [B.wdList, B.annList, hwdn, hannn], ?_⟩
        simp only [largerThan, hannn, Bool.false_or, Bool.not_eq_true', decide_eq_false_iff_not,
          Decidable.not_not] at hlarge
        exact hlarge

private theorem error_iff_aux (hsz : ∀ n, 1 ≤ sz n) : ∀ (f : Nat) (b : B N), WfB b →
    nlriCount b + 1 ≤ f → ((∃ e, intoMessages sz f b = .err e) ↔ TooBig sz b) := by
  intro f
  induction f with
  | zero => intro b _ h; omega
  | succ f ih =>
    intro b hwf hf
    rcases takeMessage_spec_wf sz hsz b hwf with ⟨bb, rem, ht, hb, herr, hwf', h0⟩ | ⟨ht, hbig⟩
    · simp only [intoMessages, ht]
      cases hm : intoMessage sz bb with
      | panic => exact absurd hm (fun h => intoMessage_ne_panic sz bb h)
      | err e =>
        simp only
        exact ⟨fun _ => herr ⟨e, hm⟩, fun _ => ⟨e, rfl⟩⟩
      | ok m =>
        cases rem with
        | none =>
          simp only
          have := not_tooBig_last sz hb hm (h0 rfl)
          constructor
          · rintro ⟨e, he⟩; cases he
          · intro h; exact absurd h this
        | some b' =>
          simp only
          obtain ⟨_, _, r3, _⟩ := hb.rem b' rfl
          have hih := ih b' (hwf' b' rfl) (by omega)
          rw [tooBig_rem sz hb hm, ← hih]
          cases hrec : intoMessages sz f b' with
          | ok ms => simp
          | err e => simp
          | panic => simp
          | outOfFuel => simp
    · simp only [intoMessages, ht]
      exact ⟨fun _ => hbig, fun _ => ⟨_, rfl⟩⟩

/-- **error_not_malformed** – exact characterisation of the error result.  For a
builder without empty MP parts and NLRI of at least one byte, `into_messages`
reports an error exactly when the input cannot be represented: some withdrawal
does not fit in a PDU by itself, some announcement does not fit in a PDU together
with the attributes and the next hop, or there is no NLRI and the attributes alone
exceed the PDU.  (An `Err` carries no messages; what was produced on the way is
covered by `iter_items_ok`.) -/
theorem error_iff (hsz : ∀ n, 1 ≤ sz n) (b : B N) (hwf : WfB b) :
    (∃ e, intoMessages sz (nlriCount b + 2) b = .err e) ↔ TooBig sz b :=
  error_iff_aux sz hsz _ b hwf (by omega)

/-- with an empty MP builder (`set_nexthop` without announcements, or an empty
MP_UNREACH_NLRI next to announcements or attributes) a builder that fits in one
PDU is refused – an error, never a malformed message -/
theorem invalid_is_error {b : B N} (hv : isValid b ≠ none) (hfit : largerThan sz b MAX_PDU = false)
    (f : Nat) : ∃ e, intoMessages sz (f + 1) b = .err e := by
  have ht : takeMessage sz b = (intoMessage sz b, none) := by
    unfold takeMessage; simp [hfit]
  obtain ⟨e, he⟩ := (intoMessage_err_iff sz b).2 (Or.inl hv)
  exact ⟨e, by simp [intoMessages, ht, he]⟩

/-- the hypotheses of `error_iff` are satisfiable by a non-trivial builder, and
both verdicts occur -/
example : WfB ({ wd := some [3, 5], ann := some ([4, 4000], .v6), attrs := [7, 300] } : B Nat) :=
  ⟨by decide, by intro nh h; cases h⟩

end Rc.Thm.C06
