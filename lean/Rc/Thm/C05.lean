/-
C05 – Every NLRI family round-trips and reports its exact encoded length.

Property theorems only; the lemmas are in `Rc/Lemmas/Nlri.lean`, the model in
`Rc/Model/{Prefix,Nlri}.lean`.  `codec f` is the plain NLRI type of family
`f` (13 families, `Fam`), `codecAp f` its ADD-PATH variant; together the 26
variants.  `wf` is the explicit well-formedness predicate of each family,
`inv` the invariant of the Rust type itself.
-/
import Rc.Lemmas.Nlri

namespace Rc.Thm.C05
open Rc Rc.Nlri

/-! ### clause: the length reported before encoding equals the number of bytes produced -/

/-- `compose_len()` equals the number of octets `compose` writes – for every
value of the Rust type, also those that cannot be decoded again. -/
theorem len_eq (f : Fam) (n : f.Val) (bs : Bytes)
    (hi : (codec f).inv n = true) (he : (codec f).enc n = .ok bs) :
    bs.length = (codec f).clen n :=
  (codec_laws f).len_eq n bs hi he

/-- the same for the ADD-PATH variants -/
theorem len_eq_addpath (f : Fam) (n : Nat × f.Val) (bs : Bytes)
    (hi : (codecAp f).inv n = true) (he : (codecAp f).enc n = .ok bs) :
    bs.length = (codecAp f).clen n :=
  (codecAp_laws f).len_eq n bs hi he

/-! ### clause: encoding then decoding yields an equal value and consumes exactly the encoded bytes -/

/-- A well-formed value is composed without panic, and decoding the composed
octets followed by *any* further octets `r` returns the value and leaves
exactly `r`. -/
theorem roundtrip_exact (f : Fam) (n : f.Val) (r : Bytes) (hw : (codec f).wf n = true) :
    ∃ bs, (codec f).enc n = .ok bs ∧ (codec f).dec (bs ++ r) = .ok (n, r) := by
  obtain ⟨bs, he, _⟩ := (codec_laws f).enc_ok n hw
  exact ⟨bs, he, (codec_laws f).roundtrip n bs r hw he⟩

/-- the same for the ADD-PATH variants (four-octet path id first) -/
theorem roundtrip_exact_addpath (f : Fam) (n : Nat × f.Val) (r : Bytes)
    (hw : (codecAp f).wf n = true) :
    ∃ bs, (codecAp f).enc n = .ok bs ∧ (codecAp f).dec (bs ++ r) = .ok (n, r) := by
  obtain ⟨bs, he, _⟩ := (codecAp_laws f).enc_ok n hw
  exact ⟨bs, he, (codecAp_laws f).roundtrip n bs r hw he⟩

/-! ### clause: a concatenation of encoded NLRI decodes to exactly the original sequence, in order -/

/-- `NlriIter` over the concatenation of any number of composed well-formed
NLRI yields exactly the original sequence and stops at the end of the input. -/
theorem list_roundtrip (f : Fam) (ns : List f.Val) (hw : ∀ n ∈ ns, (codec f).wf n = true) :
    ∃ bs, encAll (codec f) ns = .ok bs ∧ decAll (codec f) bs = .ok (ns, true) :=
  (codec_laws f).list_roundtrip ns hw

/-- the same for the ADD-PATH variants -/
theorem list_roundtrip_addpath (f : Fam) (ns : List (Nat × f.Val))
    (hw : ∀ n ∈ ns, (codecAp f).wf n = true) :
    ∃ bs, encAll (codecAp f) ns = .ok bs ∧ decAll (codecAp f) bs = .ok (ns, true) :=
  (codecAp_laws f).list_roundtrip ns hw

/-! ### the well-formedness predicates cover everything the parsers return -/

/-- Every value a parser returns is well-formed: `wf` excludes nothing that can
be received.  (For IPv4 FlowSpec this holds after the repair F28.) -/
theorem dec_wf (f : Fam) (bs : Bytes) (n : f.Val) (r : Bytes) (h : (codec f).dec bs = .ok (n, r)) :
    (codec f).wf n = true := codec_dec_wf f bs n r h

theorem dec_wf_addpath (f : Fam) (bs : Bytes) (n : Nat × f.Val) (r : Bytes)
    (h : (codecAp f).dec bs = .ok (n, r)) : (codecAp f).wf n = true := codecAp_dec_wf f bs n r h

/-- parse, compose, parse: a received NLRI is composed without panic and the
composed octets (followed by anything) decode to the same value. -/
theorem reencode_roundtrip (f : Fam) (bs r r' : Bytes) (n : f.Val) (h : (codec f).dec bs = .ok (n, r)) :
    ∃ e, (codec f).enc n = .ok e ∧ e.length = (codec f).clen n ∧ (codec f).dec (e ++ r') = .ok (n, r') := by
  have hw := dec_wf f bs n r h
  obtain ⟨e, he, hd⟩ := roundtrip_exact f n r' hw
  exact ⟨e, he, len_eq f n e ((codec_laws f).wf_inv n hw) he, hd⟩

theorem reencode_roundtrip_addpath (f : Fam) (bs r r' : Bytes) (n : Nat × f.Val)
    (h : (codecAp f).dec bs = .ok (n, r)) :
    ∃ e, (codecAp f).enc n = .ok e ∧ e.length = (codecAp f).clen n ∧ (codecAp f).dec (e ++ r') = .ok (n, r') := by
  have hw := dec_wf_addpath f bs n r h
  obtain ⟨e, he, hd⟩ := roundtrip_exact_addpath f n r' hw
  exact ⟨e, he, len_eq_addpath f n e ((codecAp_laws f).wf_inv n hw) he, hd⟩

/-! ### the well-formedness predicates are satisfiable by non-trivial values -/

private def p4 : Pfx := ⟨false, 23, [10, 1, 2, 0]⟩
private def p6 : Pfx := ⟨true, 33, [0x20, 0x01, 0x0d, 0xb8, 0x80, 0, 0, 0, 0, 0, 0, 0, 0, 0, 0, 0]⟩
private def rd8 : Bytes := [0, 1, 10, 0, 0, 1, 0, 7]

example : (codec .v4u).wf p4 = true := by decide
example : (codec .v6m).wf p6 = true := by decide
example : (codecAp .v6u).wf (4294967295, p6) = true := by decide
example : (codec .v4mpls).wf ⟨p4, [0x01, 0x3a, 0x70, 0x01, 0x3a, 0x81]⟩ = true := by decide
example : (codec .v6mpls).wf ⟨p6, [0x80, 0, 0]⟩ = true := by decide
example : (codec .v4vpn).wf ⟨p4, [0, 0x7d, 0xc1], rd8⟩ = true := by decide
example : (codecAp .v6vpn).wf (7, ⟨p6, [0, 0, 0], rd8⟩) = true := by decide
example : (codec .v4rt).wf ⟨[0, 0, 0, 100, 0, 2, 0, 100, 0, 0, 0, 1]⟩ = true := by decide
example : (codec .v4fs).wf ⟨1, [1, 24, 10, 0, 0, 3, 0x81, 6, 5, 0x11, 0x1f, 0x90, 0x91, 0x1f, 0x9a]⟩ = true := by decide
example : (codec .v6fs).wf ⟨2, [1, 2, 3]⟩ = true := by decide
example : (codec .vpls).wf ⟨rd8, 1, 2, 65535, 0x010203⟩ = true := by decide
example : (codecAp .evpn).wf (1, ⟨2, [9, 9, 9]⟩) = true := by decide

/-! ### K3: values of more than 255 bits (MPLS, MPLS-VPN) -/

/-- the label (and RD) bits plus the prefix length fit the single length octet -/
def bitsFit : (f : Fam) → f.Val → Bool
  | .v4mpls, m | .v6mpls, m => decide (u8OrMax (8 * m.labels.length) + m.pfx.len ≤ 255)
  | .v4vpn, m | .v6vpn, m => decide (u8OrMax (8 * (8 + m.labels.length)) + m.pfx.len ≤ 255)
  | _, _ => true

/-- Full statement of "compose never panics" – false of the code (K3). -/
def ComposeTotalStatement : Prop :=
  ∀ (f : Fam) (n : f.Val), (codec f).inv n = true → (codec f).enc n ≠ .panic

private def k3Witness : Mpls :=
  ⟨⟨true, 128, [0x20, 0x01, 0x0d, 0xb8, 0, 0, 0, 0, 0, 0, 0, 0, 0, 0, 0, 1]⟩,
   [0, 0, 16, 0, 0, 16, 0, 0, 16, 0, 0, 16, 0, 0, 16, 0, 0, 17]⟩

/-- K3 witness: a valid IPv6 /128 with six labels (272 bits) makes
`MplsNlri::compose` overflow its `u8` sum. -/
theorem compose_total_fails : ¬ ComposeTotalStatement := by
  intro h
  exact h .v6mpls k3Witness (by decide) (by decide)

/-- `compose` panics exactly on the values whose bit count does not fit the
length octet; on every other value of every family it returns. -/
theorem compose_total_partial (f : Fam) (n : f.Val) :
    (codec f).enc n = .panic ↔ bitsFit f n = false := by
  cases f <;>
    simp only [codec, pfxCodec, mplsCodec, vpnCodec, rtCodec, fsCodec, vplsCodec, evpnCodec,
      encMpls, encVpn, bitsFit, decide_eq_false_iff_not, Nat.not_le, reduceCtorEq, Bool.true_eq_false] <;>
    first
      | (split <;> simp_all)
      | trivial

/-- a well-formed value is never one of them -/
theorem wf_bitsFit (f : Fam) (n : f.Val) (hw : (codec f).wf n = true) : bitsFit f n = true := by
  obtain ⟨bs, he, _⟩ := (codec_laws f).enc_ok n hw
  cases hb : bitsFit f n
  · rw [(compose_total_partial f n).mpr hb] at he; cases he
  · rfl

/-! ### K10: values holding a field the wire image does not carry as given -/

/-- which model values stand for a value of the Rust type at all: the type's own invariant
(`inv`), an EVPN route type that is a value of `EvpnRouteType` (the non-normalised
`Unimplemented(1..=5)` = 257..=261 included), a FlowSpec `afi` that is a u16 -/
def typeValid : (f : Fam) → f.Val → Bool
  | .evpn, n => rtypeValid n.rtype
  | .v4fs, n | .v6fs, n => decide (n.afi < 65536)
  | f, n => (codec f).inv n

/-- Full statement of "for every NLRI value, encoding then decoding yields an equal value and
consumes exactly the encoded bytes" over every value of the Rust types – false of the code (K10;
also false through K3, where `enc` panics, but the witnesses below do not rely on that). -/
def RoundTripAllStatement : Prop :=
  ∀ (f : Fam) (n : f.Val), typeValid f n = true →
    ∀ bs, (codec f).enc n = .ok bs → (codec f).dec bs = .ok (n, [])

/-- K10 witness 1: `EvpnNlri { route_type: Unimplemented(2), raw: [] }` (serde-built) composes to
`02 00`, which decodes to `MacIpAdvertisement` – a different, `!=` value. -/
theorem roundtrip_all_fails : ¬ RoundTripAllStatement := by
  intro h
  have := h .evpn ⟨258, []⟩ (by decide) [2, 0] (by decide)
  revert this; decide

/-- K10 witness 2: an `Ipv4FlowSpecNlri` holding `afi = Ipv6` composes to octets that decode to
the one holding `afi = Ipv4`. -/
theorem roundtrip_all_fails_flowspec :
    (codec .v4fs).enc ⟨2, [3, 0x81, 6]⟩ = .ok [3, 3, 0x81, 6] ∧
    (codec .v4fs).dec [3, 3, 0x81, 6] = .ok (⟨1, [3, 0x81, 6]⟩, []) := by decide

/-- The provable part: on the well-formed values (`wf`: exactly what the parsers return plus what
serde builds inside the same space – in particular a normalised route type and the family's
afi) the statement holds. -/
theorem roundtrip_all_partial (f : Fam) (n : f.Val) (hw : (codec f).wf n = true) :
    ∀ bs, (codec f).enc n = .ok bs → (codec f).dec bs = .ok (n, []) := by
  obtain ⟨bs', he, hd⟩ := roundtrip_exact f n [] hw
  intro bs h
  rw [he] at h; cases h
  simpa using hd

/-- what `wf` excludes beyond the type's own validity is, for EVPN and FlowSpec, exactly K10
(and the body lengths the length fields cannot carry) -/
theorem wf_evpn_iff (n : Evpn) :
    (codec .evpn).wf n = true ↔ (n.rtype < 256 ∧ n.raw.length ≤ 255) := by
  simp [codec, evpnCodec]

end Rc.Thm.C05
