/-
C04 – Path attributes survive encode/decode; declared length equals bytes
written; length-rule violations surface as Invalid.

Property theorems only.  Model: Rc/Model/Attr.lean (src/bgp/path_attributes.rs,
update_builder.rs `StandardCommunitiesList`, types.rs, as coded), AS paths via
Rc/Model/AsPath.lean (C13).  Lemmas: Rc/Lemmas/Attr.lean.

Three decidable predicates on values (all 20 kinds, every list length):

* `WfAttrG a` – **every value the public API can build, minus K2**: the type
  invariants of the Rust value (u8/u32 field widths, fixed record sizes, the
  `StandardCommunitiesList` invariant that `add_community` maintains) and, for
  AS_PATH / AS4_PATH, any hop path of C13's `WfHopsG` (segment hops of any type
  and width, at most 255 ASNs each: more is known finding K2, witnessed below).
  The length, header and no-panic clauses are proved for all of these.
* `WfAttr a` – in addition the hop path holds no non-empty AS_SEQUENCE as ONE
  `Hop::Segment` and its segment hops are stored four octets wide: the values
  over C13's quantifier ("hop paths over ASNs, AS_SETs and confederation
  segments") as `Hop::Asn` + `Segment::new_*` build them and as every decoder
  returns them. For these `decode (encode a) = a` (`roundtrip`).
* For a `WfAttrG` value outside `WfAttr` the round trip is stated up to the
  normal form `a.normG` (AS_SEQUENCE segment hops replaced by their ASNs, segment
  hops four octets wide): `decode (encode a) = a.normG` (`roundtrip_norm`), with
  `normG` idempotent, `a.normG = a ↔ WfAttr a`, and `a`, `a.normG` decoding to
  the same value (`normal_form`). On the real code `HopPath[Segment(AS_SEQUENCE
  [1,2]), Asn(7)]` encodes to the wire form of `[Asn 1, Asn 2, Asn 7]` and decodes
  to the latter, which Rust's `==` tells from the original (`Hop::eq` is false
  for `Segment` against `Asn`): the two denote the same AS path, the wire cannot
  tell them apart, and routecore's own comment (aspath.rs, `new_sequence`) calls
  a Sequence segment inside a HopPath inconsistent with `Hop::Asn`. The harness
  executes such values on every run (`enc aspath:s2/4:1.2,a7`).
-/
import Rc.Lemmas.Attr
import Rc.Gen.AttrFlags

namespace Rc.Thm.C04
open Rc Rc.AsPath Rc.Attr

/-! ## the flags table: regenerated from the source, compared with the model and with the RFCs

`Rc/Gen/AttrFlags.lean` is written by `tools/gen_codepoints.py --attr-flags` (pre step of this
check) from the `path_attributes!( code => Name(Type), Flags::X, … )` invocation and the
`impl Flags` constants of src/bgp/path_attributes.rs AS THEY ARE NOW. The three theorems below
are therefore re-decided against the current source on every run: an edited flags entry, an
added / removed row or a changed constant fails the proof step. -/

/-- the attribute flags the defining documents give each type code of the table (RFC 4271 5.1:
ORIGIN, AS_PATH, NEXT_HOP well-known mandatory, LOCAL_PREF, ATOMIC_AGGREGATE well-known
discretionary = 0x40 (transitive bit set, optional bit clear); MULTI_EXIT_DISC optional
non-transitive = 0x80, AGGREGATOR optional transitive = 0xC0; RFC 1997 COMMUNITIES, RFC 4360
EXTENDED COMMUNITIES, RFC 6793 AS4_PATH / AS4_AGGREGATOR, RFC 6037 CONNECTOR,
draft-ietf-idr-as-pathlimit AS_PATHLIMIT, RFC 5701 IPv6 EXTENDED COMMUNITIES, RFC 8092 LARGE
COMMUNITIES, RFC 9234 OTC, RFC 6368 ATTR_SET optional transitive; RFC 4456 ORIGINATOR_ID,
CLUSTER_LIST optional non-transitive). Typed here from the documents, not from routecore. -/
def rfcFlags : List (Nat × Nat) :=
  [(1, 0x40), (2, 0x40), (3, 0x40), (5, 0x40), (6, 0x40),
   (4, 0x80), (9, 0x80), (10, 0x80),
   (7, 0xC0), (8, 0xC0), (16, 0xC0), (17, 0xC0), (18, 0xC0), (20, 0xC0), (21, 0xC0), (25, 0xC0),
   (32, 0xC0), (35, 0xC0), (128, 0xC0)]

/-- **generated_flags_agree**: the model's canonical flags ARE the (type code, `A::FLAGS`) table the
`path_attributes!` macro makes of its invocation as the source is now (the `Flags::` constant of each
row put through the macro's `const FLAGS: u8 = <expr>`, `TYPE_CODE` = the row's code, `default_flags`
= `<$data>::FLAGS.into()`: translated from the macro DEFINITION, see Rc/Gen/AttrFlags.lean) – for
every type code an octet can hold (so also: exactly the source's rows are typed kinds), and for each
of the 20 typed kinds of the model; the model's `extBit` is the mask test of the source's
`Flags::is_extended_length`; and the `Invalid` attribute built for a typed kind that does not
validate carries these flags, not the received ones -/
theorem generated_flags_agree :
    (∀ c, c < 256 → canonicalFlags c = Rc.Gen.attrFlagsOf c) ∧
    (∀ a : TypedAttr, Rc.Gen.attrFlagsOf a.code = some a.flags) ∧
    (∀ n, n < 256 → extBit (UInt8.ofNat n) = (n &&& Rc.Gen.isExtendedLenTest.1 == Rc.Gen.isExtendedLenTest.2)) ∧
    Rc.Gen.invalidArmFromWire = false ∧ Rc.Gen.invalidArmFlags = Rc.Gen.attrFlags := by
  refine ⟨by decide +kernel, ?_, by decide +kernel, by decide, by decide⟩
  intro a
  cases a <;> simp only [TypedAttr.code, TypedAttr.flags] <;> decide

/-- the source's table agrees with the documents: every row the RFCs define carries the flags they
give it, the table holds no other row than those and the development code 255 (RFC 2042, no
category defined; as coded: optional transitive), no code twice; the two MP attributes the typed
table leaves out are optional non-transitive (RFC 4760); and the flag constants are the bit
positions of RFC 4271 4.3.  `rfcFlags` is typed from the documents (a genuine second side).  The
second conjunct pins the source's table to `rfcFlags` + code 255: adding ANY typed kind to
`path_attributes!` (also one with the flags its RFC gives it) fails it until `rfcFlags` is extended
from that RFC - an alarm on every extension, not only on a wrong one (as is `generated_flags_agree`,
whose model side has to learn the new kind too) -/
theorem generated_flags_rfc :
    (∀ r ∈ rfcFlags, Rc.Gen.attrFlagsOf r.1 = some r.2) ∧
    (∀ r ∈ Rc.Gen.attrFlags, r ∈ rfcFlags ∨ r = (255, 0xC0)) ∧
    (Rc.Gen.attrFlags.map (·.1)).Nodup ∧
    Rc.Gen.mpAttrFlags = [(14, 0x80), (15, 0x80)] ∧
    Rc.Gen.flagWellknown = 0x40 ∧ Rc.Gen.flagOptNonTrans = 0x80 ∧ Rc.Gen.flagOptTrans = 0xC0 ∧
    Rc.Gen.flagExtendedLen = 0x10 ∧ Rc.Gen.flagPartial = 0x20 := by
  decide

/-- what the two theorems give together: the canonical flags of the model are the RFCs' -/
theorem canonical_flags_rfc : ∀ r ∈ rfcFlags, canonicalFlags r.1 = some r.2 := by
  intro r hr
  have h1 := generated_flags_rfc.1 r hr
  have hlt : r.1 < 256 := by
    revert r; decide
  rw [generated_flags_agree.1 r.1 hlt]; exact h1

/-! ## helper facts (private) -/

private theorem flags_cases (a : TypedAttr) :
    (a.flags = 0x40 ∨ a.flags = 0x80 ∨ a.flags = 0xC0) ∧ canonicalFlags a.code = some a.flags ∧
      a.code < 256 := by
  cases a <;> simp [TypedAttr.flags, TypedAttr.code, canonicalFlags]

private theorem composeHeader_length (f c n : Nat) : (composeHeader f c n).length = headerLen n := by
  unfold composeHeader headerLen
  split <;> simp

private theorem enc_shape (a : TypedAttr) (wf : WfAttrG a = true) :
    ∃ v, composeValue a = .ok v ∧ valueLen a = .ok v.length ∧
      encAttr a = .ok (composeHeader a.flags a.code v.length ++ v) ∧
      composeLen a = .ok (headerLen v.length + v.length) ∧
      validate a.code true v = some true ∧ parseValue a.code true v = .ok a.normG := by
  obtain ⟨v, h1, h2, h3, h4⟩ := value_specG a wf
  exact ⟨v, h1, h2, by simp [encAttr, h1, h2], by simp [composeLen, h2], h3, h4⟩

private theorem table_codes (c cf : Nat) (h : canonicalFlags c = some cf) :
    c = 1 ∨ c = 2 ∨ c = 3 ∨ c = 4 ∨ c = 5 ∨ c = 6 ∨ c = 7 ∨ c = 8 ∨ c = 9 ∨ c = 10 ∨ c = 16 ∨
      c = 17 ∨ c = 18 ∨ c = 20 ∨ c = 21 ∨ c = 25 ∨ c = 32 ∨ c = 35 ∨ c = 128 ∨ c = 255 := by
  unfold canonicalFlags at h
  split at h
  · omega
  · split at h
    · omega
    · split at h
      · omega
      · simp at h

/-! ## length -/

/-- *"the length the attribute reports before encoding equals the number of
bytes actually produced"*: `compose_len()` = length of what `compose` writes,
for every kind and every size. -/
theorem compose_len_eq (a : TypedAttr) (wf : WfAttrG a = true) :
    ∃ (bs : Bytes) (n : Nat), encAttr a = .ok bs ∧ composeLen a = .ok n ∧ bs.length = n := by
  obtain ⟨v, _, _, h3, h4, _⟩ := enc_shape a wf
  refine ⟨_, _, h3, h4, ?_⟩
  simp [composeHeader_length]

example : WfAttr (.communities ⟨[1, 2], 8, false⟩) = true := by decide
example : WfAttr (.asPath [.asn 64496, .seg ⟨1, true, [1, 2]⟩]) = true := by decide
example : WfAttr (.extCommunities [[0, 2, 0xfd, 0xe8, 0, 0, 0, 1]]) = true := by decide
example : WfAttrG (.asPath [.seg ⟨2, true, [1, 2]⟩, .asn 7]) = true := by decide
example : WfAttr (.asPath [.seg ⟨2, true, [1, 2]⟩, .asn 7]) = false := by decide

/-! ## header -/

/-- *"the encoding carries the type's canonical flags and code and uses the
extended-length form exactly when the value exceeds 255 bytes"*: the first
octet is the type's canonical flags (those of the `path_attributes!` table for
the second octet, the type code) plus EXTENDED_LEN iff the value is longer than
255 bytes; then the length in one resp. two octets; then the value.
(`TypedAttr.flags` is DEFINED as the model's table entry, so the conjunct
`canonicalFlags tc = some a.flags` says "the octet written is the table's entry
for the code written"; that the table is the RFCs' is judged by the harness'
independent `TABLE` on every run.) -/
theorem canonical_header (a : TypedAttr) (wf : WfAttrG a = true) :
    ∃ (v : Bytes) (fl tc : UInt8) (rest : Bytes), composeValue a = .ok v ∧
      encAttr a = .ok (fl :: tc :: rest) ∧
      canonicalFlags tc.toNat = some a.flags ∧ tc.toNat = a.code ∧
      fl.toNat = a.flags + (if v.length > 255 then 16 else 0) ∧
      (v.length ≤ 65535 →
        rest = (if v.length > 255 then be16 v.length else [UInt8.ofNat v.length]) ++ v) := by
  obtain ⟨v, h1, _, h3, _, _⟩ := enc_shape a wf
  obtain ⟨hf, hc, hlt⟩ := flags_cases a
  obtain ⟨_, _, e3, e4⟩ := extBit_plain a.flags hf
  have htc : (UInt8.ofNat a.code).toNat = a.code := by simp [UInt8.toNat_ofNat']; omega
  by_cases hx : v.length > 255
  · refine ⟨v, UInt8.ofNat (a.flags ||| 0x10), UInt8.ofNat a.code, be16 (min v.length 65535) ++ v, h1, ?_,
      by rw [htc]; exact hc, htc, by rw [e4, if_pos hx], ?_⟩
    · simp [h3, composeHeader, hx]
    · intro hle
      have : min v.length 65535 = v.length := by omega
      simp [hx, this]
  · refine ⟨v, UInt8.ofNat a.flags, UInt8.ofNat a.code, UInt8.ofNat (min v.length 255) :: v, h1, ?_,
      by rw [htc]; exact hc, htc, by rw [e3, if_neg hx]; rfl, ?_⟩
    · simp [h3, composeHeader, hx]
    · intro _
      have : min v.length 255 = v.length := by omega
      simp [hx, this]

/-- EXTENDED_LEN is set iff the value is longer than 255 bytes. -/
theorem ext_iff (a : TypedAttr) (wf : WfAttrG a = true) :
    ∃ (v : Bytes) (fl : UInt8) (rest : Bytes), composeValue a = .ok v ∧
      encAttr a = .ok (fl :: rest) ∧ (extBit fl = true ↔ v.length > 255) := by
  obtain ⟨v, h1, _, h3, _, _⟩ := enc_shape a wf
  obtain ⟨hf, _, _⟩ := flags_cases a
  obtain ⟨e1, e2, _, _⟩ := extBit_plain a.flags hf
  by_cases hx : v.length > 255
  · exact ⟨v, UInt8.ofNat (a.flags ||| 0x10), _, h1, by simp [h3, composeHeader, hx]; rfl, ⟨fun _ => hx, fun _ => e2⟩⟩
  · exact ⟨v, UInt8.ofNat a.flags, _, h1, by simp [h3, composeHeader, hx]; rfl,
      ⟨fun h => absurd h (by simp [e1]), fun h => absurd h hx⟩⟩

/-! ## round trip -/

/-- the general form, for EVERY API-buildable value (all 20 kinds, all list
lengths, hop paths holding any segment hops): decoding the encoding (four-octet
session) gives the value's normal form `a.normG` – whatever follows the
attribute in the buffer. The value must have an encoding at all (at most 65535
bytes). -/
theorem roundtrip_norm (a : TypedAttr) (wf : WfAttrG a = true)
    (fit : ∀ v, composeValue a = .ok v → v.length ≤ 65535) :
    ∃ bs : Bytes, encAttr a = .ok bs ∧
      ∀ r : Bytes, decAttr true (bs ++ r) = .ok (.ok (.typed a.normG), r) := by
  obtain ⟨v, h1, _, h3, _, h5, h6⟩ := enc_shape a wf
  obtain ⟨hf, _, hlt⟩ := flags_cases a
  refine ⟨_, h3, fun r => ?_⟩
  have htc : (UInt8.ofNat a.code).toNat = a.code := by simp [UInt8.toNat_ofNat']; omega
  have hs := splitAttr_composeHeader a.flags a.code v.length v r hf rfl (fit v h1)
  simp only [decAttr, parseWire, List.append_assoc, hs, htc, h5, toOwned, h6]

/-- *"encoding it and decoding the result (with 4-octet AS numbers) yields an
equal value"*: for all 20 kinds and all list lengths the decoded value is
*identical* to the original – for every value in normal form (`WfAttr`: what
`Hop::Asn` + `Segment::new_*` build and what every decoder returns; for the 18
kinds without a hop path that is every value). -/
theorem roundtrip (a : TypedAttr) (wf : WfAttr a = true)
    (fit : ∀ v, composeValue a = .ok v → v.length ≤ 65535) :
    ∃ bs : Bytes, encAttr a = .ok bs ∧
      ∀ r : Bytes, decAttr true (bs ++ r) = .ok (.ok (.typed a), r) := by
  have hw : WfAttrW a = true := by
    simp only [WfAttr, Bool.and_eq_true] at wf; exact wf.1
  have hg := wfAttrG_of_wfAttrW a hw
  have := roundtrip_norm a hg fit
  rwa [(normG_eq_self_iff a hg).mpr wf] at this

/-- the clause with Rust's own `==`: for every value over C13's quantifier
(`WfAttrW`: segment hops stored in EITHER width, e.g. cut out of a two-octet
path) the decoded value compares `==` to the original – `PathAttribute::eq`,
whose `Hop::eq` is blind to the storage width. -/
theorem roundtrip_eq (a : TypedAttr) (wf : WfAttrW a = true)
    (fit : ∀ v, composeValue a = .ok v → v.length ≤ 65535) :
    ∃ (bs : Bytes) (d : TypedAttr), encAttr a = .ok bs ∧ d.eqRust a = true ∧
      ∀ r : Bytes, decAttr true (bs ++ r) = .ok (.ok (.typed d), r) := by
  obtain ⟨bs, e, dd⟩ := roundtrip_norm a (wfAttrG_of_wfAttrW a wf) fit
  refine ⟨bs, a.norm, e, eqRust_norm a, fun r => ?_⟩
  rw [← normG_eq_norm a wf]; exact dd r

example : WfAttrW (.asPath [.seg ⟨1, false, [1, 2]⟩, .asn 7]) = true := by decide

/-- ... whereas `==` does tell a hop path holding an AS_SEQUENCE as one segment
hop from its normal form (the disclosed limit of the round trip). -/
example : (TypedAttr.asPath [.seg ⟨2, true, [1, 2]⟩, .asn 7]).normG.eqRust
    (.asPath [.seg ⟨2, true, [1, 2]⟩, .asn 7]) = false := by decide

/-- what comes out of the decoder is in normal form (`WfAttr`), so it round-trips
exactly (decode -> encode -> decode is stable). -/
theorem norm_wf (a : TypedAttr) (wf : WfAttrG a = true) : WfAttr a.normG = true :=
  normG_wf a wf

/-- the normal form is one: `normG` is idempotent; a value is its own normal
form exactly when it is `WfAttr`; the normal form keeps the type code; and a
value and its normal form decode to the SAME value after encoding – a receiver
cannot tell them apart. -/
theorem normal_form (a : TypedAttr) (wf : WfAttrG a = true)
    (fit : ∀ b, b = a ∨ b = a.normG → ∀ v, composeValue b = .ok v → v.length ≤ 65535) :
    a.normG.normG = a.normG ∧ (a.normG = a ↔ WfAttr a = true) ∧ a.normG.code = a.code ∧
      ∃ bs bs' : Bytes, encAttr a = .ok bs ∧ encAttr a.normG = .ok bs' ∧
        decAttr true bs = .ok (.ok (.typed a.normG), []) ∧
        decAttr true bs' = .ok (.ok (.typed a.normG), []) := by
  obtain ⟨bs, e1, d1⟩ := roundtrip_norm a wf (fit a (Or.inl rfl))
  obtain ⟨bs', e2, d2⟩ := roundtrip (a.normG) (normG_wf a wf) (fit a.normG (Or.inr rfl))
  refine ⟨normG_idem a, normG_eq_self_iff a wf, normG_code a, bs, bs', e1, e2, ?_, ?_⟩
  · simpa using d1 []
  · simpa using d2 []

/-- the same for a whole run of attributes: writing any list of well-formed
values one after the other and iterating `PathAttributes` + `to_owned` over
the bytes gives back exactly those values, in order, nothing more. -/
theorem roundtrip_list : ∀ (as : List TypedAttr),
    (∀ a ∈ as, WfAttrG a = true ∧ ∀ v, composeValue a = .ok v → v.length ≤ 65535) →
    ∃ bs : Bytes, encAll as = .ok bs ∧
      ∀ f, bs.length ≤ f → decAll true f bs = .ok (as.map fun a => .ok (.typed a.normG))
  | [], _ => ⟨[], rfl, fun f _ => by cases f <;> simp [decAll]⟩
  | a :: r, h => by
    obtain ⟨hw, hfit⟩ := h a (by simp)
    obtain ⟨x, hx, hdec⟩ := roundtrip_norm a hw hfit
    obtain ⟨y, hy, ih⟩ := roundtrip_list r (fun b hb => h b (by simp [hb]))
    obtain ⟨v, _, _, h3, _, _⟩ := enc_shape a hw
    have hxl : 3 ≤ x.length := by
      rw [hx] at h3
      have := Outcome.ok.inj h3
      rw [this]
      have := composeHeader_length a.flags a.code v.length
      simp only [List.length_append, this, headerLen]
      split <;> omega
    refine ⟨x ++ y, by simp [encAll, hx, hy], fun f hf => ?_⟩
    have hl : (x ++ y).length = x.length + y.length := List.length_append
    match f, hf with
    | 0, hf => omega
    | f + 1, hf =>
      have hne : (x ++ y).isEmpty = false := by
        cases hxy : x ++ y with
        | nil => rw [hxy] at hl; simp only [List.length_nil] at hl; omega
        | cons _ _ => rfl
      have hyf : y.length ≤ f := by omega
      unfold decAll
      simp only [hne, Bool.false_eq_true, if_false, hdec y, ih f hyf, List.map_cons]

/-! ## length rules -/

/-- an attribute as it may arrive: any flags octet, any code, the length form
the flags announce -/
def rawAttr (fl tc : UInt8) (v : Bytes) : Bytes :=
  if extBit fl then fl :: tc :: (be16 v.length ++ v) else fl :: tc :: UInt8.ofNat v.length :: v

/-- the value fits the length field its flags announce -/
def rawFits (fl : UInt8) (v : Bytes) : Bool :=
  if extBit fl then decide (v.length ≤ 65535) else decide (v.length ≤ 255)

private theorem splitAttr_raw (fl tc : UInt8) (v r : Bytes) (h : rawFits fl v = true) :
    splitAttr (rawAttr fl tc v ++ r) = some (fl, tc, v, r) := by
  unfold rawAttr rawFits at *
  by_cases hx : extBit fl = true
  · simp only [hx, if_true, decide_eq_true_eq] at h
    simp only [hx, if_true, List.cons_append, List.append_assoc, splitAttr,
      rd16_be16 v.length (by omega), takeN_append]
  · simp only [hx, Bool.false_eq_true, if_false, decide_eq_true_eq] at h
    have ht : (UInt8.ofNat v.length).toNat = v.length := by simp [UInt8.toNat_ofNat']; omega
    simp only [hx, Bool.false_eq_true, if_false, List.cons_append, splitAttr, rd8, ht, takeN_append]

/-- the per-type length rules as the RFCs give them (4271, 4456, 4360, 6793,
5701, 8092, 9234, 6368; draft AS_PATHLIMIT / connector); `four` = the session
negotiated four-octet AS numbers. The two AS path types (2, 17) are judged on
their segment structure, see `path_rule`. -/
def lengthRule (code : Nat) (four : Bool) (n : Nat) : Bool :=
  if code = 1 then n == 1
  else if code = 3 ∨ code = 4 ∨ code = 5 ∨ code = 9 ∨ code = 20 ∨ code = 35 then n == 4
  else if code = 6 then n == 0
  else if code = 7 then n == (if four then 8 else 6)
  else if code = 8 ∨ code = 10 then n % 4 == 0
  else if code = 16 then n % 8 == 0
  else if code = 18 then n == 8
  else if code = 21 then n == 5
  else if code = 25 then n % 20 == 0
  else if code = 32 then n % 12 == 0
  else if code = 128 then decide (4 ≤ n)
  else true

/-- every typed code of the table has a rule, and for the 18 non-path types
`validate` is exactly the length rule – for every length `n`. (`lengthRule` is a
second copy of the rules typed in Lean from the RFCs; the copy independent of
Lean is the harness' `ref_rule`.) -/
theorem validate_is_length_rule (code cf : Nat) (four : Bool) (v : Bytes)
    (hc : canonicalFlags code = some cf) (h2 : code ≠ 2) (h17 : code ≠ 17) :
    validate code four v = some (lengthRule code four v.length) := by
  rcases table_codes code cf hc with h | h | h | h | h | h | h | h | h | h | h | h | h | h | h | h | h | h | h | h <;>
    subst h <;> first | contradiction | (cases four <;> simp [validate, lengthRule])

/-- for the two AS path types `validate` accepts exactly the encodings of
segment lists (types 1..4, counts matching, nothing left over), in the session's
width for AS_PATH and always four octets wide for AS4_PATH. -/
theorem path_rule (four : Bool) (v : Bytes) :
    (validate 2 four v = some true ↔
      ∃ ss : List Seg, (∀ s ∈ ss, s.wireOk four = true) ∧ v = encSegs four ss) ∧
    (validate 17 four v = some true ↔
      ∃ ss : List Seg, (∀ s ∈ ss, s.wireOk true = true) ∧ v = encSegs true ss) ∧
    (∃ b, validate 2 four v = some b) ∧ (∃ b, validate 17 four v = some b) := by
  have key : ∀ w : Bool, pathValid w v = true ↔
      ∃ ss : List Seg, (∀ s ∈ ss, s.wireOk w = true) ∧ v = encSegs w ss := by
    intro w
    constructor
    · intro h
      have hc : check w v = .ok () := by
        unfold pathValid at h
        cases hcv : check w v with
        | ok u => cases u; rfl
        | err => simp [hcv] at h
        | panic => simp [hcv] at h
      obtain ⟨ss, hss, rfl⟩ := check_sound w v hc
      exact ⟨ss, fun s hs => (hss s hs).1, rfl⟩
    · rintro ⟨ss, hss, rfl⟩
      simp [pathValid, check_enc w ss hss]
  refine ⟨?_, ?_, ⟨_, by simp [validate]; rfl⟩, ⟨_, by simp [validate]; rfl⟩⟩
  · simp [validate, key four]
  · simp [validate, key true]

/-- *"Decoding never yields a typed value for an attribute whose value violates
that type's length rules: such an attribute is surfaced as invalid, carrying
its raw value bytes, without failing the whole message"* – for every typed
code, every flags octet, every value (hence every length) and whatever follows:
the attribute decodes to `Invalid(canonical flags, code, value)` **iff** the
type's `validate` rejects the value; a rejected value never becomes a typed
attribute, and decoding does not fail. -/
theorem invalid_iff (four : Bool) (fl tc : UInt8) (v r : Bytes) (cf : Nat)
    (hfit : rawFits fl v = true) (hc : canonicalFlags tc.toNat = some cf) :
    (decAttr four (rawAttr fl tc v ++ r) = .ok (.ok (.invalid cf tc.toNat v), r) ↔
        validate tc.toNat four v = some false) ∧
      (validate tc.toNat four v = some false →
        ∀ a r', decAttr four (rawAttr fl tc v ++ r) ≠ .ok (.ok (.typed a), r')) ∧
      (∃ d, decAttr four (rawAttr fl tc v ++ r) = .ok (d, r)) := by
  have hs := splitAttr_raw fl tc v r hfit
  have hsome : ∃ b, validate tc.toNat four v = some b := by
    by_cases h2 : tc.toNat = 2
    · rw [h2]; exact (path_rule four v).2.2.1
    · by_cases h17 : tc.toNat = 17
      · rw [h17]; exact (path_rule four v).2.2.2
      · exact ⟨_, validate_is_length_rule _ cf four v hc h2 h17⟩
  obtain ⟨b, hb⟩ := hsome
  cases b
  · simp [decAttr, parseWire, hs, hb, hc, toOwned]
  · refine ⟨?_, by simp [hb], ?_⟩
    · simp only [decAttr, parseWire, hs, hb, toOwned]
      cases parseValue tc.toNat four v <;> simp
    · simp [decAttr, parseWire, hs, hb]

example : rawFits 0x40 [1, 2] = true := by decide

/-- unrecognised type codes – among them 14 and 15, which are not in the
table – are surfaced as `Unimplemented` with the flags as received. -/
theorem unrecognised_is_unimplemented (four : Bool) (fl tc : UInt8) (v r : Bytes)
    (hfit : rawFits fl v = true) (hc : canonicalFlags tc.toNat = none) :
    decAttr four (rawAttr fl tc v ++ r) = .ok (.ok (.unimplemented fl.toNat tc.toNat v), r) := by
  have hs := splitAttr_raw fl tc v r hfit
  have hn : validate tc.toNat four v = none := by
    unfold canonicalFlags at hc
    split at hc
    · simp at hc
    · split at hc
      · simp at hc
      · split at hc
        · simp at hc
        · rename_i h1 h2 h3
          unfold validate
          simp only [not_or] at h1 h2 h3
          simp [h1, h2, h3]
  simp [decAttr, parseWire, hs, hn, toOwned]

/-! ## the multiprotocol NLRI attributes reject the message -/

/-- one attribute of a section: flags, code, value -/
abbrev RawAttr := UInt8 × UInt8 × Bytes

def encSection (sec : List RawAttr) : Bytes := sec.flatMap fun x => rawAttr x.1 x.2.1 x.2.2

/-- MP_REACH_NLRI shorter than AFI + SAFI + next-hop length + reserved (5), or
MP_UNREACH_NLRI shorter than AFI + SAFI (3) – RFC 4760: the length rule of the
fixed part, the only malformation of these two attributes the theorem below
speaks about. -/
def mpShort (x : RawAttr) : Bool :=
  (x.2.1.toNat == 14 && decide (x.2.2.length < 5)) || (x.2.1.toNat == 15 && decide (x.2.2.length < 3))

private theorem rawAttr_length (fl tc : UInt8) (v : Bytes) : 3 ≤ (rawAttr fl tc v).length := by
  unfold rawAttr; split <;> simp <;> omega

private theorem attrsWalk_ok : ∀ (sec : List RawAttr) (f : Nat),
    (∀ x ∈ sec, rawFits x.1 x.2.2 = true) → (encSection sec).length ≤ f →
    attrsWalk f (encSection sec) = .ok ()
  | [], f, _, _ => by cases f <;> simp [encSection, attrsWalk]
  | x :: r, f, h, hf => by
    have h3 := rawAttr_length x.1 x.2.1 x.2.2
    have hlen : (encSection (x :: r)).length = (rawAttr x.1 x.2.1 x.2.2).length + (encSection r).length := by
      simp [encSection]
    match f, hf with
    | 0, hf => exact absurd hf (by omega)
    | f + 1, hf =>
      have ih := attrsWalk_ok r f (fun y hy => h y (by simp [hy])) (by omega)
      have hs := splitAttr_raw x.1 x.2.1 x.2.2 (encSection r) (h x (by simp))
      have hne : (encSection (x :: r)).isEmpty = false := by
        cases hx : encSection (x :: r) with
        | nil => rw [hx] at hlen; simp at hlen; omega
        | cons _ _ => rfl
      have hcons : encSection (x :: r) = rawAttr x.1 x.2.1 x.2.2 ++ encSection r := by simp [encSection]
      unfold attrsWalk
      simp only [hne, Bool.false_eq_true, if_false]
      rw [hcons]
      simp only [parseWire, hs]
      cases validate x.2.1.toNat true x.2.2 with
      | none => simpa using ih
      | some b => cases b <;> simpa using ih

private theorem mp_step (c n : Nat) (rest : Bool) :
    (if c = 14 then
        if n < 5 then (Outcome.err : Outcome Unit) else if rest = true then .err else .ok ()
      else if c = 15 then
        if n < 3 then .err else if rest = true then .err else .ok ()
      else if rest = true then .err else .ok ()) =
      if ((c == 14 && decide (n < 5)) || (c == 15 && decide (n < 3)) || rest) = true then .err
      else .ok () := by
  by_cases h14 : c = 14
  · by_cases hl : n < 5 <;> simp [h14, hl]
  · by_cases h15 : c = 15
    · by_cases hl : n < 3 <;> simp [h15, hl]
    · simp [h14, h15]

private theorem mpPeek_spec : ∀ (sec : List RawAttr) (f : Nat),
    (∀ x ∈ sec, rawFits x.1 x.2.2 = true) → (encSection sec).length ≤ f →
    mpPeek f (encSection sec) = if sec.any mpShort = true then .err else .ok ()
  | [], f, _, _ => by cases f <;> simp [encSection, mpPeek, splitAttr]
  | x :: r, f, h, hf => by
    have h3 := rawAttr_length x.1 x.2.1 x.2.2
    have hlen : (encSection (x :: r)).length = (rawAttr x.1 x.2.1 x.2.2).length + (encSection r).length := by
      simp [encSection]
    match f, hf with
    | 0, hf => exact absurd hf (by omega)
    | f + 1, hf =>
      have ih := mpPeek_spec r f (fun y hy => h y (by simp [hy])) (by omega)
      have hs := splitAttr_raw x.1 x.2.1 x.2.2 (encSection r) (h x (by simp))
      have hcons : encSection (x :: r) = rawAttr x.1 x.2.1 x.2.2 ++ encSection r := by simp [encSection]
      unfold mpPeek
      rw [hcons]
      simp only [hs, ih, List.any_cons, mpShort]
      exact mp_step _ _ _

/-- *"... except the two multiprotocol NLRI attributes, whose malformation
rejects the message"*, read as the LENGTH RULE of their fixed part (the sentence
this closes is about values violating a type's length rules): for an attribute
section made of any complete attributes (whatever their types, flags and values
– in particular values that violate a length rule, which are surfaced as
invalid), the attribute part of `UpdateMessage::parse` fails **iff** the section
holds an MP_REACH_NLRI shorter than 5 or an MP_UNREACH_NLRI shorter than 3 bytes.
Read from right to left this also says what the code does NOT reject: an MP
attribute of sufficient length that is malformed otherwise (next-hop length
overrunning the value, a prefix longer than its family allows) is accepted here
and fails later, when the NLRI are iterated. No theorem claims more, and the
oracle accepts either outcome for such values. -/
theorem mp_malformed_rejects (sec : List RawAttr) (h : ∀ x ∈ sec, rawFits x.1 x.2.2 = true) :
    attrSection (encSection sec) = if sec.any mpShort = true then .err else .ok () := by
  simp [attrSection, attrsWalk_ok sec _ h (Nat.le_refl _), mpPeek_spec sec _ h (Nat.le_refl _)]

/-! ## StandardCommunitiesList bookkeeping -/

/-- `len` is four times the number of communities added and `extended` says
whether that exceeds 255, after any number of `add_community` calls on a new
list; the communities are kept in order. -/
theorem scl_bookkeeping (cs : List Nat) :
    (cs.foldl SCL.add SCL.empty).cs = cs ∧ (cs.foldl SCL.add SCL.empty).len = 4 * cs.length ∧
      ((cs.foldl SCL.add SCL.empty).extended = true ↔ 4 * cs.length > 255) := by
  rw [scl_fold cs SCL.empty (by simp [SCL.empty])]
  simp [SCL.empty]

/-- such a list is well formed as an attribute value whenever the communities
are 32-bit numbers. -/
theorem scl_wf (cs : List Nat) (h : cs.all u32ok = true) :
    WfAttr (.communities (cs.foldl SCL.add SCL.empty)) = true := by
  rw [scl_fold cs SCL.empty (by simp [SCL.empty])]
  simp only [WfAttr, WfAttrW, pathsFour, SCL.wf, SCL.empty, List.nil_append, Nat.zero_add,
    Bool.and_eq_true, beq_iff_eq, and_true, Bool.and_true]
  exact ⟨by omega, h⟩

/-! ## known finding K2 inside a path attribute -/

/-- the full statement one would like: composing never panics for values whose
fields have their Rust types. -/
def EncodeTotalStatement : Prop :=
  ∀ (ty : Nat) (as : List Nat), (ty = 1 ∨ ty = 3 ∨ ty = 4) → (∀ a ∈ as, a < 4294967296) →
    encAttr (.asPath [Hop.seg ⟨ty, true, as⟩]) ≠ .panic

/-- K2 for every such segment: an AS_PATH attribute holding a segment hop of
more than 255 ASNs panics `compose` and `compose_len`. -/
theorem encode_long_segment_panics (s : Seg) (hl : 255 < s.asns.length) :
    encAttr (.asPath [Hop.seg s]) = .panic ∧ composeLen (.asPath [Hop.seg s]) = .panic := by
  have : ¬ s.asns.length ≤ 255 := by omega
  simp [encAttr, valueLen, pathBytes, compose, composeLen, composeLoop, spanAsns, emitRun, Seg.compose,
    u8Expect, this]

/-- K2: an AS_SET of 256 ASNs. -/
theorem encode_total_fails : ¬ EncodeTotalStatement := by
  intro h
  exact h 1 (List.replicate 256 0) (Or.inl rfl)
    (by intro a ha; have := (List.mem_replicate.mp ha).2; omega)
    (encode_long_segment_panics _
      (by show 255 < (List.replicate 256 0).length; rw [List.length_replicate]; omega)).1

/-- with exactly that exclusion (`WfAttrG`: segment hops of at most 255 ASNs)
composing and `compose_len` never panic, for every API-buildable value. -/
theorem encode_total_partial (a : TypedAttr) (wf : WfAttrG a = true) :
    encAttr a ≠ .panic ∧ composeLen a ≠ .panic := by
  obtain ⟨v, _, _, h3, h4, _⟩ := enc_shape a wf
  simp [h3, h4]

end Rc.Thm.C04
