/-
Property C01 – UPDATE decoding reports exactly what is on the wire, for every
session configuration; End-of-RIB is recognised for exactly its family.

Property theorems only.  The decoder is the model of
`UpdateMessage::from_octets` and its accessors (Rc/Model/Update.lean, after the
repairs F1, F2, F3, F22, F22b, F29, F30); `Observation` (Rc/Model/UpdateObs.lean) has
one field per accessor of the property's `observe_at` list.  The reference
encoder `encUpdateT` (Rc/Model/UpdateObs.lean, written from RFC 4271 / 4760 /
6793 / 7911 over the value composers of C04, C13 and C05) takes a content whose
attributes are TYPED values; it is the encoder whose octets the harness
compares with its own Rust reference encoder on every run (`enc` requests).

`decode_encode` is the property's first sentence as ONE record equation; the
theorems after it are its parts on the level of raw attribute values
(Rc/Lemmas/UpdateRaw.lean) and the End-of-RIB clauses.
-/
import Rc.Lemmas.UpdateDecEnc

namespace Rc.Thm.C01
open Rc Rc.Nlri Rc.Attr Rc.Upd

/-! ## decode ∘ encode, every accessor at once -/

/-- **decode_encode.** For every session configuration (2- or 4-octet AS
numbers, any ADD-PATH map) and every well-formed content given as TYPED
attributes – any mix of conventional and multiprotocol sections; any set and
order of attributes of the 20 typed kinds (AS paths as hop paths or as wire
segments), of unrecognised types, MP_REACH_NLRI / MP_UNREACH_NLRI of each of
the 13 families with their NLRI lists and path ids; any flags octets, short and
extended length encodings – the reference encoding exists, and when it fits the
length field (65535; the 4096 limit of RFC 4271 is not needed), also when
octets follow the announced length: **the message is accepted and everything
the accessors report is the content that was encoded** – ONE equation between
`Observation` records, whose fields are: the three lengths; the attribute
sequence with flags, type codes, lengths and value octets; `to_owned()` of every
attribute (typed values of all 20 kinds, in the session's ASN width: AS path
hops also on two-octet sessions, the aggregator's two- or four-octet AS number,
AS4_PATH always four octets wide); conventional and MP withdrawals /
announcements with path ids, labels, route distinguishers; the chained and the
`_vec` accessors; `typed_withdrawals` / `typed_announcements` of every family;
the four `afi_safis` slots; `is_eor`; origin, AS_PATH and AS4_PATH (octets and
hops), conventional and MP next hop, `find_next_hop` for every AFI/SAFI, MED,
LOCAL_PREF, ATOMIC_AGGREGATE, aggregator, the four community iterators and
`all_communities` (standard, extended, IPv6-extended, large – in this order).

`expected cfg c` (Rc/Lemmas/UpdateObs.lean) is computed from the content alone.
`WfContent` asks for values of the Rust types (C04's `WfAttrW`, C13's hop paths
/ wire segments, C05's `wf` – in particular zero host bits, as `inetnum`
demands), AS numbers that fit a two-octet session's fields, legal next-hop
lengths, lengths that fit the length field the flags octet announces, and – if
an MP attribute is repeated – repeated with the same content. -/
theorem decode_encode (cfg : Cfg) (c : TContent) (hw : WfContent cfg c) :
    ∃ bs, encUpdateT cfg c = .ok bs ∧
      (bs.length < 65536 → ∀ trail, decObserve cfg (bs ++ trail) = .ok (expected cfg c)) := by
  obtain ⟨bs, hbs, hdec⟩ := parse_encoded cfg c hw
  refine ⟨bs, hbs, fun hlen trail => ?_⟩
  obtain ⟨m, hm, hctx⟩ := hdec hlen trail
  simp only [decObserve, hm, hctx.observe_eq]

/-- **typed_value_roundtrip.** The bridge to C04 / C13 that `decode_encode`
rests on: for every well-formed value of the 20 typed kinds and BOTH ASN widths
(on a two-octet session the AS numbers of AS_PATH and AGGREGATOR must fit two
octets), the value octets of the reference encoder are accepted by the type's
`validate` and the type's `parse` returns the value (`normW`: with the segment
hops of a path stored in the width they were read in, which `==` ignores). -/
theorem typed_value_roundtrip (four : Bool) (a : TypedAttr) (hw : WfAttrW a = true)
    (hn : four = false → narrowOk a = true) :
    ∃ v, typedValue four a = .ok v ∧ validate a.code four v = some true ∧
      parseValue a.code four v = .ok (normW four a) :=
  typed_spec four a hw hn

/-- a hop path and the segment list `to_as_path` / `try_to_asn16_path` make of it
are the same content: the two forms of an AS path attribute in `AttrC` have the
same octets and the same expected hops (C13's `compose_spec`) -/
theorem hop_path_is_segments (four : Bool) (h : AsPath.HopPath) (hw : AsPath.WfHops h = true)
    (hn : four = false → AsPath.allSmall (AsPath.asnsOf h) = true) :
    ∃ ss : List AsPath.Seg, (∀ s ∈ ss, s.wireOk four = true) ∧
      typedValue four (.asPath h) = .ok (encSegsW four ss) ∧
      hopsOfWire four ss = h.map (AsPath.Hop.norm four) := by
  obtain ⟨ss, c1, c2, c3, c4, c5, _⟩ := AsPath.compose_spec h hw
  cases four with
  | true => exact ⟨ss, c3, by simp [typedValue, c1, encSegsW_eq], c5 true⟩
  | false =>
    have hs := hn rfl
    exact ⟨ss, c4 hs, by simp [typedValue, c2, hs, encSegsW_eq], c5 false⟩


/-! ## what the decoder reports about an MP attribute of an UNSUPPORTED (AFI, SAFI) and about the
reserved octet

Each clause is a predicate on an `Observation`; the private lemmas show that `expected cfg c` has it (a reading
of the definition of `expected`), the public theorems state it of `decObserve cfg (encoding ++ trail)` - the
DECODER model run on the encoder's octets - through `decode_encode`. -/

/-- what is reported when the (first) MP_REACH_NLRI is of an (AFI, SAFI) outside the 13 families -/
def ReachUReport (cfg : Cfg) (c : TContent) (fl : UInt8) (k : Nat × Nat) (nh : Bytes) (rsv : UInt8) (body : Bytes)
    (o : Observation) : Prop :=
  o.mpAnn = .ok (some (.unsupported k.1 k.2, ([], true))) ∧
  o.mpNextHop = .err ∧
  (∀ k', k' ≠ (1, 1) → o.findNextHop k' = .err) ∧
  (∀ g, (g ≠ .v4u ∨ c.ann = []) → o.typedAnn g = .ok none) ∧
  o.announcements = .ok o.convAnn ∧
  o.annVec = .ok (anyNlris .v4u (cfg.rx (1, 1)) c.ann) ∧
  o.afiSafis = .ok (if c.wd ≠ [] then some (.known .v4u (cfg.rx (1, 1))) else none,
    if c.ann ≠ [] then some (.known .v4u (cfg.rx (1, 1))) else none,
    (c.unreachOf cfg).map (·.1), some (.unsupported k.1 k.2)) ∧
  Outcome.ok (Wire.unimplemented fl.toNat 14 (mpReachValue k nh rsv body)) ∈ o.attrs.1 ∧
  Outcome.ok (Decoded.unimplemented fl.toNat 14 (mpReachValue k nh rsv body)) ∈ o.owned

/-- what is reported when the (first) MP_UNREACH_NLRI is of an unsupported (AFI, SAFI) -/
def UnreachUReport (cfg : Cfg) (c : TContent) (fl : UInt8) (k : Nat × Nat) (body : Bytes) (o : Observation) : Prop :=
  o.mpWd = .ok (some (.unsupported k.1 k.2, ([], true))) ∧
  (∀ g, (g ≠ .v4u ∨ c.wd = []) → o.typedWd g = .ok none) ∧
  o.withdrawals = .ok o.convWd ∧
  o.afiSafis = .ok (if c.wd ≠ [] then some (.known .v4u (cfg.rx (1, 1))) else none,
    if c.ann ≠ [] then some (.known .v4u (cfg.rx (1, 1))) else none,
    some (.unsupported k.1 k.2), (c.reachOf cfg).map (·.1)) ∧
  (body ≠ [] → o.isEor = .ok none) ∧
  (body = [] → c.wd = [] → c.ann = [] → c.find 14 = none → o.isEor = .ok (some k)) ∧
  Outcome.ok (Decoded.unimplemented fl.toNat 15 (mpUnreachValue k body)) ∈ o.owned

private theorem mem_of_find {c : TContent} {k : Nat} {a : AttrC} (h : c.find k = some a) : a ∈ c.attrs := by
  unfold TContent.find at h
  exact List.mem_of_find?_eq_some h

private theorem expected_unsupported_reach (cfg : Cfg) (c : TContent) (fl : UInt8) (k : Nat × Nat) (nh : Bytes)
    (rsv : UInt8) (body : Bytes) (hf : c.find 14 = some (.reachU fl k nh rsv body)) :
    ReachUReport cfg c fl k nh rsv body (expected cfg c) := by
  have hm := mem_of_find hf
  refine ⟨?_, ?_, ?_, ?_, ?_, ?_, ?_, ?_, ?_⟩
  · simp [expected, TContent.reachOf, hf, okItems]
  · simp [expected, TContent.reachNh, hf]
  · intro k' hk'
    simp [expected, findNextHopSpec, TContent.reachNh, hf, hk']
  · intro g hg
    have : ¬ (g = .v4u ∧ anyNlris .v4u (cfg.rx (1, 1)) c.ann ≠ []) := by
      rintro ⟨h1, h2⟩
      rcases hg with hg | hg
      · exact hg h1
      · exact h2 (by simp [hg, anyNlris])
    simp [expected, typedSpec, this, TContent.reachOf, hf]
  · simp [expected, TContent.reachOf, hf, okItems]
  · simp [expected, TContent.reachOf, hf]
  · simp only [expected, TContent.reachOf, hf, Option.map_some]
  · have : (AttrC.reachU fl k nh rsv body).wire cfg = .unimplemented fl.toNat 14 (mpReachValue k nh rsv body) := by
      simp [AttrC.wire, AttrC.ownedT, AttrC.valueD, AttrC.value, AttrC.fl, AttrC.code]
    simp only [expected, okItems, List.map_map, List.mem_map]
    exact ⟨_, hm, by simp [this]⟩
  · have : (AttrC.reachU fl k nh rsv body).owned cfg = .unimplemented fl.toNat 14 (mpReachValue k nh rsv body) := by
      simp [AttrC.owned, AttrC.ownedT, AttrC.valueD, AttrC.value, AttrC.fl, AttrC.code]
    simp only [expected, List.mem_map]
    exact ⟨_, hm, by simp [this]⟩

private theorem expected_unsupported_unreach (cfg : Cfg) (c : TContent) (fl : UInt8) (k : Nat × Nat) (body : Bytes)
    (hf : c.find 15 = some (.unreachU fl k body)) :
    UnreachUReport cfg c fl k body (expected cfg c) := by
  have hm := mem_of_find hf
  have hne : c.attrs ≠ [] := by
    intro h; simp [TContent.find, h] at hf
  refine ⟨?_, ?_, ?_, ?_, ?_, ?_, ?_⟩
  · simp [expected, TContent.unreachOf, hf, okItems]
  · intro g hg
    have : ¬ (g = .v4u ∧ anyNlris .v4u (cfg.rx (1, 1)) c.wd ≠ []) := by
      rintro ⟨h1, h2⟩
      rcases hg with hg | hg
      · exact hg h1
      · exact h2 (by simp [hg, anyNlris])
    simp [expected, typedSpec, this, TContent.unreachOf, hf]
  · simp [expected, TContent.unreachOf, hf, okItems]
  · simp only [expected, TContent.unreachOf, hf, Option.map_some]
  · intro hb
    simp [expected, hne, TContent.unreachOf, TContent.unreachEmpty, hf, hb]
  · intro hb hw ha h14
    simp [expected, hne, TContent.unreachOf, TContent.unreachEmpty, hf, hb, hw, ha, h14, NlriTy.afiSafi]
  · have : (AttrC.unreachU fl k body).owned cfg = .unimplemented fl.toNat 15 (mpUnreachValue k body) := by
      simp [AttrC.owned, AttrC.ownedT, AttrC.valueD, AttrC.value, AttrC.fl, AttrC.code]
    simp only [expected, List.mem_map]
    exact ⟨_, hm, by simp [this]⟩

/-- **unsupported_reach_reported** (about the DECODER: `decObserve` on the encoder's octets, any trailing octets).
When the (first) MP_REACH_NLRI of a well-formed content is of an (AFI, SAFI) outside the 13 families – next-hop
field `nh`, reserved octet `rsv`, then `body`, all arbitrary – the decoder model accepts the encoding and reports:
`mp_announcements()` is an iterator of type `Unsupported(afi, safi)` that yields NOTHING, whatever `body` holds;
`mp_next_hop()` is an `Err` and so is `find_next_hop(k')` for every `k'` but IPv4 unicast;
`typed_announcements::<T>()` is `Ok(None)` for every MP family's `T`; `announcements()` / `announcements_vec()`
hold the conventional NLRI only; the fourth `afi_safis` slot names the unsupported type; and the attribute itself is
among `path_attributes()` / `to_owned()` as an UNIMPLEMENTED attribute with flags as sent, type 14 and the value
octets as sent – the reserved octet included.  NOTE on the property: C01 speaks of SUPPORTED families; of these
clauses only "accepted", "no NLRI item", the value octets and `is_eor` are demanded by the property (and by the
harness oracle) – `Err` of `mp_next_hop`, the iterator type and the `afi_safis` slot are how the code behaves today,
proved of the model and held against the code by the correspondence run only. -/
theorem unsupported_reach_reported (cfg : Cfg) (c : TContent) (hw : WfContent cfg c) (fl : UInt8) (k : Nat × Nat)
    (nh : Bytes) (rsv : UInt8) (body : Bytes) (hf : c.find 14 = some (.reachU fl k nh rsv body)) :
    ∃ bs, encUpdateT cfg c = .ok bs ∧ (bs.length < 65536 → ∀ trail, ∃ o,
      decObserve cfg (bs ++ trail) = .ok o ∧ ReachUReport cfg c fl k nh rsv body o) := by
  obtain ⟨bs, hbs, hdec⟩ := decode_encode cfg c hw
  exact ⟨bs, hbs, fun hl trail => ⟨_, hdec hl trail, expected_unsupported_reach cfg c fl k nh rsv body hf⟩⟩

/-- **unsupported_unreach_reported** (about the DECODER, as above). The same for MP_UNREACH_NLRI of an unsupported
(AFI, SAFI) holding the octets `body`: `mp_withdrawals()` is an iterator of type `Unsupported(afi, safi)` without
items; `typed_withdrawals::<T>()` is `Ok(None)`; `withdrawals()` holds the conventional NLRI only; and `is_eor()` –
judged on the OCTETS, not on the iterator (F22b) – names exactly this (AFI, SAFI) when `body` is empty and the
message carries nothing else that holds NLRI (no conventional section, no MP_REACH_NLRI), and is `None` as soon as
`body` has one octet. -/
theorem unsupported_unreach_reported (cfg : Cfg) (c : TContent) (hw : WfContent cfg c) (fl : UInt8) (k : Nat × Nat)
    (body : Bytes) (hf : c.find 15 = some (.unreachU fl k body)) :
    ∃ bs, encUpdateT cfg c = .ok bs ∧ (bs.length < 65536 → ∀ trail, ∃ o,
      decObserve cfg (bs ++ trail) = .ok o ∧ UnreachUReport cfg c fl k body o) := by
  obtain ⟨bs, hbs, hdec⟩ := decode_encode cfg c hw
  exact ⟨bs, hbs, fun hl trail => ⟨_, hdec hl trail, expected_unsupported_unreach cfg c fl k body hf⟩⟩

/-- the same attribute with the reserved octet of an MP_REACH_NLRI (of a supported family or not) replaced -/
def setRsvA (r : UInt8) : AttrC → AttrC
  | .reach fl f nh _ nlri => .reach fl f nh r nlri
  | .reachU fl k nh _ body => .reachU fl k nh r body
  | a => a

/-- the same content with every reserved octet replaced by `r` -/
def setRsv (r : UInt8) (c : TContent) : TContent := { c with attrs := c.attrs.map (setRsvA r) }

/-- two observations agree in EVERY field but the two that present the attributes' value octets (`attrs` =
`path_attributes()`, `owned` = `to_owned()` of each) -/
def SameButAttrOctets (o o' : Observation) : Prop :=
  { o' with attrs := o.attrs, owned := o.owned } = o

private theorem setRsvA_code (r : UInt8) (a : AttrC) : (setRsvA r a).code = a.code := by
  cases a <;> rfl

private theorem setRsvA_fl (r : UInt8) (a : AttrC) : (setRsvA r a).fl = a.fl := by
  cases a <;> rfl

private theorem setRsvA_ownedT (cfg : Cfg) (r : UInt8) (a : AttrC) : (setRsvA r a).ownedT cfg = a.ownedT cfg := by
  cases a <;> rfl

private theorem setRsvA_hopsT (cfg : Cfg) (r : UInt8) (a : AttrC) : (setRsvA r a).hopsT cfg = a.hopsT cfg := by
  simp [AttrC.hopsT, setRsvA_ownedT]

private theorem setRsvA_valueLen (cfg : Cfg) (r : UInt8) (a : AttrC) :
    ((setRsvA r a).valueD cfg).length = (a.valueD cfg).length := by
  cases a <;> simp [setRsvA, AttrC.valueD, AttrC.value]
  · rename_i fl f nh rsv nlri
    cases encNlris f (cfg.rx (famCode f)) nlri <;> simp [mpReachValue]
  · simp [mpReachValue]

/-- an attribute that yields hops (an AS path) is not an MP attribute: replacing the reserved octet leaves it alone -/
private theorem setRsvA_of_hops (cfg : Cfg) (r : UInt8) (a : AttrC) (h : (a.hopsT cfg).isSome) : setRsvA r a = a := by
  cases a <;> simp_all [setRsvA, AttrC.hopsT, AttrC.ownedT]

private theorem find_setRsv (r : UInt8) (c : TContent) (k : Nat) :
    (setRsv r c).find k = (c.find k).map (setRsvA r) := by
  simp only [TContent.find, setRsv, List.find?_map]
  have : ((fun a : AttrC => a.code == k) ∘ setRsvA r) = (fun a => a.code == k) := by
    funext a; simp [setRsvA_code]
  rw [this]

private theorem typedOf_setRsv (r : UInt8) (c : TContent) (k : Nat) : (setRsv r c).typedOf k = c.typedOf k := by
  simp only [TContent.typedOf, find_setRsv]
  cases h : c.find k with
  | none => rfl
  | some a => cases a <;> rfl

private theorem recsOf_setRsv (r : UInt8) (c : TContent) (k : Nat) : (setRsv r c).recsOf k = c.recsOf k := by
  simp [TContent.recsOf, typedOf_setRsv]

private theorem reachOf_setRsv (cfg : Cfg) (r : UInt8) (c : TContent) : (setRsv r c).reachOf cfg = c.reachOf cfg := by
  simp only [TContent.reachOf, find_setRsv]
  cases h : c.find 14 with
  | none => rfl
  | some a => cases a <;> rfl

private theorem unreachOf_setRsv (cfg : Cfg) (r : UInt8) (c : TContent) :
    (setRsv r c).unreachOf cfg = c.unreachOf cfg := by
  simp only [TContent.unreachOf, find_setRsv]
  cases h : c.find 15 with
  | none => rfl
  | some a => cases a <;> rfl

private theorem reachNh_setRsv (r : UInt8) (c : TContent) : (setRsv r c).reachNh = c.reachNh := by
  simp only [TContent.reachNh, find_setRsv]
  cases h : c.find 14 with
  | none => rfl
  | some a => cases a <;> rfl

private theorem unreachEmpty_setRsv (r : UInt8) (c : TContent) : (setRsv r c).unreachEmpty = c.unreachEmpty := by
  simp only [TContent.unreachEmpty, find_setRsv]
  cases h : c.find 15 with
  | none => rfl
  | some a => cases a <;> rfl

private theorem pathOf_setRsv (cfg : Cfg) (r : UInt8) (c : TContent) (k : Nat) :
    ((setRsv r c).find k).bind (fun a => (a.hopsT cfg).map fun h => (a.valueD cfg, h)) =
      (c.find k).bind (fun a => (a.hopsT cfg).map fun h => (a.valueD cfg, h)) := by
  rw [find_setRsv]
  cases h : c.find k with
  | none => rfl
  | some a =>
    simp only [Option.map_some, Option.bind_some]
    cases hh : a.hopsT cfg with
    | none => simp [setRsvA_hopsT, hh]
    | some p => rw [setRsvA_of_hops cfg r a (by simp [hh])]; simp [hh]

private theorem encRaws_length_setRsv (cfg : Cfg) (r : UInt8) (l : List AttrC) :
    (encRaws ((l.map (setRsvA r)).map (AttrC.rawOf cfg))).length = (encRaws (l.map (AttrC.rawOf cfg))).length := by
  induction l with
  | nil => rfl
  | cons a t ih =>
    have h1 : (encRaw ((setRsvA r a).rawOf cfg)).length = (encRaw (a.rawOf cfg)).length := by
      have := setRsvA_valueLen cfg r a
      by_cases he : extBit a.fl = true <;> simp [encRaw, AttrC.rawOf, setRsvA_fl, he, this]
    simp only [encRaws, List.map_cons, List.flatten_cons, List.length_append] at ih ⊢
    omega

/-- `expected` does not look at the reserved octet outside the attributes' value octets -/
private theorem expected_reserved_octet (cfg : Cfg) (c : TContent) (r : UInt8) :
    SameButAttrOctets (expected cfg c) (expected cfg (setRsv r c)) := by
  have hnil : (setRsv r c).attrs = [] ↔ c.attrs = [] := by simp [setRsv]
  have hwd : (setRsv r c).wd = c.wd := rfl
  have hann : (setRsv r c).ann = c.ann := rfl
  have hlen := encRaws_length_setRsv cfg r c.attrs
  have hsome : ((setRsv r c).find 6).isSome = (c.find 6).isSome := by simp [find_setRsv]
  have h14 : (setRsv r c).find 14 = none ↔ c.find 14 = none := by simp [find_setRsv]
  have hattrs : (setRsv r c).attrs = c.attrs.map (setRsvA r) := rfl
  unfold SameButAttrOctets expected
  simp only [hwd, hann, reachOf_setRsv, unreachOf_setRsv, reachNh_setRsv, unreachEmpty_setRsv, typedOf_setRsv,
    recsOf_setRsv, pathOf_setRsv, hsome, h14, hattrs, hlen, List.map_eq_nil_iff]

/-- **reserved_octet_ignored** (about the DECODER). RFC 4760 3: the reserved octet of MP_REACH_NLRI "SHOULD be ignored
upon receipt".  Take a well-formed content `c` and the content `setRsv r c` that differs from it ONLY in the
reserved octet of its MP_REACH_NLRI attributes (of one of the 13 families or of an unsupported pair; `r`
arbitrary).  The decoder model, run on the two encodings (each followed by any octets), reports observations that
agree in EVERY field - lengths, conventional and MP NLRI with path ids, the chained / `_vec` / typed accessors,
`afi_safis`, `is_eor`, origin, AS paths, conventional and MP next hop, `find_next_hop` for every pair, MED ..
all community iterators - except the two that present the attributes' value octets themselves (`attrs`, `owned`),
where the octet is visible as sent (`unsupported_reach_reported` / `decode_encode`: value = `mpReachValue .. rsv ..`).
(`setRsv r c` is well-formed whenever `c` is and its encoding has the same length - both observations report the
same `length` -; the two facts are taken as hypotheses here, they are not proved separately.) -/
theorem reserved_octet_ignored (cfg : Cfg) (c : TContent) (r : UInt8) (hw : WfContent cfg c)
    (hw' : WfContent cfg (setRsv r c)) :
    ∃ bs bs', encUpdateT cfg c = .ok bs ∧ encUpdateT cfg (setRsv r c) = .ok bs' ∧
      (bs.length < 65536 → bs'.length < 65536 → ∀ trail trail', ∃ o o',
        decObserve cfg (bs ++ trail) = .ok o ∧ decObserve cfg (bs' ++ trail') = .ok o' ∧ SameButAttrOctets o o') := by
  obtain ⟨bs, hbs, hdec⟩ := decode_encode cfg c hw
  obtain ⟨bs', hbs', hdec'⟩ := decode_encode cfg (setRsv r c) hw'
  exact ⟨bs, bs', hbs, hbs', fun h h' trail trail' =>
    ⟨_, _, hdec h trail, hdec' h' trail', expected_reserved_octet cfg c r⟩⟩

/-- the per-field reading for one of the 13 families: the NLRI / next-hop accessors of a content whose first
MP_REACH_NLRI is `.reach fl f nh rsv nlri` do not mention `rsv` -/
theorem reserved_octet_fields (cfg : Cfg) (c : TContent) (hw : WfContent cfg c) (fl : UInt8) (f : Fam) (nh : Bytes)
    (rsv : UInt8) (nlri : List (Nat × f.Val)) (hf : c.find 14 = some (.reach fl f nh rsv nlri)) :
    ∃ bs, encUpdateT cfg c = .ok bs ∧ (bs.length < 65536 → ∀ trail, ∃ o, decObserve cfg (bs ++ trail) = .ok o ∧
      o.mpAnn = .ok (some (.known f (cfg.rx (famCode f)), okItems (anyNlris f (cfg.rx (famCode f)) nlri))) ∧
      o.mpNextHop = (match nhSpec f nh with | some x => .ok (some x) | none => .err) ∧
      (∀ x, nhSpec f nh = some x → o.findNextHop (famCode f) = .ok x)) := by
  obtain ⟨bs, hbs, hdec⟩ := decode_encode cfg c hw
  refine ⟨bs, hbs, fun hl trail => ⟨_, hdec hl trail, ?_, ?_, ?_⟩⟩
  · simp [expected, TContent.reachOf, hf]
  · simp only [expected, TContent.reachNh, hf, nhOf]
    cases nhSpec f nh <;> rfl
  · intro x hx
    by_cases h11 : famCode f = (1, 1) <;> simp [expected, findNextHopSpec, TContent.reachNh, hf, nhOf, hx, h11]


/-! ## the parts, on the level of raw attribute values -/

/-- **sections_decoded.** Whatever the three sections hold, as long as each is
acceptable on its own (the conventional NLRI validate under the session's IPv4
unicast ADD-PATH setting, the attributes are a sequence of complete TLVs with
well-formed MP attributes) and the PDU length fits its field, the framed
message is accepted – also with trailing octets after the announced length –
and the decoder's section ranges are exactly the three sections, the per-PDU
parse info is the session's. -/
theorem sections_decoded (cfg : Cfg) (wd attrs ann trail : Bytes) (reach unreach : Option (Nat × Nat))
    (hlen : 19 + 2 + wd.length + 2 + attrs.length + ann.length < 65536)
    (hwd : convValidate (cfg.rx (1, 1)) wd = .ok ())
    (hann : convValidate (cfg.rx (1, 1)) ann = .ok ())
    (hwalk : attrsWalk attrs.length attrs = .ok ())
    (hscan : mpScan attrs.length attrs none none = .ok (reach, unreach)) :
    parseUpdate cfg (frame wd attrs ann ++ trail) =
      .ok { body := be16 wd.length ++ (wd ++ (be16 attrs.length ++ (attrs ++ ann))),
            wd := wd, attrs := attrs, ann := ann, ppi := Ppi.ofCfg cfg reach unreach } := by
  apply Raw.sections_decoded <;> assumption

/-- **decode_encode_raw.** For every session configuration (ASN width, any
ADD-PATH map) and every well-formed content whose encoding fits the length
field (65535; the 4096 limit of RFC 4271 is not needed), also when octets
follow the announced length: the message is accepted, and the three lengths,
the conventional withdrawals and announcements with or without path ids, the
attribute sequence (flags, type codes, lengths, typed / invalid / unimplemented
kind and value octets), the ASN width and the per-section ADD-PATH flags the
accessors will use are exactly the content that was encoded.
The attributes are given by their value octets here; `decode_encode` is the
statement for typed contents and every accessor. -/
theorem decode_encode_raw (cfg : Cfg) (c : Content) (hw : WfUpdate cfg c) :
    ∃ bs, encUpdate cfg c = .ok bs ∧ (bs.length < 65536 → ∀ trail, ∃ m,
      parseUpdate cfg (bs ++ trail) = .ok m ∧
      m.length = bs.length ∧
      (∃ w a, encNlris .v4u (cfg.rx (1, 1)) c.wd = .ok w ∧ encNlris .v4u (cfg.rx (1, 1)) c.ann = .ok a ∧
        m.wd = w ∧ m.ann = a ∧ m.wdLen = w.length) ∧
      m.attrLen = (encRaws c.attrs).length ∧
      m.convWd = (reportNlris .v4u (cfg.rx (1, 1)) c.wd, true) ∧
      m.convAnn = (reportNlris .v4u (cfg.rx (1, 1)) c.ann, true) ∧
      m.pathAttributes = (c.attrs.map (reportAttr cfg.four), true) ∧
      m.attrs = encRaws c.attrs ∧
      m.ppi = Ppi.ofCfg cfg (lastMp 14 c.attrs none) (lastMp 15 c.attrs none)) := by
  apply Raw.decode_encode_partial <;> assumption

/-- **typed_value_reported.** The value octets a typed getter works on are the
value octets of the first attribute of its type in the encoded sequence,
provided that value obeys the type's length rule for the session's ASN width
(otherwise the attribute is surfaced as invalid and the getter answers `None`). -/
theorem typed_value_reported (m : Msg) (l : List RawAttr)
    (hpa : m.pathAttributes.1 = l.map (reportAttr m.ppi.four)) (code : Nat) (a : RawAttr)
    (hfirst : firstWith code l = some a) (hcode : a.tc.toNat = code) :
    m.typedValue code = (if validate code m.ppi.four a.v = some true then some a.v else none) := by
  apply Raw.typed_value_reported <;> assumption

/-- **getters_reported.** ORIGIN, MULTI_EXIT_DISC, LOCAL_PREF, NEXT_HOP,
ATOMIC_AGGREGATE and the four community flavours: the getter returns the encoded
value (as number / address octets / the sequence of fixed-size records). -/
theorem getters_reported (m : Msg) (l : List RawAttr)
    (hpa : m.pathAttributes.1 = l.map (reportAttr m.ppi.four)) :
    (∀ a b, firstWith 1 l = some a → a.tc.toNat = 1 → a.v = [b] → m.origin = .ok (some b.toNat)) ∧
    (∀ a n, firstWith 4 l = some a → a.tc.toNat = 4 → n < 4294967296 → a.v = be32 n → m.med = .ok (some n)) ∧
    (∀ a n, firstWith 5 l = some a → a.tc.toNat = 5 → n < 4294967296 → a.v = be32 n →
      m.localPref = .ok (some n)) ∧
    (∀ a, firstWith 3 l = some a → a.tc.toNat = 3 → a.v.length = 4 → m.convNextHop = .ok (some (.unicast a.v))) ∧
    (m.isAtomicAggregate = (firstWith 6 l).isSome) ∧
    (∀ code k a, (code, k) ∈ [(8, 4), (16, 8), (25, 20), (32, 12)] → firstWith code l = some a →
      a.tc.toNat = code → a.v.length % k = 0 → m.comms code k = some (commItems k a.v)) := by
  apply Raw.getters_reported <;> assumption

/-- the community iterators cut the value into its records: for a value that
is the concatenation of `k`-octet records they yield exactly those records -/
theorem comm_records (k : Nat) (hk : 0 < k) : ∀ (recs : List Bytes), (∀ r ∈ recs, r.length = k) →
    ∀ f, recs.length ≤ f → collect (commNext k) f recs.flatten = (recs.map Outcome.ok, true) :=
  Raw.comm_records k hk

/-- **mp_reach_reported.** If the first MP_REACH_NLRI attribute of the message
was built for family `f` with next hop field `nh` and the NLRI list `nlri`
(encoded with path ids exactly when the message's MP_REACH ADD-PATH flag is
set), then `mp_announcements()` is an iterator of that family's type over
exactly the NLRI octets and yields exactly `nlri`, every item `Ok`; the same
holds for `typed_announcements` of that type when there is no conventional NLRI
or the family is not IPv4 unicast. All 13 families. -/
theorem mp_reach_reported (m : Msg) (l : List RawAttr) (hm : m.attrs = encRaws l)
    (hwf : ∀ a ∈ l, a.wf = true) (a : RawAttr) (hfirst : firstWith 14 l = some a)
    (f : Fam) (nh : Bytes) (hnh : nh.length < 256) (nlri : List (Nat × f.Val))
    (hw : NlrisWf f m.ppi.mpReach nlri) :
    ∃ b, encNlris f m.ppi.mpReach nlri = .ok b ∧ (a.v = reachValue f nh b →
      m.mpAnn = .ok (some (.known f m.ppi.mpReach, b)) ∧
      enumItems (.known f m.ppi.mpReach) b = (reportNlris f m.ppi.mpReach nlri, true) ∧
      ((f ≠ .v4u ∨ m.ann = []) →
        m.typedAnn f m.ppi.mpReach = .ok (some (reportNlris f m.ppi.mpReach nlri, true)))) := by
  apply Raw.mp_reach_reported <;> assumption

/-- **mp_unreach_reported.** The same for MP_UNREACH_NLRI / `mp_withdrawals()` /
`typed_withdrawals`. -/
theorem mp_unreach_reported (m : Msg) (l : List RawAttr) (hm : m.attrs = encRaws l)
    (hwf : ∀ a ∈ l, a.wf = true) (a : RawAttr) (hfirst : firstWith 15 l = some a)
    (f : Fam) (nlri : List (Nat × f.Val)) (hw : NlrisWf f m.ppi.mpUnreach nlri) :
    ∃ b, encNlris f m.ppi.mpUnreach nlri = .ok b ∧ (a.v = unreachValue f b →
      m.mpWd = .ok (some (.known f m.ppi.mpUnreach, b)) ∧
      enumItems (.known f m.ppi.mpUnreach) b = (reportNlris f m.ppi.mpUnreach nlri, true) ∧
      ((f ≠ .v4u ∨ m.wd = []) →
        m.typedWd f m.ppi.mpUnreach = .ok (some (reportNlris f m.ppi.mpUnreach nlri, true)))) := by
  apply Raw.mp_unreach_reported <;> assumption

/-- the ADD-PATH flag of an MP section is the session's setting for the family
of the (only) attribute of that type: with `decode_encode_partial` this closes
the loop between the encoder's and the decoder's use of path ids -/
theorem mp_flag_of_unique (code : Nat) (l : List RawAttr) (a : RawAttr)
    (huniq : ∀ x ∈ l, x.tc.toNat = code → x = a) (hfirst : firstWith code l = some a) :
    lastMp code l none = (afiSafi a.v).map (·.1) := by
  apply Raw.mp_flag_of_unique <;> assumption

/-- **next_hop_reported.** For every family and every legal next-hop length the
next hop `mp_next_hop()` parses out of an encoded MP_REACH_NLRI value is the
content of the next-hop field (addresses, route distinguisher). -/
theorem next_hop_reported (f : Fam) (nh rest : Bytes) (x : NextHop) (hn : nh.length < 256)
    (hs : nhSpec f nh = some x) : nhParse (some f) (UInt8.ofNat nh.length :: (nh ++ rest)) = .ok x := by
  apply Raw.next_hop_reported <;> assumption

/-- **eor_iff.** `is_eor()` answers `Some(family)` in exactly two situations:
the 23-octet UPDATE (IPv4 unicast), or a message without conventional sections
and without an MP_REACH_NLRI attribute whose (first) MP_UNREACH_NLRI – of the
family the answer names, one of the 13 or not – holds no octet after AFI/SAFI. -/
theorem eor_iff (m : Msg) (k : Nat × Nat) :
    m.isEor = .ok (some k) ↔
      (m.length = 23 ∧ k = (1, 1)) ∨
      (m.length ≠ 23 ∧ m.wd = [] ∧ m.ann = [] ∧ m.hasMpNlri = .ok false ∧
        ∃ ty, m.mpWd = .ok (some (ty, [])) ∧ k = ty.afiSafi) := by
  apply Raw.eor_iff <;> assumption

/-- **eor_no_nlri.** A message that carries NLRI is never reported as
End-of-RIB, where "carries NLRI" is read off the OCTETS of the message: a
non-empty conventional section (withdrawn routes or NLRI), an MP_REACH_NLRI
attribute, or an MP_UNREACH_NLRI with at least one octet of withdrawn routes
after AFI/SAFI – of ANY address family, also one routecore has no NLRI type for
(whose iterator yields nothing whatever the attribute holds; before the repair
F22b such a message was reported as End-of-RIB). For every message, whatever its
bytes, under every configuration. -/
theorem eor_no_nlri (m : Msg) (k : Nat × Nat)
    (h : m.wd ≠ [] ∨ m.ann ≠ [] ∨ m.hasMpNlri = .ok true ∨
      ∃ ty bs, m.mpWd = .ok (some (ty, bs)) ∧ bs ≠ []) :
    m.isEor ≠ .ok (some k) := by
  apply Raw.eor_no_nlri <;> assumption

/-- the same with "carries NLRI" read off the iterator (the weaker form this
clause had before): an MP_UNREACH_NLRI whose iterator yields an item -/
theorem eor_no_nlri_items (m : Msg) (k : Nat × Nat) (ty : NlriTy) (bs : Bytes)
    (hm : m.mpWd = .ok (some (ty, bs))) (hi : (enumItems ty bs).1 ≠ []) : m.isEor ≠ .ok (some k) := by
  apply Raw.eor_no_nlri_items <;> assumption

/-- the hypothesis of `eor_no_nlri` is met by the message that showed the defect
(MP_UNREACH_NLRI of AFI 1 / SAFI 5, an unsupported family, withdrawing one /24):
it is accepted, its withdrawn-routes field is `18 ..`, and it is no End-of-RIB -/
example : (match parseUpdate ⟨true, []⟩ ((List.replicate 16 0xff) ++
      [0x00, 0x1e, 0x02, 0x00, 0x00, 0x00, 0x07, 0x80, 0x0f, 0x04, 0x00, 0x01, 0x05, 0x18]) with
    | .ok m => some (m.mpWd, m.isEor)
    | _ => none) = some (.ok (some (.unsupported 1 5, [0x18])), .ok none) := by decide +kernel

/-- **eor_marker_recognised.** The End-of-RIB marker of each of the 13 families
(an UPDATE holding nothing but an MP_UNREACH_NLRI with AFI/SAFI and no
withdrawn routes, RFC 4724) is reported as End-of-RIB of exactly that family,
under every session configuration; the empty UPDATE is IPv4 unicast's. -/
theorem eor_marker_recognised (cfg : Cfg) (f : Fam) (fl : UInt8) (trail : Bytes)
    (hwf : (⟨fl, 15, unreachValue f []⟩ : RawAttr).wf = true) :
    ∃ m, parseUpdate cfg (frame [] (encRaws [⟨fl, 15, unreachValue f []⟩]) [] ++ trail) = .ok m ∧
      m.isEor = .ok (some (famCode f)) := by
  apply Raw.eor_marker_recognised <;> assumption

/-! ## non-vacuity -/

/-- non-vacuity: a mixed message – a conventional withdrawal and announcement,
an extended-length AS_PATH, an MP_REACH_NLRI for IPv6 unicast with one
ADD-PATH NLRI 2001:db8::/32 – is well-formed in a four-octet session with
ADD-PATH for IPv6 unicast -/
example : WfUpdate ⟨true, [((2, 1), .both)]⟩
    { wd := [(0, ⟨false, 8, [10, 0, 0, 0]⟩)],
      attrs := [⟨0x50, 2, [2, 1, 0, 0, 0xfd, 0xe8]⟩,
                ⟨0x80, 14, reachValue .v6u (List.replicate 16 1) [0, 0, 0, 7, 32, 0x20, 0x01, 0x0d, 0xb8]⟩],
      ann := [(0, ⟨false, 24, [192, 0, 2, 0]⟩)] } := by
  refine ⟨?_, ?_, ?_, ?_⟩
  · have : (⟨true, [((2, 1), .both)]⟩ : Cfg).rx (1, 1) = false := by decide
    rw [this]; simp only [NlrisWf, Bool.false_eq_true, ↓reduceIte]; decide
  · have : (⟨true, [((2, 1), .both)]⟩ : Cfg).rx (1, 1) = false := by decide
    rw [this]; simp only [NlrisWf, Bool.false_eq_true, ↓reduceIte]; decide
  · decide
  · intro a ha
    simp only [List.mem_cons, List.not_mem_nil, or_false] at ha
    rcases ha with rfl | rfl
    · exact ⟨by decide, by decide⟩
    · exact ⟨fun _ => ⟨by decide, by decide⟩, by decide⟩

/-- ... and the NLRI list of that MP_REACH_NLRI is a well-formed ADD-PATH list -/
example : NlrisWf .v6u true [(7, ⟨true, 32, [0x20, 0x01, 0x0d, 0xb8, 0, 0, 0, 0, 0, 0, 0, 0, 0, 0, 0, 0]⟩)] := by
  simp only [NlrisWf, ↓reduceIte]; decide

example : nhSpec .v6u (List.replicate 32 1) = some (.ll (List.replicate 16 1) (List.replicate 16 1)) := by decide

/-! ### non-vacuity of `decode_encode` -/

/-- a four-octet session with ADD-PATH for IPv6 unicast -/
def exCfg : Cfg := ⟨true, [((2, 1), .both)]⟩

/-- a mixed message: a conventional withdrawal and announcement, ORIGIN, an
AS_PATH in the extended-length encoding (flags 0x50), an AGGREGATOR, standard
communities, an attribute of unrecognised type 99, MP_REACH_NLRI for IPv6
unicast with a link-local next-hop pair, a NON-ZERO reserved octet (0x55) and
one ADD-PATH NLRI (path id 7, 2001:db8::/32), MP_UNREACH_NLRI for IPv6 unicast with one ADD-PATH NLRI -/
def exContent : TContent where
  wd := [(0, ⟨false, 8, [10, 0, 0, 0]⟩)]
  attrs := [
    .typed 0x40 (.origin 0),
    .typed 0x50 (.asPath [.asn 65000, .asn 70000, .seg ⟨1, true, [1, 2]⟩]),
    .typed 0xc0 (.aggregator 70000 0xc0000201),
    .typed 0xc0 (.communities ⟨[0xfde80001, 0xffffff01], 8, false⟩),
    .raw 0xe0 99 [1, 2, 3],
    .reach 0x90 .v6u (List.replicate 32 1) 0x55
      [(7, ⟨true, 32, [0x20, 0x01, 0x0d, 0xb8, 0, 0, 0, 0, 0, 0, 0, 0, 0, 0, 0, 0]⟩)],
    .unreach 0x80 .v6u [(9, ⟨true, 0, [0, 0, 0, 0, 0, 0, 0, 0, 0, 0, 0, 0, 0, 0, 0, 0]⟩)]]
  ann := [(0, ⟨false, 24, [192, 0, 2, 0]⟩)]

private theorem exRx11 : exCfg.rx (1, 1) = false := by decide
private theorem exRx21 : exCfg.rx (famCode .v6u) = true := by decide

/-- ... it is well-formed -/
example : WfContent exCfg exContent := by
  refine ⟨?_, ?_, ?_, ?_⟩
  · rw [exRx11]; simp only [NlrisWf, Bool.false_eq_true, ↓reduceIte]; decide
  · rw [exRx11]; simp only [NlrisWf, Bool.false_eq_true, ↓reduceIte]; decide
  · intro a ha
    simp only [exContent, List.mem_cons, List.not_mem_nil, or_false] at ha
    rcases ha with rfl | rfl | rfl | rfl | rfl | rfl | rfl
    · exact ⟨⟨by decide, by decide⟩, by decide⟩
    · exact ⟨⟨by decide, by decide⟩, by decide⟩
    · exact ⟨⟨by decide, by decide⟩, by decide⟩
    · exact ⟨⟨by decide, by decide⟩, by decide⟩
    · exact ⟨⟨by decide, by decide, by decide⟩, by decide⟩
    · refine ⟨⟨?_, by decide, by decide⟩, by decide⟩
      rw [exRx21]; simp only [NlrisWf, ↓reduceIte]; decide
    · refine ⟨?_, by decide⟩
      show NlrisWf .v6u (exCfg.rx (famCode .v6u)) _
      rw [exRx21]; simp only [NlrisWf, ↓reduceIte]; decide
  · intro a ha b hb hc h
    simp only [exContent, List.mem_cons, List.not_mem_nil, or_false] at ha hb
    rcases ha with rfl | rfl | rfl | rfl | rfl | rfl | rfl <;>
      rcases hb with rfl | rfl | rfl | rfl | rfl | rfl | rfl <;>
      first | rfl | (exfalso; revert hc h; decide)

/-- ... its encoding is 146 octets -/
example : (encUpdateT exCfg exContent).toOption.map List.length = some 146 := by decide +kernel

/-- ... and some of what `expected` says about it: AS_PATH octets and hops, the
aggregator, the four `afi_safis` slots, `find_next_hop`, `all_communities` -/
example : (expected exCfg exContent).aspath =
    .ok (some ([2, 2, 0, 0, 0xfd, 0xe8, 0, 1, 0x11, 0x70, 1, 2, 0, 0, 0, 1, 0, 0, 0, 2],
      [.asn 65000, .asn 70000, .seg ⟨1, true, [1, 2]⟩])) := by decide
example : (expected exCfg exContent).aggregator = .ok (some (70000, [0xc0, 0, 2, 1])) := by decide
example : (expected exCfg exContent).afiSafis =
    .ok (some (.known .v4u false), some (.known .v4u false), some (.known .v6u true), some (.known .v6u true)) := by
  decide
example : (expected exCfg exContent).findNextHop (2, 1) =
    .ok (.ll (List.replicate 16 1) (List.replicate 16 1)) := by decide
example : (expected exCfg exContent).findNextHop (1, 1) = .err := by decide
example : (expected exCfg exContent).allCommunities = .ok (some [[0xfd, 0xe8, 0, 1], [0xff, 0xff, 0xff, 1]]) := by
  decide
example : (expected exCfg exContent).isEor = .ok none := by decide

/-- MP attributes of an UNSUPPORTED (AFI, SAFI) (1 / 5) in a two-octet session that
was configured with ADD-PATH for that very pair: ORIGIN, an MP_REACH_NLRI with a
three-octet next-hop field, reserved octet 0x7f and two opaque octets, an
MP_UNREACH_NLRI with one opaque octet; and the bare End-of-RIB shape of that pair -/
def exCfgU : Cfg := ⟨false, [((1, 5), .both)]⟩
def exContentU : TContent where
  wd := []
  attrs := [.typed 0x40 (.origin 2), .reachU 0x80 (1, 5) [1, 2, 3] 0x7f [0xde, 0xad], .unreachU 0x90 (1, 5) [0x18]]
  ann := [(0, ⟨false, 24, [192, 0, 2, 0]⟩)]
def exEorU : TContent := ⟨[], [.unreachU 0x80 (1, 5) []], []⟩

private theorem wfU (c : TContent) (hwd : c.wd = []) (hann : ∀ x ∈ c.ann, (codec .v4u).wf x.2 = true)
    (hat : ∀ a ∈ c.attrs, WfAttrC exCfgU a)
    (hu : ∀ a ∈ c.attrs, ∀ b ∈ c.attrs, a.code = b.code → (a.code = 14 ∨ a.code = 15) → a = b) :
    WfContent exCfgU c := by
  have hrx : exCfgU.rx (1, 1) = false := by decide
  refine ⟨?_, ?_, hat, hu⟩
  · rw [hrx, hwd]; simp [NlrisWf]
  · rw [hrx]; simpa [NlrisWf] using hann

example : WfContent exCfgU exContentU := by
  refine wfU _ rfl (by decide) ?_ ?_
  · intro a ha
    simp only [exContentU, List.mem_cons, List.not_mem_nil, or_false] at ha
    rcases ha with rfl | rfl | rfl
    · exact ⟨⟨by decide, by decide⟩, by decide⟩
    · exact ⟨⟨by decide, by decide, by decide, by decide⟩, by decide⟩
    · exact ⟨⟨by decide, by decide, by decide⟩, by decide⟩
  · intro a ha b hb hc h
    simp only [exContentU, List.mem_cons, List.not_mem_nil, or_false] at ha hb
    rcases ha with rfl | rfl | rfl <;> rcases hb with rfl | rfl | rfl <;>
      first | rfl | (exfalso; revert hc h; decide)

/-- the hypotheses of `unsupported_reach_reported` / `unsupported_unreach_reported` / `reserved_octet_ignored` hold
of `exContentU`: its first attribute 14 / 15 are the unsupported forms, and the content with the reserved octet
0x7f replaced by 0 is well-formed too (and a different content) -/
example : exContentU.find 14 = some (.reachU 0x80 (1, 5) [1, 2, 3] 0x7f [0xde, 0xad]) := by rfl
example : exContentU.find 15 = some (.unreachU 0x90 (1, 5) [0x18]) := by rfl
example : (setRsv 0 exContentU).attrs =
    [.typed 0x40 (.origin 2), .reachU 0x80 (1, 5) [1, 2, 3] 0 [0xde, 0xad], .unreachU 0x90 (1, 5) [0x18]] := by rfl
example : WfContent exCfgU (setRsv 0 exContentU) := by
  refine wfU _ rfl (by decide) ?_ ?_
  · intro a ha
    simp only [setRsv, setRsvA, exContentU, List.map_cons, List.map_nil, List.mem_cons, List.not_mem_nil, or_false] at ha
    rcases ha with rfl | rfl | rfl
    · exact ⟨⟨by decide, by decide⟩, by decide⟩
    · exact ⟨⟨by decide, by decide, by decide, by decide⟩, by decide⟩
    · exact ⟨⟨by decide, by decide, by decide⟩, by decide⟩
  · intro a ha b hb hc h
    simp only [setRsv, setRsvA, exContentU, List.map_cons, List.map_nil, List.mem_cons, List.not_mem_nil, or_false] at ha hb
    rcases ha with rfl | rfl | rfl <;> rcases hb with rfl | rfl | rfl <;>
      first | rfl | (exfalso; revert hc h; decide)

example : WfContent exCfgU exEorU := by
  refine wfU _ rfl (by decide) ?_ ?_
  · intro a ha
    simp only [exEorU, List.mem_cons, List.not_mem_nil, or_false] at ha
    subst ha
    exact ⟨⟨by decide, by decide, by decide⟩, by decide⟩
  · intro a ha b hb _ _
    simp only [exEorU, List.mem_cons, List.not_mem_nil, or_false] at ha hb
    rw [ha, hb]

/-- ... what `expected` says about them (and, by `decode_encode`, the decoder of
their encodings): no NLRI item, no next hop, the conventional next hop is none
either, not an End-of-RIB – and the bare MP_UNREACH_NLRI is the End-of-RIB of
(1, 5), of no other family -/
example : (expected exCfgU exContentU).mpAnn = .ok (some (.unsupported 1 5, ([], true))) := by rfl
example : (expected exCfgU exContentU).mpWd = .ok (some (.unsupported 1 5, ([], true))) := by rfl
example : (expected exCfgU exContentU).mpNextHop = .err := by decide
example : (expected exCfgU exContentU).isEor = .ok none := by decide
example : (expected exCfgU exContentU).owned =
    [.ok (.typed (.origin 2)), .ok (.unimplemented 0x80 14 [0, 1, 5, 3, 1, 2, 3, 0x7f, 0xde, 0xad]),
     .ok (.unimplemented 0x90 15 [0, 1, 5, 0x18])] := by decide
example : (expected exCfgU exEorU).isEor = .ok (some (1, 5)) := by decide
/-- ... and the decoder model run on the encoding (a closed term, kernel-evaluated):
type of `mp_announcements()`, number of its items, "ended"; `mp_next_hop()` is an
error; `is_eor()`; `length()` -/
def exObsU : Option ((Option (NlriTy × Nat) × Bool) × (Outcome (Option (Nat × Nat)) × Nat)) :=
  match encUpdateT exCfgU exContentU with
  | .ok bs =>
    match decObserve exCfgU bs with
    | .ok o =>
      match o.mpAnn, o.mpNextHop with
      | .ok x, .err => some ((x.map fun p => (p.1, p.2.1.length), (x.map (·.2.2)).getD false), (o.isEor, o.length))
      | _, _ => none
    | _ => none
  | _ => none
example : exObsU = some ((some (.unsupported 1 5, 0), true), (.ok none, 52)) := by decide +kernel

/-- the same AS path on a two-octet session must fit two octets: AS 70000 does not -/
example : ¬ AttrC.kindOk ⟨false, []⟩ (.typed 0x40 (.asPath [.asn 70000])) := by
  intro h; exact absurd (h.2 rfl) (by decide)
example : AttrC.kindOk ⟨false, []⟩ (.typed 0x40 (.asPath [.asn 65000, .seg ⟨1, true, [1, 2]⟩])) :=
  ⟨by decide, fun _ => by decide⟩

end Rc.Thm.C01
