/-
rcdriver: the model side of the line protocol.  `rcdriver Cxx < ops.txt`
answers each request line from the Lean model of property Cxx.
Imports model files only (no Mathlib, no theorem files) so that it links.
-/
import Rc.Drv.C10
import Rc.Drv.C11
import Rc.Drv.C15
import Rc.Drv.C17
import Rc.Drv.C19
import Rc.Drv.C13
import Rc.Drv.C04
import Rc.Drv.C03
import Rc.Drv.C12
import Rc.Drv.C06
import Rc.Drv.C05
import Rc.Drv.C14
import Rc.Drv.C08
import Rc.Drv.C16
import Rc.Drv.C09
import Rc.Drv.C20
import Rc.Drv.C07
import Rc.Drv.C01
import Rc.Drv.C02
import Rc.Drv.C18

def dispatch (prop : String) : Option (List String → String) :=
  match prop with
  | "C10" => some Rc.Drv.C10.handle
  | "C11" => some Rc.Drv.C11.handle
  | "C15" => some Rc.Drv.C15.handle
  | "C17" => some Rc.Drv.C17.handle
  | "C19" => some Rc.Drv.C19.handle
  | "C13" => some Rc.Drv.C13.handle
  | "C04" => some Rc.Drv.C04.handle
  | "C03" => some Rc.Drv.C03.handle
  | "C12" => some Rc.Drv.C12.handle
  | "C06" => some Rc.Drv.C06.handle
  | "C05" => some Rc.Drv.C05.handle
  | "C14" => some Rc.Drv.C14.handle
  | "C08" => some Rc.Drv.C08.handle
  | "C16" => some Rc.Drv.C16.handle
  | "C09" => some Rc.Drv.C09.handle
  | "C20" => some Rc.Drv.C20.handle
  | "C07" => some Rc.Drv.C07.handle
  | "C01" => some Rc.Drv.C01.handle
  | "C02" => some Rc.Drv.C02.handle
  | "C18" => some Rc.Drv.C18.handle
  | _ => none

partial def loop (h : IO.FS.Stream) (out : IO.FS.Stream) (f : List String → String) : IO Unit := do
  let line ← h.getLine
  if line.isEmpty then return ()
  let l := line.trimAscii.toString
  if l.isEmpty || l.startsWith "#" then
    loop h out f
  else
    out.putStrLn (f (l.splitOn " "))
    loop h out f

def main (args : List String) : IO UInt32 := do
  match args with
  | [p] =>
    match dispatch p with
    | some f =>
      let out ← IO.getStdout
      loop (← IO.getStdin) out f
      out.flush
      return 0
    | none => IO.eprintln s!"unknown property {p}"; return 2
  | _ => IO.eprintln "usage: rcdriver Cxx < ops"; return 2
