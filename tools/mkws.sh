#!/bin/sh
# tools/mkws.sh <name>: isolated workspace for developing one property:
#   /work/<name>/verif  – copy of /verif (with build caches)
#   /work/<name>/repo   – git worktree of /repo HEAD (detached)
# Everything in the copy that points at /repo is redirected to the worktree.
set -e
N="$1"
W=/work/$N
mkdir -p /work
rm -rf "$W/verif"
if [ -d "$W/repo" ]; then git -C /repo worktree remove --force "$W/repo" || rm -rf "$W/repo"; fi
mkdir -p "$W"
git -C /repo worktree add --detach "$W/repo" HEAD >/dev/null 2>&1
cp -a /verif "$W/verif"
rm -rf "$W/verif/.git"
cd "$W/verif"
sed -i "s#path = \"/repo\"#path = \"$W/repo\"#" harness/Cargo.toml
sed -i "s#^REPO = \"/repo\"#REPO = \"$W/repo\"#" check
sed -i "s#\"/repo\"#\"$W/repo\"#g" tools/propconf.py
sed -i "s# /repo # $W/repo #g" setup.sh
echo "$W"
