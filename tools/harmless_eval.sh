#!/bin/bash
# tools/harmless_eval.sh <ws> <Cxx:hN> ...: in an isolated workspace (<ws> = a name under /work made by tools/mkws.sh, or
# an absolute directory made by tools/mksubws.sh), apply each behaviour-preserving change seeded-harmless/Cxx/hN.diff
# to the workspace's repository, run the two baseline suites and then the quick checks, print one summary line per
# patch (+ one line per check that did not exit 0), revert.
#   HE_SELECT=1 : run only the checks tools/harmless_select.py names for the diff (own property, properties that
#                 alarmed for it in an earlier run, properties anchored in a file it touches); default: all 20.
#   HE_PROPS="Cxx .." : run exactly these checks.
#   HE_OUT=dir  : where the replay files and the full output of every run are kept (default /tmp/seed/heval).
#   HE_NOTESTS=1: skip the two baseline suites (re-runs after an oracle repair).
WS=$1; shift
case "$WS" in /*) W=$WS;; *) W=/work/$WS;; esac
HERE="$(cd "$(dirname "$0")/.." && pwd)"
OUT=${HE_OUT:-/tmp/seed/heval}
export CARGO_NET_OFFLINE=true
for item in "$@"; do
  id=${item%%:*}; h=${item##*:}
  p=$HERE/seeded-harmless/$id/$h.diff
  [ -f "$p" ] || p=/tmp/seed/outh-$id/$h.diff
  [ -f "$p" ] || { echo "$item: no patch"; continue; }
  git -C $W/repo checkout -- . ; git -C $W/repo clean -fdq -e target
  if ! git -C $W/repo apply "$p" 2>/dev/null; then echo "$item: PATCH DOES NOT APPLY"; continue; fi
  if [ -z "$HE_NOTESTS" ]; then
    t1=$(cd $W/repo && cargo test --workspace --no-fail-fast --offline 2>&1 | grep -E "^test result|^error" | head -1 | cut -c1-60)
    t2=$(cd $W/repo && cargo test --offline --features "bmp fsm mrt serde" 2>&1 | grep -E "^test result|^error" | head -1 | cut -c1-60)
  else
    t1=skipped; t2=skipped
  fi
  rm -rf $W/verif/replay $OUT/$item/checks
  if [ -n "$HE_SELECT$HE_PROPS" ]; then
    sel=${HE_PROPS:-$(python3 $HERE/tools/harmless_select.py $id $h)}
    res=$(cd $W/verif && RUN_ALL_LOG=$OUT/$item/checks tools/run_all.sh quick $sel 2>&1)
    note=" checks: $sel"
  else
    res=$(cd $W/verif && RUN_ALL_LOG=$OUT/$item/checks tools/run_all.sh quick 2>&1)
    note=""
  fi
  bad=$(echo "$res" | grep -v "rc=0" | cut -c1-220)
  echo "== $item tests: [$t1] [$t2] alarms: $(echo "$res" | grep -vc 'rc=0')$note"
  [ -n "$bad" ] && echo "$bad"
  mkdir -p $OUT/$item; rm -rf $OUT/$item/replay; cp -r $W/verif/replay $OUT/$item/ 2>/dev/null
  echo "$res" > $OUT/$item/run_all.txt
done
git -C $W/repo checkout -- . ; git -C $W/repo clean -fdq -e target
