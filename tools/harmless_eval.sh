#!/bin/bash
# tools/harmless_eval.sh <ws> <Cxx:hN> ...: in the isolated workspace /work/<ws> (tools/mkws.sh), apply each
# behaviour-preserving change /tmp/seed/outh-Cxx/hN.diff to the workspace's repo worktree, run the two baseline
# suites and then EVERY quick check, print one summary line per patch, revert.
WS=$1; shift
W=/work/$WS
export CARGO_NET_OFFLINE=true
for item in "$@"; do
  id=${item%%:*}; h=${item##*:}
  p=/tmp/seed/outh-$id/$h.diff
  [ -f "$p" ] || { echo "$item: no patch"; continue; }
  git -C $W/repo checkout -- . ; git -C $W/repo clean -fdq -e target
  if ! git -C $W/repo apply "$p" 2>/dev/null; then echo "$item: PATCH DOES NOT APPLY"; continue; fi
  t1=$(cd $W/repo && cargo test --workspace --no-fail-fast --offline 2>&1 | grep -E "^test result|^error" | head -1 | cut -c1-60)
  t2=$(cd $W/repo && cargo test --offline --features "bmp fsm mrt serde" 2>&1 | grep -E "^test result|^error" | head -1 | cut -c1-60)
  res=$(cd $W/verif && tools/run_all.sh quick 2>&1)
  bad=$(echo "$res" | grep -v "rc=0" | cut -c1-220)
  echo "== $item tests: [$t1] [$t2] alarms: $(echo "$res" | grep -vc 'rc=0')"
  [ -n "$bad" ] && echo "$bad"
  mkdir -p /tmp/seed/heval/$item; cp -r $W/verif/replay /tmp/seed/heval/$item/ 2>/dev/null
  echo "$res" > /tmp/seed/heval/$item/run_all.txt
done
git -C $W/repo checkout -- .
