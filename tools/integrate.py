#!/usr/bin/env python3
"""tools/integrate.py <workspace name> <Cxx> [<Cxx>...]: bring a worker's deliverables from
/work/<name>/verif into /verif (files only; fix patches are listed, not applied)."""
import filecmp, os, re, shutil, subprocess, sys
name, pids = sys.argv[1], sys.argv[2:]
W = "/work/%s/verif" % name
V = os.path.dirname(os.path.dirname(os.path.abspath(__file__)))
copied = []
for sub in ["lean/Rc/Model", "lean/Rc/Lemmas", "lean/Rc/Thm", "lean/Rc/Drv", "lean/Rc/Gen", "harness/src/props", "corpus", "tools"]:
    d = os.path.join(W, sub)
    if not os.path.isdir(d):
        continue
    for f in sorted(os.listdir(d)):
        src, dst = os.path.join(d, f), os.path.join(V, sub, f)
        if not os.path.isfile(src):
            continue
        if sub == "tools" and f in ("propconf.py", "manifest_text.py", "gen_manifest.py", "WORKFLOW.md", "mkws.sh", "hook_commits.json", "integrate.py", "export_props.py"):
            continue
        if f in ("mod.rs",) or (sub == "lean/Rc/Gen" and f == "Codepoints.lean"):
            continue
        if os.path.exists(dst) and filecmp.cmp(src, dst, shallow=False):
            continue
        if os.path.exists(dst):
            print("!! differs from existing, NOT copied:", os.path.join(sub, f))
            continue
        os.makedirs(os.path.dirname(dst), exist_ok=True)
        shutil.copy2(src, dst)
        copied.append(os.path.join(sub, f))
print("copied:", *copied, sep="\n  ")
# dispatch lines
p = os.path.join(V, "lean/Driver.lean"); s = open(p).read()
for c in pids:
    if "Rc.Drv.%s" % c not in s:
        s = s.replace("import Rc.Drv.C18", "import Rc.Drv.%s\nimport Rc.Drv.C18" % c).replace('  | "C18" =>', '  | "%s" => some Rc.Drv.%s.handle\n  | "C18" =>' % (c, c))
open(p, "w").write(s)
p = os.path.join(V, "harness/src/props/mod.rs"); s = open(p).read()
for c in pids:
    lc = c.lower()
    if "pub mod %s;" % lc not in s:
        s = s.replace("pub mod c18;", "pub mod %s;\npub mod c18;" % lc).replace('        "C18" =>', '        "%s" => Some(&%s::%s),\n        "C18" =>' % (c, lc, c))
open(p, "w").write(s)
# other differences in shared files
for f in ["lean/Rc/Base.lean", "harness/src/common.rs", "harness/src/main.rs", "check", "harness/Cargo.toml", "lean/lakefile.toml"]:
    a, b = os.path.join(W, f), os.path.join(V, f)
    if os.path.exists(a) and not filecmp.cmp(a, b, shallow=False):
        print("!! shared file differs in workspace:", f)
subprocess.run([sys.executable, os.path.join(V, "tools/export_props.py"), W] + pids, check=True)
kf = os.path.join(W, "known_findings.jsonl")
have = open(os.path.join(V, "known_findings.jsonl")).read()
with open(os.path.join(V, "known_findings.jsonl"), "a") as out:
    for line in open(kf):
        if any('"property":"%s"' % c in line.replace(" ", "") for c in pids) and line not in have:
            out.write(line if line.endswith("\n") else line + "\n")
            print("known_findings +", line[:140].strip())
fx = os.path.join(W, "fixes")
if os.path.isdir(fx):
    print("patches:", *sorted(os.listdir(fx)), sep="\n  ")
