#!/usr/bin/env python3
"""Translator: routecore's code-point tables -> Lean (Rc/Gen/Codepoints.lean).

Parses, from the *current* /repo sources,
  * every `typeenum!(Name, uN, {..}[, {..}])` invocation,
  * the `afisafi! { .. }` invocation,
  * the `path_attributes!( .. )` invocation (type codes and names),
  * the hand-written match tables that must agree with them:
    Header::msg_type, AddpathDirection <-> u8, SegmentType <-> u8,
    NotificationMessage::details and Details::raw,
and emits them as plain Lean data.  Rc/Thm/C18.lean proves the property about
whatever is emitted, so the theorems are re-checked against what the source
says now.  It also fingerprints the body of the `typeenum!` and the relevant
parts of `afisafi!` macro definitions (whitespace-normalised) so that a change
of the macro's semantics, which the generic Lean semantics could not see, is
reported as a broken tie.

usage: gen_codepoints.py <repo>|@check <out.lean>|- [<fingerprints.json>] [--attr-flags <out.lean>] [--constants <out.lean>]
   @check = the REPO of the ./check script of this tree (workspaces rewrite it); `-` = do not write the code-point tables
   --attr-flags  Rc/Gen/AttrFlags.lean: the (type code, FLAGS) column of the `path_attributes!` invocation with
                 the `impl Flags` constants resolved, and TYPE_CODE / FLAGS of the two MP builders (C04, C07, C17)
   --constants   Rc/Gen/Constants.lean: literal constants that models copy (UpdateBuilder::MAX_PDU, the batch
                 threshold of take_message, the COFF offsets, AS_TRANS, the bounds of read_message / parse_frame)
exit 0 ok; exit 4 = could not translate (message on stderr): a pattern that is not found is an error, never a kept value.
"""
import hashlib
import json
import os
import re
import sys


class Untranslatable(Exception):
    pass


def strip_comments(src: str) -> str:
    # remove /* */ and // comments, keeping string literals intact enough for our tables
    out = []
    i = 0
    n = len(src)
    while i < n:
        c = src[i]
        if src.startswith("//", i):
            j = src.find("\n", i)
            if j < 0:
                j = n
            i = j
        elif src.startswith("/*", i):
            j = src.find("*/", i + 2)
            i = n if j < 0 else j + 2
        elif c == '"':
            j = i + 1
            while j < n and src[j] != '"':
                if src[j] == "\\":
                    j += 1
                j += 1
            out.append(src[i:j + 1])
            i = j + 1
        elif c == "'":
            # a char literal ('"', '\'', '\\', '\u{..}', 'x') is copied whole - its content opens neither a string nor
            # a comment; a lifetime / loop label ('a) is just the quote
            if i + 1 < n and src[i + 1] == "\\":
                j = src.find("'", i + 3)
                j = n - 1 if j < 0 else j
                out.append(src[i:j + 1])
                i = j + 1
            elif i + 2 < n and src[i + 2] == "'":
                out.append(src[i:i + 3])
                i += 3
            else:
                out.append(c)
                i += 1
        else:
            out.append(c)
            i += 1
    return "".join(out)


def balanced(src: str, start: int, open_c: str, close_c: str) -> int:
    """src[start] == open_c; return index just after the matching close."""
    assert src[start] == open_c
    depth = 0
    i = start
    while i < len(src):
        if src[i] == open_c:
            depth += 1
        elif src[i] == close_c:
            depth -= 1
            if depth == 0:
                return i + 1
        i += 1
    raise Untranslatable("unbalanced %s at %d" % (open_c, start))


def parse_int(tok: str) -> int:
    tok = tok.strip().replace("_u16", "").replace("_u8", "").replace("_", "")
    if tok.startswith("0x"):
        return int(tok, 16)
    return int(tok)


def parse_typeenum(body: str, where: str):
    # body = text between the outer parens of typeenum!( ... )
    body = re.sub(r"#\[[^\]]*\]", "", body)  # attributes
    m = re.match(r"\s*([A-Za-z_][A-Za-z0-9_]*)\s*,\s*(u8|u16|u32)\s*,", body)
    if not m:
        raise Untranslatable("typeenum header not understood in %s: %r" % (where, body[:60]))
    name, ty = m.group(1), m.group(2)
    rest = body[m.end():]
    blocks = []
    i = 0
    while True:
        j = rest.find("{", i)
        if j < 0:
            break
        k = balanced(rest, j, "{", "}")
        blocks.append(rest[j + 1:k - 1])
        i = k
    if not blocks or len(blocks) > 2:
        raise Untranslatable("typeenum %s: %d blocks" % (name, len(blocks)))
    width = {"u8": 8, "u16": 16, "u32": 32}[ty]
    top = (1 << width) - 1
    named = []
    for arm in blocks[0].split(","):
        arm = arm.strip()
        if not arm:
            continue
        m = re.fullmatch(r"(\S+)\s*=>\s*([A-Za-z_][A-Za-z0-9_]*)", arm)
        if not m:
            raise Untranslatable("typeenum %s: arm %r" % (name, arm))
        named.append((parse_int(m.group(1)), m.group(2)))
    ranges = []
    if len(blocks) == 2:
        for arm in blocks[1].split(","):
            arm = arm.strip()
            if not arm:
                continue
            m = re.fullmatch(r"(\S+?)\s*=>\s*([A-Za-z_][A-Za-z0-9_]*)", arm)
            if not m:
                raise Untranslatable("typeenum %s: range arm %r" % (name, arm))
            pat, v = m.group(1), m.group(2)
            if "..=" in pat:
                lo, hi = pat.split("..=")
                ranges.append((parse_int(lo), parse_int(hi), v))
            elif pat.endswith(".."):
                ranges.append((parse_int(pat[:-2]), top, v))
            elif ".." in pat:
                lo, hi = pat.split("..")
                ranges.append((parse_int(lo), parse_int(hi) - 1, v))
            else:
                ranges.append((parse_int(pat), parse_int(pat), v))
    return {"name": name, "width": width, "named": named, "ranges": ranges}


def find_invocations(src: str, macro: str):
    res = []
    for m in re.finditer(r"(?<![A-Za-z0-9_])%s!\s*([({])" % re.escape(macro), src):
        o = m.group(1)
        c = ")" if o == "(" else "}"
        start = m.end() - 1
        end = balanced(src, start, o, c)
        res.append((m.start(), src[start + 1:end - 1]))
    return res


def fn_body(src: str, sig_regex: str, where: str) -> str:
    m = re.search(sig_regex, src, re.S)
    if not m:
        raise Untranslatable("function %s not found in %s" % (sig_regex, where))
    j = src.find("{", m.end() - 1)
    k = balanced(src, j, "{", "}")
    return src[j + 1:k - 1]


def enum_variants(src: str, name: str, where: str):
    m = re.search(r"pub enum %s\s*\{" % name, src)
    if not m:
        raise Untranslatable("enum %s not found in %s" % (name, where))
    k = balanced(src, m.end() - 1, "{", "}")
    body = src[m.end():k - 1]
    body = re.sub(r"#\[[^\]]*\]", "", body)
    out = []
    depth = 0
    cur = ""
    for ch in body:
        if ch in "({":
            depth += 1
        elif ch in ")}":
            depth -= 1
        if ch == "," and depth == 0:
            out.append(cur.strip())
            cur = ""
        else:
            cur += ch
    if cur.strip():
        out.append(cur.strip())
    return [re.match(r"[A-Za-z_][A-Za-z0-9_]*", v).group(0) for v in out if v]


def norm(s: str) -> str:
    return re.sub(r"\s+", " ", s).strip()


def lean_str(s):
    return '"' + s.replace("\\", "\\\\").replace('"', '\\"') + '"'


def lean_list(items):
    return "[" + ", ".join(items) + "]"


def one(rx, src, what, flags=0):
    """the single match of rx in src (anything else is untranslatable)"""
    ms = list(re.finditer(rx, src, flags))
    if len(ms) != 1:
        raise Untranslatable("%s: expected exactly one match of %r, found %d" % (what, rx, len(ms)))
    return ms[0]


def int_expr(txt, what):
    """a literal or a sum of literals (`6 + 42`)"""
    parts = [p.strip() for p in txt.split("+")]
    if not parts or not all(re.fullmatch(r"(0x[0-9a-fA-F_]+|0b[01_]+|[0-9_]+)(usize|u8|u16|u32)?", p) for p in parts):
        raise Untranslatable("%s: not a sum of integer literals: %r" % (what, txt))
    def lit(p):
        p = re.sub(r"(usize|u8|u16|u32)$", "", p).replace("_", "")
        return int(p, 2) if p.startswith("0b") else int(p, 16) if p.startswith("0x") else int(p)
    return sum(lit(p) for p in parts)


NUM = r"[0-9_]+|(?:Self::)?[A-Z][A-Z0-9_]*"     # a literal, or a named constant of the same file


def const_expr(txt, what, src, depth=0):
    """int_expr that also follows named constants (`MAX_MSG_LEN`, `Self::MAX_PDU - Self::MIN_PDU - 4`) to their
    definition `const NAME: T = <expr>;` in the same file: giving a literal a name does not change it"""
    if depth > 8:
        raise Untranslatable("%s: constant definitions nest too deeply: %r" % (what, txt))
    total, sign = 0, 1
    toks = re.findall(r"[+-]|[^+\-]+", txt)
    if not toks:
        raise Untranslatable("%s: empty constant expression" % what)
    for t in toks:
        t = t.strip()
        if t == "+":
            sign = 1
        elif t == "-":
            sign = -1
        elif re.fullmatch(r"(?:Self::)?[A-Z][A-Z0-9_]*", t):
            name = t.split("::")[-1]
            d = one(r"\bconst %s\s*:\s*\w+\s*=\s*([^;]+);" % name, src, "%s: definition of %s" % (what, name))
            total += sign * const_expr(d.group(1), what, src, depth + 1)
        else:
            total += sign * int_expr(t, what)
    if total < 0:
        raise Untranslatable("%s: negative constant %r" % (what, txt))
    return total


def write_if_changed(out, txt):
    old = open(out).read() if os.path.exists(out) else None
    if old != txt:
        os.makedirs(os.path.dirname(out), exist_ok=True)
        open(out, "w").write(txt)


def flags_expr(txt, what, consts, column):
    """value of an expression of the macro body over the row's `$flags` column (`column` = its value), `Flags::`
    constants and integer literals joined by `|` (a trailing `.into()` is a conversion, not a change of value).
    None: the expression is the local `flags` (the flags octet as received).  Anything else is untranslatable."""
    t = norm(txt)
    t = re.sub(r"\.\s*into\s*\(\s*\)$", "", t).strip()
    if t.startswith("(") and t.endswith(")") and balanced(t, 0, "(", ")") == len(t):
        t = t[1:-1].strip()
    if t == "flags":
        return None
    total = 0
    for atom in t.split("|"):
        atom = atom.strip()
        if atom == "$flags":
            total |= column
        elif re.fullmatch(r"Flags::[A-Z_]+", atom) and atom[7:] in consts:
            total |= consts[atom[7:]]
        else:
            total |= int_expr(atom, what)
    return total


def gen_attr_flags(repo, out):
    """the FLAGS column of path_attributes!( code => Name(Type), Flags::X, ... ) and what the macro DEFINITION and
    `impl Flags` make of it: the `const FLAGS` / `const TYPE_CODE` expressions of `impl AttributeHeader for $data`,
    the flags argument of the `WireformatPathAttribute::Invalid(..)` built for a typed kind that does not validate,
    the `default_flags` arm, and the mask tests of `Flags::is_*` - translated (evaluated per row), not fingerprinted:
    re-formatting and comments change nothing, a change of meaning changes the emitted numbers"""
    psrc = strip_comments(open(os.path.join(repo, "src/bgp/path_attributes.rs"), encoding="utf-8").read())
    m = one(r"impl Flags \{", psrc, "impl Flags")
    body = psrc[m.end():balanced(psrc, m.end() - 1, "{", "}") - 1]
    consts = {}
    for cm in re.finditer(r"const\s+([A-Z_]+)\s*:\s*u8\s*=\s*([^;]+);", body):
        consts[cm.group(1)] = int_expr(cm.group(2), "Flags::" + cm.group(1))
    for need in ("WELLKNOWN", "OPT_NON_TRANS", "OPT_TRANS", "EXTENDED_LEN", "PARTIAL"):
        if need not in consts:
            raise Untranslatable("impl Flags: constant %s not found" % need)
    # Flags::is_optional / is_transitive / is_partial / is_extended_length: `self.0 & <mask> == <value>`
    tests = {}
    for fn in ("is_optional", "is_transitive", "is_partial", "is_extended_length"):
        fm = one(r"pub\s+fn\s+%s\s*\(\s*self\s*\)\s*->\s*bool\s*\{\s*\(?\s*self\s*\.\s*0\s*&\s*([0-9a-fA-Fxb_]+)\s*\)?\s*==\s*([0-9a-fA-Fxb_]+)\s*\}" % fn,
                 body, "Flags::%s (expected `self.0 & <mask> == <value>`)" % fn)
        tests[fn] = (int_expr(fm.group(1), fn), int_expr(fm.group(2), fn))
    # the macro definition
    m = one(r"macro_rules!\s*path_attributes\s*\{", psrc, "macro_rules! path_attributes")
    mdef = psrc[m.end():balanced(psrc, m.end() - 1, "{", "}") - 1]
    hm = one(r"impl\s+AttributeHeader\s+for\s+\$data\s*\{", mdef, "path_attributes!: impl AttributeHeader for $data")
    hbody = mdef[hm.end():balanced(mdef, hm.end() - 1, "{", "}") - 1]
    flags_e = one(r"const\s+FLAGS\s*:\s*u8\s*=\s*([^;]+);", hbody, "path_attributes!: const FLAGS").group(1)
    code_e = one(r"const\s+TYPE_CODE\s*:\s*u8\s*=\s*([^;]+);", hbody, "path_attributes!: const TYPE_CODE").group(1)
    if norm(code_e) != "$type_code":
        raise Untranslatable("path_attributes!: const TYPE_CODE is %r, not the row's $type_code" % norm(code_e))
    im = [x for x in re.finditer(r"WireformatPathAttribute\s*::\s*Invalid\s*\(", mdef)]
    inv_args = []
    for x in im:
        args = mdef[x.end():balanced(mdef, x.end() - 1, "(", ")") - 1]
        parts = [norm(a) for a in args.split(",")]
        # the construction; the other occurrences are patterns (`Invalid(f, tc, p)`, `Invalid(_, _, pp)`)
        if len(parts) == 3 and parts[2] == "pp" and not re.fullmatch(r"_\w*", parts[0]) and not re.fullmatch(r"_\w*", parts[1]):
            inv_args.append(parts)
    if len(inv_args) != 1:
        raise Untranslatable("path_attributes!: expected one `WireformatPathAttribute::Invalid(<flags>, <code>, pp)` construction, found %d" % len(inv_args))
    if inv_args[0][1] != "$type_code":
        raise Untranslatable("path_attributes!: the Invalid attribute's type code is %r, not $type_code" % inv_args[0][1])
    dm = one(r"pub\s+fn\s+default_flags\s*\(\s*&self\s*\)\s*->\s*Flags\s*\{", mdef, "path_attributes!: default_flags")
    dbody = norm(mdef[dm.end():balanced(mdef, dm.end() - 1, "{", "}") - 1])
    if not re.search(r"PathAttribute::\$name\(\s*_?\w*\s*\) => <\$data>::FLAGS\.into\(\)", dbody):
        raise Untranslatable("path_attributes!: default_flags does not map PathAttribute::$name(..) to <$data>::FLAGS.into()")
    inv = [b for _, b in find_invocations(psrc, "path_attributes") if "$" not in b]
    if len(inv) != 1:
        raise Untranslatable("path_attributes!: %d invocations" % len(inv))
    rows = []
    # every row of the invocation must be understood: split at top-level commas in pairs
    depth, cur, items = 0, "", []
    for ch in inv[0]:
        if ch == "(":
            depth += 1
        elif ch == ")":
            depth -= 1
        if ch == "," and depth == 0:
            items.append(cur.strip()); cur = ""
        else:
            cur += ch
    if cur.strip():
        items.append(cur.strip())
    if len(items) % 2:
        raise Untranslatable("path_attributes!: odd number of comma-separated items (%d)" % len(items))
    for a, b in zip(items[0::2], items[1::2]):
        ma = re.fullmatch(r"(\d+)\s*=>\s*([A-Za-z0-9_]+)\s*\(.*\)", a, re.S)
        mb = re.fullmatch(r"Flags::([A-Z_]+)", b)
        if not ma or not mb or mb.group(1) not in consts:
            raise Untranslatable("path_attributes!: row not understood: %r , %r" % (a[:60], b[:60]))
        column = consts[mb.group(1)]
        # what `impl AttributeHeader for $data { const FLAGS: u8 = <expr>; }` makes of the column
        val = flags_expr(flags_e, "path_attributes!: const FLAGS", consts, column)
        if val is None:
            raise Untranslatable("path_attributes!: const FLAGS = flags")
        rows.append((int(ma.group(1)), ma.group(2), mb.group(1), val))
    if len(rows) < 2:
        raise Untranslatable("path_attributes!: no rows")
    inv_rows = [(c, flags_expr(inv_args[0][0], "path_attributes!: flags of the Invalid attribute", consts, consts[f])) for c, _, f, _ in rows]
    inv_from_wire = any(v is None for _, v in inv_rows)
    mp = []
    for name in ("MpReachNlriBuilder", "MpUnreachNlriBuilder"):
        m = one(r"impl<A> AttributeHeader for %s<A> \{" % name, psrc, "AttributeHeader for " + name)
        b = psrc[m.end():balanced(psrc, m.end() - 1, "{", "}") - 1]
        f = one(r"const FLAGS\s*:\s*u8\s*=\s*Flags::([A-Z_]+)\s*;", b, name + "::FLAGS").group(1)
        t = one(r"const TYPE_CODE\s*:\s*u8\s*=\s*(\d+)\s*;", b, name + "::TYPE_CODE").group(1)
        if f not in consts:
            raise Untranslatable("%s::FLAGS = Flags::%s unknown" % (name, f))
        mp.append((int(t), consts[f]))
    L = ["/- GENERATED by tools/gen_codepoints.py --attr-flags from src/bgp/path_attributes.rs on every run. Do not edit. -/",
         "namespace Rc.Gen", "",
         "/-- the constants of `impl Flags` -/",
         "def flagWellknown : Nat := %d" % consts["WELLKNOWN"],
         "def flagOptNonTrans : Nat := %d" % consts["OPT_NON_TRANS"],
         "def flagOptTrans : Nat := %d" % consts["OPT_TRANS"],
         "def flagExtendedLen : Nat := %d" % consts["EXTENDED_LEN"],
         "def flagPartial : Nat := %d" % consts["PARTIAL"], "",
         "/-- `Flags::is_optional` / `is_transitive` / `is_partial` / `is_extended_length`: (mask, value) of `self.0 & mask == value` -/",
         "def isOptionalTest : Nat × Nat := (%d, %d)" % tests["is_optional"],
         "def isTransitiveTest : Nat × Nat := (%d, %d)" % tests["is_transitive"],
         "def isPartialTest : Nat × Nat := (%d, %d)" % tests["is_partial"],
         "def isExtendedLenTest : Nat × Nat := (%d, %d)" % tests["is_extended_length"], "",
         "/-- `path_attributes!` rows in source order: (type code, `A::FLAGS`) - the macro's `const FLAGS: u8 = <expr>` of",
         "`impl AttributeHeader for $data` evaluated on the `Flags::` constant named in the row (as the source stands: the column itself) -/",
         "def attrFlags : List (Nat × Nat) := " + lean_list(["(%d, %d)" % (c, v) for c, _, _, v in rows]),
         "/-- the same rows: (type code, variant name, name of the constant) - for messages only -/",
         "def attrFlagNames : List (Nat × String × String) := " + lean_list(["(%d, %s, %s)" % (c, lean_str(n), lean_str(f)) for c, n, f, _ in rows]),
         "/-- the flags argument of the `WireformatPathAttribute::Invalid(<flags>, $type_code, pp)` the macro's parse arm builds for",
         "a typed kind whose `validate` fails, per row; `invalidArmFromWire` = it is the received `flags` octet instead -/",
         "def invalidArmFromWire : Bool := %s" % ("true" if inv_from_wire else "false"),
         "def invalidArmFlags : List (Nat × Nat) := " + lean_list(["(%d, %d)" % (c, v) for c, v in inv_rows if v is not None]),
         "/-- `AttributeHeader for MpReachNlriBuilder / MpUnreachNlriBuilder`: (TYPE_CODE, FLAGS) -/",
         "def mpAttrFlags : List (Nat × Nat) := " + lean_list(["(%d, %d)" % x for x in mp]), "",
         "/-- the table as a function of the type code (first row wins, as a `match` would) -/",
         "def attrFlagsOf (code : Nat) : Option Nat := (attrFlags.find? (fun r => r.1 == code)).map (·.2)", "",
         "end Rc.Gen", ""]
    write_if_changed(out, "\n".join(L))
    print("translated %d path_attributes! rows with flags" % len(rows))


def gen_constants(repo, out):
    def src(rel):
        return strip_comments(open(os.path.join(repo, "src", rel), encoding="utf-8").read())
    ub = src("bgp/message/update_builder.rs")
    max_pdu = const_expr(one(r"const MAX_PDU\s*:\s*usize\s*=\s*([^;]+);", ub, "UpdateBuilder::MAX_PDU").group(1), "MAX_PDU", ub)
    batch = const_expr(one(r"if compose_len > (%s) \{" % NUM, ub, "take_message batch threshold").group(1), "batch threshold", ub)
    bmp = src("bmp/message.rs")
    bmp_coff = int_expr(one(r"const COFF\s*:\s*usize\s*=\s*([^;]+);", bmp, "bmp COFF").group(1), "bmp COFF")
    op = src("bgp/message/open.rs")
    open_coff = int_expr(one(r"const COFF\s*:\s*usize\s*=\s*([^;]+);", op, "open.rs COFF").group(1), "open COFF")
    as_trans = int_expr(one(r"const AS_TRANS\s*:\s*u16\s*=\s*([^;]+);", op, "AS_TRANS").group(1), "AS_TRANS")
    nt = src("bgp/message/notification.rs")
    notif_coff = int_expr(one(r"const COFF\s*:\s*usize\s*=\s*([^;]+);", nt, "notification.rs COFF").group(1), "notif COFF")
    mm = src("bgp/message/mod.rs")
    rm = fn_body(mm, r"pub fn read_message<", "bgp/message/mod.rs")
    rm_sig = one(r"pub fn read_message<[^{]*?\[u8;\s*(%s)\]" % NUM, mm, "read_message buffer", re.S)
    rm_buf = const_expr(rm_sig.group(1), "read_message buffer", mm)
    rm_first = const_expr(one(r"read_exact\(&mut buf\[\.\.(%s)\]\)" % NUM, rm, "read_message first read").group(1), "first read", mm)
    rm_min = const_expr(one(r"if len < (%s) \{" % NUM, rm, "read_message lower bound").group(1), "lower bound", mm)
    rm_max = const_expr(one(r"if len > (%s) \{" % NUM, rm, "read_message upper bound").group(1), "upper bound", mm)
    ss = src("bgp/fsm/session.rs")
    pf = fn_body(ss, r"fn parse_frame\(&mut self\)", "bgp/fsm/session.rs")
    pf_min = const_expr(one(r"if len < (%s) \{" % NUM, pf, "parse_frame lower bound").group(1), "parse_frame lower bound", ss)
    pf_hdr = int_expr(one(r"buf\.remaining\(\) >= ([0-9_ +]+) \{", pf, "parse_frame header peek").group(1), "parse_frame header peek")
    pf_sub = const_expr(one(r"\(len as usize\) - (%s)\)" % NUM, pf, "parse_frame subtraction").group(1), "parse_frame subtraction", ss)
    pf_off = const_expr(one(r"buf\.set_position\((%s)\);\s*let len = buf\.get_u16\(\)" % NUM, pf, "parse_frame length offset").group(1), "parse_frame length offset", ss)
    m_off = one(r"u16::from_be_bytes\(\[buf\[(%s)\], buf\[(%s)\]\]\)" % (NUM, NUM), rm, "read_message length offset")
    rm_off = const_expr(m_off.group(1), "read_message length offset", mm)
    if const_expr(m_off.group(2), "read_message length offset + 1", mm) != rm_off + 1:
        raise Untranslatable("read_message: the two octets of the length field are not adjacent: %r" % m_off.group(0))
    # the three length guards are guards only while their block leaves the function with an error and while they stand
    # BEFORE the operation they protect (a body turned into a log line, or the test moved behind the slice / the
    # subtraction, keeps the literal but not its effect)
    def guard(rx, body, what, before_rx):
        m = one(rx, body, what)
        blk = body[m.end() - 1:balanced(body, m.end() - 1, "{", "}")]
        if not re.search(r"\breturn\s+Err\b", blk):
            raise Untranslatable("%s: the guarded block no longer returns an error: %r" % (what, " ".join(blk.split())[:120]))
        mb = one(before_rx, body, what + " (the operation it protects)")
        if mb.start() < m.start():
            raise Untranslatable("%s: the test stands after the operation it protects" % what)
    guard(r"if len < (%s) \{" % NUM, rm, "read_message lower bound", r"read_exact\(&mut buf\[(%s)\.\." % NUM)
    guard(r"if len > (%s) \{" % NUM, rm, "read_message upper bound", r"read_exact\(&mut buf\[(%s)\.\." % NUM)
    guard(r"if len < (%s) \{" % NUM, pf, "parse_frame lower bound", r"\(len as usize\) - (%s)\)" % NUM)
    vals = [("maxPdu", max_pdu, "`UpdateBuilder::MAX_PDU` (update_builder.rs)"),
            ("batchThreshold", batch, "`if compose_len > N` in `take_message` (update_builder.rs)"),
            ("bmpCoff", bmp_coff, "`const COFF` of bmp/message.rs (common header + per-peer header)"),
            ("openCoff", open_coff, "`const COFF` of open.rs"),
            ("notifCoff", notif_coff, "`const COFF` of notification.rs"),
            ("asTrans", as_trans, "`const AS_TRANS` of open.rs"),
            ("readMessageBuf", rm_buf, "the `[u8; N]` buffer of `read_message` (message/mod.rs)"),
            ("readMessageFirst", rm_first, "`read_exact(&mut buf[..N])`: octets read before the length is looked at"),
            ("readMessageMin", rm_min, "`if len < N` of `read_message`"),
            ("readMessageMax", rm_max, "`if len > N` of `read_message`"),
            ("parseFrameMin", pf_min, "`if len < N` of `Connection::parse_frame` (session.rs)"),
            ("parseFramePeek", pf_hdr, "`buf.remaining() >= N` of `parse_frame` (marker + length)"),
            ("parseFrameSub", pf_sub, "`(len as usize) - N` of `parse_frame`"),
            ("parseFrameLenOff", pf_off, "`buf.set_position(N); buf.get_u16()` of `parse_frame`: offset of the length field"),
            ("readMessageLenOff", rm_off, "`u16::from_be_bytes([buf[N], buf[N+1]])` of `read_message`: offset of the length field")]
    L = ["/- GENERATED by tools/gen_codepoints.py --constants from the current sources on every run. Do not edit. -/",
         "namespace Rc.Gen", ""]
    for n, v, doc in vals:
        L.append("/-- %s -/" % doc)
        L.append("def %s : Nat := %d" % (n, v))
    L += ["", "end Rc.Gen", ""]
    write_if_changed(out, "\n".join(L))
    print("translated %d constants" % len(vals))


def main():
    argv = list(sys.argv)
    extra = {}
    for opt in ("--attr-flags", "--constants"):
        if opt in argv:
            i = argv.index(opt)
            extra[opt] = argv[i + 1]
            del argv[i:i + 2]
    repo, out = argv[1], argv[2]
    if repo == "@check":
        here = os.path.dirname(os.path.dirname(os.path.abspath(__file__)))
        repo = re.search(r'^REPO = "([^"]+)"', open(os.path.join(here, "check")).read(), re.M).group(1)
    if "--attr-flags" in extra:
        gen_attr_flags(repo, extra["--attr-flags"])
    if "--constants" in extra:
        gen_constants(repo, extra["--constants"])
    if out == "-":
        return
    fp_out = argv[3] if len(argv) > 3 else None
    srcdir = os.path.join(repo, "src")
    tables = []
    files = {}
    for root, _, fs in os.walk(srcdir):
        for f in sorted(fs):
            if f.endswith(".rs"):
                p = os.path.join(root, f)
                rel = os.path.relpath(p, srcdir)
                files[rel] = strip_comments(open(p, encoding="utf-8").read())
    fingerprints = {}
    # --- macro definitions (fingerprint only) --------------------------------
    msrc = files["util/macros.rs"]
    m = re.search(r"macro_rules!\s*typeenum\s*\{", msrc)
    if not m:
        raise Untranslatable("typeenum! definition not found")
    k = balanced(msrc, m.end() - 1, "{", "}")
    te_def = msrc[m.end():k - 1]
    # only the two conversion impls matter for C18
    convs = re.findall(r"impl From<\$ty> for \$name \{.*?\n {12}\}|impl From<\$name> for \$ty \{.*?\n {12}\}", te_def, re.S)
    if len(convs) != 2:
        raise Untranslatable("typeenum!: expected two From impls, found %d" % len(convs))
    fingerprints["typeenum.from_int"] = hashlib.sha256(norm(convs[0]).encode()).hexdigest()[:16]
    fingerprints["typeenum.to_int"] = hashlib.sha256(norm(convs[1]).encode()).hexdigest()[:16]
    asrc = files["bgp/nlri/afisafi.rs"]
    for key, rx in [
        ("afisafi.from_pair", r"impl From<\(u16, u8\)> for AfiSafiType \{"),
        ("afisafi.to_pair", r"impl From<AfiSafiType> for \(u16, u8\) \{"),
        ("afisafi.as_bytes", r"pub const fn as_bytes\(self\) -> \[u8; 3\] \{"),
        ("nlritype.afi_safi", r"impl NlriType \{"),
        ("nlritype.from", r"impl From<\(AfiSafiType, bool\)> for NlriType \{"),
    ]:
        mm = re.search(rx, asrc)
        if not mm:
            raise Untranslatable("afisafi!: %s not found" % key)
        kk = balanced(asrc, mm.end() - 1, "{", "}")
        fingerprints[key] = hashlib.sha256(norm(asrc[mm.start():kk]).encode()).hexdigest()[:16]
    psrc = files["bgp/path_attributes.rs"]
    for key, rx in [
        ("pat.from_u8", r"impl From<u8> for PathAttributeType \{"),
        ("pat.to_u8", r"impl From<PathAttributeType> for u8 \{"),
    ]:
        mm = re.search(rx, psrc)
        if not mm:
            raise Untranslatable("path_attributes!: %s not found" % key)
        kk = balanced(psrc, mm.end() - 1, "{", "}")
        fingerprints[key] = hashlib.sha256(norm(psrc[mm.start():kk]).encode()).hexdigest()[:16]

    # --- typeenum! invocations ------------------------------------------------
    for rel in sorted(files):
        if rel == "util/macros.rs":
            continue
        src = files[rel]
        for pos, body in find_invocations(src, "typeenum"):
            if "$" in body:
                continue  # the invocation inside afisafi! (Afi); handled below
            t = parse_typeenum(body, rel)
            t["name"] = rel[:-3].replace("/", ".") + "." + t["name"]
            tables.append(t)
    # --- afisafi! ------------------------------------------------------------
    inv = [b for _, b in find_invocations(asrc, "afisafi") if "$" not in b]
    if len(inv) != 1:
        raise Untranslatable("afisafi!: %d invocations" % len(inv))
    afis = []
    body = inv[0]
    i = 0
    while True:
        m = re.compile(r"\s*,?\s*(\S+)\s*=>\s*([A-Za-z0-9_]+)\s*\[").match(body, i)
        if not m:
            if body[i:].strip(" ,\n\t"):
                raise Untranslatable("afisafi!: trailing %r" % body[i:i + 40])
            break
        k = balanced(body, m.end() - 1, "[", "]")
        safis = []
        for arm in body[m.end():k - 1].split(","):
            arm = arm.strip()
            if not arm:
                continue
            mm = re.fullmatch(r"(\S+)\s*=>\s*([A-Za-z0-9_]+)(<\w+>)?", arm)
            if not mm:
                raise Untranslatable("afisafi!: arm %r" % arm)
            safis.append((parse_int(mm.group(1)), mm.group(2)))
        afis.append((parse_int(m.group(1)), m.group(2), safis))
        i = k
    tables.append({"name": "bgp.nlri.afisafi.Afi", "width": 16,
                   "named": [(a, n) for a, n, _ in afis], "ranges": []})
    # --- path_attributes! ----------------------------------------------------
    inv = [b for _, b in find_invocations(psrc, "path_attributes") if "$" not in b]
    if len(inv) != 1:
        raise Untranslatable("path_attributes!: %d invocations" % len(inv))
    pat = []
    for m in re.finditer(r"(\d+)\s*=>\s*([A-Za-z0-9_]+)\s*\(", inv[0]):
        pat.append((int(m.group(1)), m.group(2)))
    if not pat:
        raise Untranslatable("path_attributes!: no rows")
    tables.append({"name": "bgp.path_attributes.PathAttributeType", "width": 8,
                   "named": pat, "ranges": []})

    by_name = {t["name"]: t for t in tables}

    def variant_index(table, v):
        names = [n for _, n in table["named"]]
        if v not in names:
            raise Untranslatable("variant %s not in %s" % (v, table["name"]))
        return names.index(v)

    # --- Header::msg_type ----------------------------------------------------
    msrc2 = files["bgp/message/mod.rs"]
    b = fn_body(msrc2, r"pub fn msg_type\(&self\) -> MsgType \{(?=\s*(match\s+)?(MsgType::from\(\s*)?self\.0\b)", "bgp/message/mod.rs")
    mt = by_name["bgp.message.mod.MsgType"]
    msg_arms = []
    msg_default_ok = False
    if re.fullmatch(r"\s*(MsgType::from\(\s*self\.0\.as_ref\(\)\[18\]\s*\)|self\.0\.as_ref\(\)\[18\]\.into\(\))\s*", b):
        # the function hands the type octet to MsgType's own From<u8> (the typeenum! table translated above):
        # its arms are that table's rows, its default is the table's catch-all, which carries the value
        if mt["ranges"]:
            raise Untranslatable("Header::msg_type delegates to a MsgType with range variants")
        msg_arms = [(val, idx) for idx, (val, _) in enumerate(mt["named"])]
        msg_default_ok = True
        b = ""
    elif not re.match(r"\s*match self\.0\.as_ref\(\)\[18\]\s*\{", b):
        raise Untranslatable("Header::msg_type: neither a match on octet 18 nor MsgType::from of it")
    # an arm may name several numbers (`5 | 128 => MsgType::RouteRefresh`): each of them is an arm of the table
    for m in re.finditer(r"((?:\w+\s*\|\s*)*\w+)\s*=>\s*MsgType::(\w+)(\((\w+)\))?", b):
        lhs, v, _, arg = m.groups()
        if v == "Unimplemented":
            msg_default_ok = (arg == lhs.strip())
        else:
            for one in lhs.split("|"):
                msg_arms.append((parse_int(one.strip()), variant_index(mt, v)))
    # --- AddpathDirection, SegmentType ------------------------------------------
    def two_way(src, where, enum, tryfrom_rx, to_rx):
        vs = enum_variants(src, enum, where)
        fb = fn_body(src, tryfrom_rx, where)
        frm = [(parse_int(a), vs.index(v)) for a, v in re.findall(r"(\d+)\s*=>\s*Ok\(\s*(?:Self|%s)::(\w+)\s*\)" % enum, fb)]
        tb = fn_body(src, to_rx, where)
        to = [(vs.index(v), parse_int(a)) for v, a in re.findall(r"%s::(\w+)\s*=>\s*(\d+)" % enum, tb)]
        return vs, frm, to
    tsrc = files["bgp/types.rs"]
    ap_vs, ap_from, ap_to = two_way(tsrc, "bgp/types.rs", "AddpathDirection",
        r"impl TryFrom<u8> for AddpathDirection \{.*?fn try_from\(u: u8\)[^{]*\{", r"impl From<AddpathDirection> for u8 \{\s*fn from\([^)]*\)[^{]*\{")
    ssrc = files["bgp/aspath.rs"]
    sg_vs, sg_from, sg_to = two_way(ssrc, "bgp/aspath.rs", "SegmentType",
        r"impl TryFrom<u8> for SegmentType \{.*?fn try_from\(value: u8\)[^{]*\{", r"impl From<SegmentType> for u8 \{\s*fn from\([^)]*\)[^{]*\{")
    # --- Details ------------------------------------------------------------
    nsrc = files["bgp/message/notification.rs"]
    det_vs = enum_variants(nsrc, "Details", "notification.rs")
    ec = by_name["bgp.message.notification.ErrorCode"]
    db = fn_body(nsrc, r"pub fn details\(&self\) -> Details \{", "notification.rs")
    det_arms = []  # (errorcode variant idx | 255 for Unimplemented, details idx, keepsCode, keepsSub)
    for m in re.finditer(r"E::(\w+)(\((\w+)\))?\s*=>\s*\{?\s*S::(\w+)(\(([^)]*(\([^)]*\))?[^)]*)\))?", db):
        ev, _, earg, dv, _, dargs, _ = m.groups()
        dargs = dargs or ""
        keeps_sub = "subraw" in dargs
        keeps_code = bool(earg) and earg in dargs
        ei = 255 if ev == "Unimplemented" else variant_index(ec, ev)
        det_arms.append((ei, det_vs.index(dv), keeps_code, keeps_sub))
    rb = fn_body(nsrc, r"pub fn raw\(&self\) -> \[u8; 2\] \{", "notification.rs")
    raw_arms = []  # (details idx, code source: errorcode variant idx | 254 literal-0.. , usesSub)
    for m in re.finditer(r"S::(\w+)(\(([^)]*)\))?\s*=>\s*\{?[^\[\]]*?\[\s*([^,\]]+)\s*,\s*([^\]]+?)\s*\]", rb, re.S):
        dv, _, dargs, c0, c1 = m.groups()
        c0, c1 = c0.strip(), c1.strip()
        mm = re.fullmatch(r"E::(\w+)\.into\(\)", c0)
        if mm:
            code = ("enum", variant_index(ec, mm.group(1)))
        elif re.fullmatch(r"\d+", c0):
            code = ("lit", int(c0))
        elif c0 == "*code":
            code = ("carried", 0)
        else:
            raise Untranslatable("Details::raw: code expr %r" % c0)
        if re.fullmatch(r"\d+", c1):
            sub = ("lit", int(c1))
        elif c1 in ("(*sub).into()", "*subcode"):
            sub = ("carried", 0)
        else:
            raise Untranslatable("Details::raw: subcode expr %r" % c1)
        raw_arms.append((det_vs.index(dv), code, sub))
    if len(det_arms) < 2 or len(raw_arms) < 2:
        raise Untranslatable("Details tables not understood")

    # --- emit -----------------------------------------------------------------
    L = []
    L.append("/- GENERATED by tools/gen_codepoints.py from the current /repo sources on every run. Do not edit. -/")
    L.append("import Rc.Model.Codepoint")
    L.append("namespace Rc.Gen")
    L.append("open Rc.Codepoint")
    L.append("")
    L.append("def typeenums : List TypeEnum := [")
    rows = []
    for t in tables:
        rows.append("  { name := %s, width := %d,\n    codes := %s,\n    variants := %s,\n    ranges := %s,\n    rangeNames := %s }" % (
            lean_str(t["name"]), t["width"],
            lean_list([str(c) for c, _ in t["named"]]),
            lean_list([lean_str(n) for _, n in t["named"]]),
            lean_list(["(%d, %d)" % (lo, hi) for lo, hi, _ in t["ranges"]]),
            lean_list([lean_str(n) for _, _, n in t["ranges"]])))
    L.append(",\n".join(rows))
    L.append("]")
    L.append("")
    L.append("/-- afisafi! rows: (afi, afi name, [(safi, safi name)]) -/")
    L.append("def afisafiNames : List (Nat × String × List (Nat × String)) := " + lean_list(
        ["(%d, %s, %s)" % (a, lean_str(n), lean_list(["(%d, %s)" % (s, lean_str(sn)) for s, sn in ss])) for a, n, ss in afis]))
    L.append("def afisafiPairs : List (Nat × Nat) := " + lean_list(
        ["(%d, %d)" % (a, s) for a, _, ss in afis for s, _ in ss]))
    L.append("")
    L.append("/-- Header::msg_type arms: (byte, index of the MsgType variant) -/")
    L.append("def msgTypeArms : List (Nat × Nat) := " + lean_list(["(%d, %d)" % x for x in msg_arms]))
    L.append("def msgTypeDefaultCarries : Bool := " + ("true" if msg_default_ok else "false"))
    L.append("def msgTypeTable : Nat := %d" % [t["name"] for t in tables].index("bgp.message.mod.MsgType"))
    for nm, vs, frm, to in [("apdir", ap_vs, ap_from, ap_to), ("segtype", sg_vs, sg_from, sg_to)]:
        L.append("def %sVariants : List String := %s" % (nm, lean_list([lean_str(v) for v in vs])))
        L.append("def %sFrom : List (Nat × Nat) := %s" % (nm, lean_list(["(%d, %d)" % x for x in frm])))
        L.append("def %sTo : List (Nat × Nat) := %s" % (nm, lean_list(["(%d, %d)" % x for x in to])))
    L.append("")
    L.append("def errorCodeTable : Nat := %d" % [t["name"] for t in tables].index("bgp.message.notification.ErrorCode"))
    L.append("def detailsVariants : List String := " + lean_list([lean_str(v) for v in det_vs]))
    L.append("/-- NotificationMessage::details arms: (ErrorCode variant index, 255 = Unimplemented; Details variant; keeps code; keeps subcode) -/")
    L.append("def detailsArms : List (Nat × Nat × Bool × Bool) := " + lean_list(
        ["(%d, %d, %s, %s)" % (a, b, str(c).lower(), str(d).lower()) for a, b, c, d in det_arms]))
    def src(x):
        k, v = x
        return {"enum": "CodeSrc.ofVariant %d" % v, "lit": "CodeSrc.lit %d" % v, "carried": "CodeSrc.carried"}[k]
    L.append("/-- Details::raw arms: (Details variant; where the code comes from; where the subcode comes from) -/")
    L.append("def rawArms : List (Nat × CodeSrc × CodeSrc) := " + lean_list(
        ["(%d, %s, %s)" % (a, src(b), src(c)) for a, b, c in raw_arms]))
    L.append("")
    L.append("end Rc.Gen")
    txt = "\n".join(L) + "\n"
    old = None
    if os.path.exists(out):
        old = open(out).read()
    if old != txt:
        os.makedirs(os.path.dirname(out), exist_ok=True)
        open(out, "w").write(txt)
    if fp_out:
        json.dump({"fingerprints": fingerprints,
                   "tables": [t["name"] for t in tables]}, open(fp_out, "w"), indent=1, sort_keys=True)
    print("translated %d typeenum tables, %d afi/safi pairs" % (len(tables), sum(len(s) for _, _, s in afis)))


if __name__ == "__main__":
    try:
        main()
    except Untranslatable as e:
        print("untranslatable: %s" % e, file=sys.stderr)
        sys.exit(4)
