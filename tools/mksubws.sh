#!/bin/sh
# tools/mksubws.sh <dir>: a sub-workspace of THIS tree for experiments that change routecore (harmless_eval.sh,
# parallel seed runs): <dir>/verif = copy of this tree with its build caches (without work/ and replay/),
# <dir>/repo = an independent clone of the repository this tree's ./check reads, at the same commit (a clone, not a
# `git worktree`: nothing is written to the original repository). Everything that points at the repository is redirected.
set -e
D="$1"
HERE="$(cd "$(dirname "$0")/.." && pwd)"
REPO=$(python3 -c "import re;print(re.search(r'^REPO = \"([^\"]+)\"', open('$HERE/check').read(), re.M).group(1))")
rm -rf "$D/verif" "$D/repo"
mkdir -p "$D/verif"
git clone -q --no-checkout "$REPO" "$D/repo"
git -C "$D/repo" checkout -q --detach "$(git -C "$REPO" rev-parse HEAD)"
(cd "$HERE" && tar cf - --exclude=./work --exclude=./replay --exclude=./.git --exclude=./.lock .) | (cd "$D/verif" && tar xf -)
cd "$D/verif"
sed -i "s#path = \"$REPO\"#path = \"$D/repo\"#" harness/Cargo.toml
sed -i "s#^REPO = \"$REPO\"#REPO = \"$D/repo\"#" check
sed -i "s# $REPO # $D/repo #g" setup.sh
echo "$D"
