#!/usr/bin/env python3
"""Normalise the `commit` field of `fixed` entries in known_findings.jsonl to the short hash
of the /repo commit with that subject (entries may carry a subject or a stale hash)."""
import json, re, subprocess, sys
log = subprocess.run(["git", "-C", "/repo", "log", "--format=%h\t%s"], capture_output=True, text=True).stdout.splitlines()
by_hash = {l.split("\t")[0]: l.split("\t")[1] for l in log}
out = []
bad = 0
for line in open("/verif/known_findings.jsonl"):
    if not line.strip():
        continue
    d = json.loads(line)
    if d.get("kind") == "fixed":
        c = d.get("commit", "")
        if c in by_hash:
            d["subject"] = by_hash[c]
        else:
            subj = d.get("subject") or c
            hit = [h for h, s in by_hash.items() if s == subj or s.startswith(subj[:60])]
            if hit:
                d["commit"], d["subject"] = hit[0], by_hash[hit[0]]
            else:
                print("!! no commit for:", c[:100]); bad += 1
    out.append(json.dumps(d, ensure_ascii=False))
open("/verif/known_findings.jsonl", "w").write("\n".join(out) + "\n")
print("ok" if not bad else "%d unresolved" % bad)
