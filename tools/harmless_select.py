#!/usr/bin/env python3
"""tools/harmless_select.py Cxx hN: which quick checks to run for seeded-harmless/Cxx/hN.diff when not all 20 are run
(third run of the false-alarm experiment, DESIGN 14.5): the diff's own property, every property that alarmed for that
diff in an earlier run (seeded-harmless/{first,second}-run.txt), and every property whose anchors.files
(properties.jsonl) contain a source file the diff touches. Prints the ids on one line."""
import json, os, re, sys
here = os.path.dirname(os.path.dirname(os.path.abspath(__file__)))
pid, h = sys.argv[1], sys.argv[2]
sel = {pid}
files = set(re.findall(r"^\+\+\+ b/(\S+)", open(os.path.join(here, "seeded-harmless", pid, h + ".diff")).read(), re.M))
for line in open(os.path.join(here, "properties.jsonl")):
    p = json.loads(line)
    if files & set(p["anchors"]["files"]):
        sel.add(p["id"])
for run in ("first-run.txt", "second-run.txt"):
    f = os.path.join(here, "seeded-harmless", run)
    if not os.path.exists(f):
        continue
    cur = None
    for line in open(f):
        m = re.match(r"== (C\d\d:h\d)", line)
        if m:
            cur = m.group(1)
        elif cur == pid + ":" + h and re.match(r"C\d\d rc=", line):
            sel.add(line[:3])
print(" ".join(sorted(sel)))
