"""Human-written level texts for MANIFEST.json (one entry per claimed property)."""
NOT_APPLICABLE = {}
TEXT = {
    "C15": {
        "text": "Proof: a Lean model of bmp::Message::from_octets, the seven check functions and every accessor/iterator (each slice, index, unwrap and checked arithmetic an explicit panicking operation), including OpenMessage::parse / Parameter::parse / Capability::parse and NotificationMessage::parse used for the embedded PDUs. Theorems (all byte strings, no size bound): decoding never panics; on an accepted message every accessor group returns a value and every iterator terminates with exactly the announced number of items. The model is tied to the code by differential execution of the same byte strings (valid, mutated, random) with all accessors observed. 10 defects found this way were repaired by fix: commits; the corpus replays their inputs first.",
        "design_ref": "DESIGN.md section 7, C15",
        "note": "Trusted: Lean kernel; hand-written model validated differentially on each run; chrono's timestamp acceptance rule and from_utf8_lossy are modelled by their observable effect only. Decoding of the embedded UPDATE/OPEN contents is the subject of C01/C03; here they are shown to be located and returned byte for byte.",
        "technique": "Lean 4 totality + accessor theorems over a byte-level model; differential correspondence incl. malformed stream",
    },
    "C18": {
        "text": "Proof: the generic semantics of typeenum!/afisafi! (number->enum->number identity, injectivity, catch-all preservation, AFI/SAFI byte encoding for all pairs) is proved in Lean for every table; the theorems about hand-written match tables (Header::msg_type, AddpathDirection, SegmentType, details()/raw()) are re-proved against tables regenerated from the current source by a translator on every run. The model is additionally tied to the code by an exhaustive differential run over every u8/u16 value of all 23 enumerations and all 65536 (code, subcode) pairs. A universally quantified statement over finite tables is exactly what a kernel-checked decision plus an exhaustive correspondence settles completely.",
        "design_ref": "DESIGN.md section 7, C18",
        "note": "Trusted: Lean kernel; translator tools/gen_codepoints.py; hand-written generic macro semantics (validated exhaustively each run); rustc match semantics. Known finding K1 (details() drops the subcode for codes 0 and 4) is proved false of the model (details_roundtrip_fails) and the proved part is details_roundtrip_partial.",
        "technique": "Lean 4 theorems over tables regenerated from source + exhaustive differential correspondence",
    },
}
