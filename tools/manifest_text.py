"""MANIFEST texts now live in tools/props/Cxx.json ("manifest" key); kept for gen_manifest.py."""
from propconf import TEXT  # noqa: F401
NOT_APPLICABLE = {}
