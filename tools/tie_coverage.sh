#!/bin/bash
# tools/tie_coverage.sh [--check] [--record] [--props] [--no-build] [Cxx ...]
#
# Measures what the tie EXECUTES: builds the harness with source-based coverage instrumentation
# (routecore + rc-harness only, see tools/cov_rustc_wrapper.sh) in the separate target directory
# harness/target-cov, runs `rc-harness Cxx run --seed $VERIF_SEED --tier quick --corpus corpus/Cxx.ops`
# (the command ./check uses for the quick tier) for each property given (default: all 20), and writes
#   work/coverage/Cxx.uncovered.txt   anchored code (properties.jsonl anchors) never executed by that run
#   work/coverage/Cxx.cov.json        the same, machine readable (function by function)
#   work/coverage/summary.json        per property: anchored lines total / executed / percent,
#                                     never-executed anchored functions; union of the runs per file of src/
#   work/coverage/ALL.uncovered.txt   union of the runs present in work/coverage, every file under src/
#   --check    exit 1 iff an anchored function executed in tools/tie_coverage_expected.json is not executed any more
#   --record   rewrite tools/tie_coverage_expected.json for the given properties
#   --props    copy the numbers into tools/props/Cxx.json ("tie_coverage")
# Toolchain: cargo +nightly (-C instrument-coverage) with the llvm-profdata / llvm-cov of the same toolchain
# (stable rustc accepts the flag too, but no matching llvm-tools are installed for it; /usr/bin/llvm-cov is LLVM 14
# and cannot read the profile format).  A process that aborts (stack overflow) writes no profile: the run is then
# reported as failed and the property is skipped.
set -u
VERIF="$(cd "$(dirname "$0")/.." && pwd)"
export CARGO_NET_OFFLINE=true
TC="${TIE_COV_TOOLCHAIN:-nightly}"
SYSROOT="$(rustc +$TC --print sysroot 2>/dev/null)"
HOST="$(rustc +$TC -vV 2>/dev/null | sed -n 's/^host: //p')"
BIN="$SYSROOT/lib/rustlib/$HOST/bin"
if [ ! -x "$BIN/llvm-cov" ] || [ ! -x "$BIN/llvm-profdata" ]; then
  echo "tie_coverage: no llvm-cov / llvm-profdata under $BIN (toolchain $TC)"; exit 2
fi
CHECK=0; RECORD=0; PROPS=0; BUILD=1; IDS=()
for a in "$@"; do
  case "$a" in
    --check) CHECK=1 ;;
    --record) RECORD=1 ;;
    --props) PROPS=1 ;;
    --no-build) BUILD=0 ;;
    C[0-9][0-9]) IDS+=("$a") ;;
    *) echo "unknown argument $a"; exit 2 ;;
  esac
done
[ ${#IDS[@]} -eq 0 ] && IDS=(C01 C02 C03 C04 C05 C06 C07 C08 C09 C10 C11 C12 C13 C14 C15 C16 C17 C18 C19 C20)
SEED="${VERIF_SEED:-1}"
COV="$VERIF/work/coverage"
mkdir -p "$COV"
TARGET="$VERIF/harness/target-cov"
EXE="$TARGET/debug/rc-harness"

if [ $BUILD = 1 ]; then
  # one coverage build at a time (the target directory is shared by concurrent invocations)
  exec 9>"$VERIF/.lock-cov"
  flock 9
  # RUSTC_WRAPPER adds -C instrument-coverage to routecore and rc_harness; the cfg flags come from
  # harness/.cargo/config.toml as in the normal build
  if ! (cd "$VERIF/harness" && CARGO_TARGET_DIR="$TARGET" RUSTC_WRAPPER="$VERIF/tools/cov_rustc_wrapper.sh" \
        cargo +$TC build >"$COV/build.log" 2>&1); then
    echo "tie_coverage: instrumented harness build failed (does the repository compile on $TC?):"
    tail -40 "$COV/build.log"
    exit 2
  fi
  flock -u 9
fi
[ -x "$EXE" ] || { echo "tie_coverage: $EXE missing"; exit 2; }

DONE=()
for id in "${IDS[@]}"; do
  run="$COV/run/$id"; prof="$COV/prof/$id"
  rm -rf "$run" "$prof"; mkdir -p "$run" "$prof"
  cmd=("$EXE" "$id" run --seed "$SEED" --tier quick --out "$run")
  [ -f "$VERIF/corpus/$id.ops" ] && cmd+=(--corpus "$VERIF/corpus/$id.ops")
  t0=$(date +%s)
  (cd "$run" && LLVM_PROFILE_FILE="$prof/%p-%m.profraw" "${cmd[@]}" >"$run/harness.log" 2>&1)
  rc=$?
  t1=$(date +%s)
  if ! ls "$prof"/*.profraw >/dev/null 2>&1; then
    echo "$id: harness run rc=$rc wrote no profile (aborted?) - skipped"; continue
  fi
  [ $rc -ne 0 ] && echo "$id: note: harness run exited $rc (profile written at exit)"
  "$BIN/llvm-profdata" merge -sparse "$prof"/*.profraw -o "$COV/$id.profdata" 2>"$COV/$id.profdata.log" || { echo "$id: llvm-profdata failed"; cat "$COV/$id.profdata.log"; continue; }
  IGN='/\.cargo/|/rustc/|/rustlib/|/harness/src/'
  "$BIN/llvm-cov" export -format=text -instr-profile "$COV/$id.profdata" "$EXE" --ignore-filename-regex="$IGN" >"$COV/$id.export.json" 2>"$COV/$id.export.log" || { echo "$id: llvm-cov export failed"; continue; }
  "$BIN/llvm-cov" export -format=lcov -instr-profile "$COV/$id.profdata" "$EXE" --ignore-filename-regex="$IGN" >"$COV/$id.lcov" 2>>"$COV/$id.export.log" || { echo "$id: llvm-cov export (lcov) failed"; continue; }
  python3 "$VERIF/tools/tie_coverage.py" process "$id" | sed "s/\$/  (run $((t1 - t0)) s)/"
  rm -rf "$prof"
  DONE+=("$id")
done
python3 "$VERIF/tools/tie_coverage.py" summary
[ ${#DONE[@]} -eq 0 ] && { echo "tie_coverage: nothing measured"; exit 2; }
[ $RECORD = 1 ] && python3 "$VERIF/tools/tie_coverage.py" record "${DONE[@]}"
[ $PROPS = 1 ] && python3 "$VERIF/tools/tie_coverage.py" props "${DONE[@]}"
if [ $CHECK = 1 ]; then
  python3 "$VERIF/tools/tie_coverage.py" check "${DONE[@]}" || exit 1
fi
exit 0
