#!/usr/bin/env python3
"""tools/export_props.py <workspace verif dir> <Cxx>...: turn a workspace's
old-style propconf.py / manifest_text.py entries into tools/props/Cxx.json here."""
import importlib.util, json, os, sys
ws = sys.argv[1]
def load(name):
    spec = importlib.util.spec_from_file_location(name + "_ws", os.path.join(ws, "tools", name + ".py"))
    m = importlib.util.module_from_spec(spec); sys.path.insert(0, os.path.join(ws, "tools")); spec.loader.exec_module(m); sys.path.pop(0); return m
pc = load("propconf"); mt = load("manifest_text")
here = os.path.dirname(os.path.abspath(__file__))
for pid in sys.argv[2:]:
    c = dict(pc.PROPS[pid])
    c["trusted_base"] = [t for t in c.get("trusted_base", []) if t not in pc.COMMON_TB]
    c["common_tb"] = True
    c["manifest"] = mt.TEXT[pid]
    if "pre" in c:
        c["pre"] = [[a.replace(os.path.dirname(ws.rstrip("/")) + "/repo", "/repo") for a in cmd] for cmd in c["pre"]]
    json.dump(c, open(os.path.join(here, "props", pid + ".json"), "w"), indent=1)
    print("exported", pid)
