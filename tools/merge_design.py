#!/usr/bin/env python3
"""tools/merge_design.py <workspace DESIGN.md> <Cxx>...: take the section-7 entry (`### Cxx – ...`) and the
14.3 paragraph (`**Cxx** – ...`) of the named properties from a worker's DESIGN.md into /verif/DESIGN.md."""
import re, sys
src, pids = sys.argv[1], sys.argv[2:]
cur = open('/verif/DESIGN.md').read()
ws = open(src).read()
def sec7(s, pid):
    return re.search(r'^### %s – .*?(?=^### C\d\d – |^## )' % pid, s, re.S | re.M)
def para(s, pid):
    return re.search(r'^\*\*%s\*\* – .*?(?=^\*\*C\d\d\*\* – |^### |^## )' % pid, s, re.S | re.M)
for pid in pids:
    for name, f in (("section 7", sec7), ("14.3", para)):
        a, b = f(cur, pid), f(ws, pid)
        if a and b:
            if a.group(0) != b.group(0):
                cur = cur.replace(a.group(0), b.group(0))
                print(pid, name, len(a.group(0)), "->", len(b.group(0)))
        else:
            print("!!", pid, name, "not found", bool(a), bool(b))
open('/verif/DESIGN.md', 'w').write(cur)
