#!/usr/bin/env python3
"""tools/seed_store.py <id> <outdir> <caught-by text> [<note>]: keep a confirmed seeded change under /verif/seeded/<id>/."""
import json, os, shutil, sys, glob
sid, out, caught = sys.argv[1], sys.argv[2], sys.argv[3]
note = sys.argv[4] if len(sys.argv) > 4 else ""
dst = os.path.join("/verif/seeded", sid)
os.makedirs(dst, exist_ok=True)
shutil.copy(os.path.join(out, "patch.diff"), dst)
for f in glob.glob(os.path.join(out, "*.rs")):
    shutil.copy(f, dst)
meta = json.load(open(os.path.join(out, "meta.json")))
meta["confirmed_by_integrator"] = "tools/seed_eval.sh: demo passes on the unchanged tree, baseline suites (default features: 121 tests; all features: 132) pass with the change, demo fails with the change"
meta["checks"] = caught
if note:
    meta["note"] = note
json.dump(meta, open(os.path.join(dst, "meta.json"), "w"), indent=1)
print("stored", dst)
