#!/usr/bin/env python3
"""Regenerates /verif/MANIFEST.json from tools/propconf.py (claimed checks) and properties.jsonl."""
import json, os, sys
V = os.path.dirname(os.path.dirname(os.path.abspath(__file__)))
sys.path.insert(0, os.path.join(V, "tools"))
from propconf import PROPS
from manifest_text import TEXT, NOT_APPLICABLE

ids = [json.loads(l)["id"] for l in open(os.path.join(V, "properties.jsonl")) if l.strip()]
checks = []
for pid in ids:
    if pid not in PROPS or pid not in TEXT:
        continue
    t = TEXT[pid]
    checks.append({
        "property_id": pid,
        "quick_cmd": "./check %s --tier quick" % pid,
        "thorough_cmd": "./check %s --tier thorough" % pid,
        "evidence_file": "evidence/%s.json" % pid,
        "replay_cmd_template": "./check %s --replay {path}" % pid,
        "engine": "lean-model+rc-harness",
        "level_claimed": {"category": "proof", "text": t["text"], "design_ref": t["design_ref"]},
        "level_note": t["note"],
        "technique": t["technique"],
    })
na = []
for pid in ids:
    if pid not in [c["property_id"] for c in checks]:
        na.append({"property_id": pid, "reason": NOT_APPLICABLE.get(pid, "not claimed yet: model, theorems and correspondence for this property are still being built (see DESIGN.md section 7 for the plan); nothing is asserted about it")})
m = {
    "version": 1,
    "setup_cmd": "./setup.sh",
    "hooks": {
        "guard": "nlnetlabs_routecore_verif",
        "enable": "RUSTFLAGS='--cfg nlnetlabs_routecore_verif' (set in /verif/harness/.cargo/config.toml; the harness has a path dependency on /repo)",
        "baseline_off_cmd": "cd /repo && cargo test --workspace --no-fail-fast --offline",
        "source_commits": json.load(open(os.path.join(V, "tools", "hook_commits.json"))),
        "add_only": True,
    },
    "engines": [
        {"name": "lean-model", "path": "lean/", "serves_properties": [c["property_id"] for c in checks],
         "kind_free_text": "Lean 4 project Rc: executable models (Rc/Model), property theorems (Rc/Thm/Cxx.lean), compiled line-protocol driver rcdriver"},
        {"name": "rc-harness", "path": "harness/", "serves_properties": [c["property_id"] for c in checks],
         "kind_free_text": "Rust crate linked against /repo's working tree with hooks on: generators, in-process execution of the real code, oracle"},
        {"name": "codepoint-translator", "path": "tools/gen_codepoints.py", "serves_properties": ["C18", "C04", "C07", "C17", "C03", "C06", "C09", "C15"],
         "kind_free_text": "regenerates Lean tables from the Rust source on every run: the code-point tables of the typeenum!/afisafi!/path_attributes! invocations (C18), the (type code, FLAGS) column of path_attributes! (--attr-flags: C04, C07, C17) and 13 literal constants such as MAX_PDU, the 4000-octet batch threshold, COFF, AS_TRANS, the 18/19/4096 of the frame readers (--constants: C03, C06, C09, C15); a pattern that is not found exactly once fails the proof step"},
        {"name": "panic-site-inventory", "path": "tools/panic_sites.py", "serves_properties": ["C02", "C03", "C09", "C15"],
         "kind_free_text": "lists, per function of the decoding path, the panic-capable constructs (index/slice, unwrap/expect, panic-family macros, unchecked arithmetic, narrowing casts) and compares them with the committed inventory in which each is mapped to the model operation that mirrors it and to the lemma or syntactic reason that discharges it; a new or changed site fails the proof step"},
        {"name": "tie-coverage", "path": "tools/tie_coverage.sh", "serves_properties": [c["property_id"] for c in checks],
         "kind_free_text": "source-based coverage of the quick-tier harness run per property (nightly toolchain, separate target directory): which anchored functions no request executes; recorded in tools/props/Cxx.json tie_coverage and the evidence; thorough-tier post step reports a regression (exit 2, never a VIOLATION) when an anchored function of the recorded baseline is no longer executed"},
        {"name": "wellknown-translator", "path": "tools/gen_wellknown.py", "serves_properties": ["C19"],
         "kind_free_text": "regenerates the Lean well-known community table from the wellknown! invocation on every run"},
        {"name": "fsm-arm-inventory", "path": "tools/fsm_arms.py", "serves_properties": ["C08"],
         "kind_free_text": "lists the (state, event) arm heads and todo!() bodies of Session::handle_event and compares them with the committed inventory the model's transition table was written from"},
    ],
    "checks": checks,
    "not_applicable": na,
    "notes": "Technique family: machine-checked proof in Lean 4 of a hand-written executable model + differential correspondence with the implementation on every run. See DESIGN.md.",
}
json.dump(m, open(os.path.join(V, "MANIFEST.json"), "w"), indent=1)
print("MANIFEST: %d checks, %d not claimed" % (len(checks), len(na)))
