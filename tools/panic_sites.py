#!/usr/bin/env python3
"""Inventory of panic-capable constructs on a decoding path (DESIGN.md section 4 T3).

One committed inventory per property, each with its own `scope`:
  tools/panic_sites_expected.json  C02  UPDATE decoding path
  tools/panic_sites_C03.json       C03  OPEN / NOTIFICATION / KEEPALIVE / ROUTE-REFRESH, Header, Message::from_octets, builders
  tools/panic_sites_C09.json       C09  Connection::parse_frame / read_frame / take_message, Session::tick / handle_msg /
                                        handle_event, read_message
  tools/panic_sites_C15.json       C15  src/bmp/message.rs and the `parse` entry points of open.rs / notification.rs

usage: panic_sites.py <repo>|@check <expected.json> [--write] [--list]   (@check: the REPO of ./check)

scope: { "<file>": { "fn": [regex on the function name, fullmatch],
                     "skip_header": [regex searched in the enclosing impl / trait / macro header],
                     "only_header": [regex; when present the header must match one of them] } }

For every function the committed inventory names (file, enclosing impl/trait/macro header,
function name, n-th definition of that name under that header) this lists the
constructs that can panic when the harness builds routecore (overflow checks ON):

  unwrap   `.unwrap()`                      expect  `.expect(`
  index    `x[..]` index / slice expressions macro   panic! todo! unreachable! unimplemented! assert*!
  arith    binary + - * << and the op= forms cast    `as u8|u16|u32|usize|i..` conversions

and compares them - as normalised source text, per function - with the inventory, in
which every function is mapped to the model operation that mirrors it (`model`) and
to what discharges its sites (`guard`: a `.panic` branch of the model + the lemma
that shows it unreachable, or the reason the site cannot fire).  A site that
APPEARS (or changes its text) in a function of the scope, and a new function of
the scope that has sites, breaks the tie: exit 1.  Sites and functions that
disappear are printed as notes only (a refactoring into helpers or a repair adds
nothing that could panic where the model does not look), and so are site lines that
disappear from one function of a file and appear unchanged in another function of the
same file (code moved into a helper or a renamed function).  `--write` rewrites the `sites`
lists from the source and keeps the hand-written `model` / `guard` texts; a new
function with sites gets `model: "TODO"`, which the comparison refuses.

Heuristic by design (it reads text, not types): an overflow hidden behind a method
call of another crate is not seen; the malformed-input stream of C02 is the backstop.
"""
import json
import re
import sys


def blank_comments_and_strings(src):
    """same length, comments and string/char literal contents replaced by spaces"""
    out = list(src)
    i, n = 0, len(src)
    while i < n:
        if src.startswith("//", i):
            j = src.find("\n", i)
            j = n if j < 0 else j
            for k in range(i, j):
                out[k] = " "
            i = j
        elif src.startswith("/*", i):
            j = src.find("*/", i)
            j = n if j < 0 else j + 2
            for k in range(i, j):
                if out[k] != "\n":
                    out[k] = " "
            i = j
        elif src[i] == '"':
            j = i + 1
            while j < n and src[j] != '"':
                j += 2 if src[j] == "\\" else 1
            for k in range(i + 1, min(j, n)):
                if out[k] != "\n":
                    out[k] = " "
            i = j + 1
        elif src[i] == "'" and re.match(r"'(\\.|[^\\'])'", src[i:i + 4]):
            m = re.match(r"'(\\.|[^\\'])'", src[i:i + 4])
            for k in range(i + 1, i + m.end() - 1):
                out[k] = " "
            i += m.end()
        else:
            i += 1
    return "".join(out)


def match_brace(s, i):
    """s[i] == '{' -> index after the matching '}'"""
    d = 0
    while i < len(s):
        if s[i] == "{":
            d += 1
        elif s[i] == "}":
            d -= 1
            if d == 0:
                return i + 1
        i += 1
    return len(s)


HEAD = re.compile(r"\b(impl\b(?:[^{;\[]|\[[^\]]*\])*|trait\s+\w+[^{;]*|macro_rules!\s*\w+\s*|mod\s+\w+\s*)\{")
FN = re.compile(r"\bfn\s+(\w+)\s*(?:<[^{;()]*>)?\s*\(")


def functions(src):
    """[(header, name, nth, body_text, line)] of every fn with a body, outside `mod tests`"""
    s = blank_comments_and_strings(src)
    res = []
    counts = {}

    def walk(a, b, header):
        i = a
        while i < b:
            mh = HEAD.search(s, i, b)
            mf = FN.search(s, i, b)
            if mf and (not mh or mf.start() < mh.start()):
                # find the body: first '{' or ';' after the parameter list at depth 0
                j, d = mf.end() - 1, 0
                while j < b:
                    c = s[j]
                    if c in "([":
                        d += 1
                    elif c in ")]":
                        d -= 1
                    elif d == 0 and c in "{;":
                        break
                    j += 1
                if j >= b or s[j] == ";":
                    i = j + 1
                    continue
                e = match_brace(s, j)
                key = (header, mf.group(1))
                counts[key] = counts.get(key, 0) + 1
                res.append((header, mf.group(1), counts[key], s[j:e], s.count("\n", 0, mf.start()) + 1))
                i = e
            elif mh:
                h = " ".join(mh.group(1).split())
                e = match_brace(s, mh.end() - 1)
                if re.match(r"mod\s+tests?\b", h):
                    i = e
                    continue
                inner = h if not h.startswith("mod ") else header
                if h.startswith("macro_rules!"):
                    inner = h.replace(" ", "")
                elif header and header.startswith("macro_rules!"):
                    inner = header + " " + h
                walk(mh.end(), e - 1, inner)
                i = e
            else:
                break

    walk(0, len(s), "")
    return res


SITE = [
    ("unwrap", re.compile(r"\.unwrap\(\)")),
    ("expect", re.compile(r"\.expect\(")),
    ("macro", re.compile(r"\b(panic|todo|unreachable|unimplemented|assert|assert_eq|assert_ne)!")),
    ("index", re.compile(r"(?<=[\w\)\]\?])\[")),
    ("arith", re.compile(r"(?<=[\w\)\]])\s*(\+=|-=|\*=|<<=|<<|\+|\*|(?<!-)-(?!>))\s*(?=[\w\(&])")),
    ("cast", re.compile(r"\bas\s+(u8|u16|u32|u64|usize|i8|i16|i32|i64|isize)\b")),
]


def sites(body):
    out = []
    for line in body.splitlines():
        t = " ".join(line.split())
        if not t or t.startswith("#["):
            continue
        for kind, rx in SITE:
            k = len(rx.findall(t)) if kind != "arith" else len(list(rx.finditer(t)))
            if kind == "arith":
                # generic parameters / lifetimes / references / ranges are not arithmetic
                k = len([m for m in rx.finditer(t) if not re.search(r"[<:&]\s*$", t[:m.start() + 1])])
            if k:
                # which member of the panic family a line uses is not a difference
                t2 = re.sub(r"\b(panic|todo|unreachable|unimplemented)!", "panic!", t) if kind == "macro" else t
                out.append("%s x%d: %s" % (kind, k, t2[:110]))
    return out


def main():
    repo, expected = sys.argv[1], sys.argv[2]
    if repo == "@check":
        # the working tree the ./check script of this tree decides about (workspaces rewrite it)
        import os
        here = os.path.dirname(os.path.dirname(os.path.abspath(__file__)))
        repo = re.search(r'^REPO = "([^"]+)"', open(os.path.join(here, "check")).read(), re.M).group(1)
    write = "--write" in sys.argv
    inv = json.load(open(expected))
    found = {}
    for f, rxs in inv["scope"].items():
        src = open(repo + "/" + f).read()
        for header, name, nth, body, line in functions(src):
            if any(re.fullmatch(rx, name) for rx in rxs["fn"]) and not any(re.search(x, header) for x in rxs.get("skip_header", [])) \
                    and ("only_header" not in rxs or any(re.search(x, header) for x in rxs["only_header"])):
                key = "%s | %s | %s#%d" % (f, header, name, nth)
                found[key] = (sites(body), line)
    if "--list" in sys.argv:
        for k, (s, line) in found.items():
            print("%s (line %d): %d sites" % (k, line, len(s)))
            for x in s:
                print("     " + x)
        return 0
    old = inv.get("functions", {})
    if write:
        new = {}
        for k, (s, _) in found.items():
            e = old.get(k) or ({"model": "TODO", "guard": "TODO"} if s else {"model": "-", "guard": "no panic-capable construct in the body"})
            new[k] = {"model": e["model"], "guard": e["guard"], "sites": s}
        inv["functions"] = new
        json.dump(inv, open(expected, "w"), indent=1, ensure_ascii=False)
        open(expected, "a").write("\n")
        todo = [k for k, e in new.items() if e["model"] == "TODO"]
        print("panic_sites: wrote %d functions, %d sites, %d without annotation" % (len(new), sum(len(e["sites"]) for e in new.values()), len(todo)))
        return 0
    # Only a site the inventory does not have breaks the tie: a panic-capable construct that APPEARS in a
    # function of the scope (or a new function of the scope that has one).  Sites / functions that
    # disappear (a refactoring that moves code into a helper, a repair that removes an unwrap) are
    # reported as notes: nothing that could panic was added where the model does not look.
    bad, notes = [], []
    cand = []      # (key, line, new site lines, message): breaks the tie unless every line was MOVED here
    pool = {}      # file -> site lines that disappeared from functions of that file (a multiset)
    for k, (s, line) in found.items():
        if k not in old:
            if s:
                cand.append((k, line, list(s), "function in scope but not in the inventory: %s (line %d) with panic-capable sites %s" % (k, line, s)))
            else:
                notes.append("new function without panic-capable sites: %s" % k)
            continue
        have = list(old[k]["sites"])
        came = []
        for x in s:
            if x in have:
                have.remove(x)
            else:
                came.append(x)
        if have:
            pool.setdefault(k.split(" | ")[0], []).extend(have)
        if came:
            cand.append((k, line, came, "new panic-capable site(s) in %s (line %d; model operation: %s)\n      new : %s\n      gone: %s" % (k, line, old[k]["model"], came, have)))
        elif have:
            notes.append("sites gone from %s: %s" % (k, have))
        elif old[k]["model"] == "TODO" or (s and old[k]["guard"] == "TODO"):
            bad.append("no model operation / guard recorded for %s" % k)
    for k in old:
        if k not in found:
            notes.append("function of the inventory is gone (renamed / moved?): %s" % k)
            pool.setdefault(k.split(" | ")[0], []).extend(old[k]["sites"])
    # A refactoring that MOVES code (into a helper, into a renamed function) makes the same site lines
    # disappear in one function of a file and appear in another: nothing that could panic was added, the
    # model operation recorded for the old place still performs it.  Such lines are notes; a line that
    # no function of the file lost is a new site.
    for k, line, came, msg in cand:
        avail = pool.get(k.split(" | ")[0], [])
        take = list(avail)
        ok = True
        for x in came:
            if x in take:
                take.remove(x)
            else:
                ok = False
                break
        if ok:
            pool[k.split(" | ")[0]] = take
            notes.append("site line(s) moved within %s into %s (line %d): %s" % (k.split(" | ")[0], k, line, came))
        else:
            bad.append(msg)
    for x in notes:
        print("panic_sites note: " + x)
    if bad:
        print("panic-site inventory: the source has panic-capable sites the inventory does not (%d):" % len(bad))
        for b in bad:
            print("  - " + b)
        print("review the change, mirror it in the model, then: python3 tools/panic_sites.py <repo> %s --write" % expected)
        return 1
    if notes:
        print("panic_sites: %d functions; no new panic-capable site (%d notes above: re-record with --write)" % (len(found), len(notes)))
        return 0
    print("panic_sites: %d functions, %d panic-capable sites, all as inventoried" % (len(found), sum(len(s) for s, _ in found.values())))
    return 0


if __name__ == "__main__":
    sys.exit(main())
