#!/usr/bin/env python3
"""Inventory of panic-capable constructs on a decoding path (DESIGN.md section 4 T3).

One committed inventory per property, each with its own `scope`:
  tools/panic_sites_expected.json  C02  UPDATE decoding path
  tools/panic_sites_C03.json       C03  OPEN / NOTIFICATION / KEEPALIVE / ROUTE-REFRESH, Header, Message::from_octets, builders
  tools/panic_sites_C09.json       C09  Connection::parse_frame / read_frame / take_message, Session::tick / handle_msg /
                                        handle_event, read_message
  tools/panic_sites_C15.json       C15  src/bmp/message.rs and the `parse` entry points of open.rs / notification.rs

usage: panic_sites.py <repo>|@check <expected.json> [--write] [--list]   (@check: the REPO of ./check)

scope: { "<file>": { "fn": [regex on the function name, fullmatch],
                     "skip_header": [regex searched in the enclosing impl / trait / macro header],
                     "only_header": [regex; when present the header must match one of them] } }

For every function the committed inventory names (file, enclosing impl/trait/macro header,
function name, n-th definition of that name under that header) this lists the
constructs that can panic when the harness builds routecore (overflow checks ON):

  unwrap   `.unwrap()`                      expect  `.expect(`
  index    `x[..]` index / slice expressions macro   panic! todo! unreachable! unimplemented! assert*!
  arith    binary + - * << and the op= forms cast    `as u8|u16|u32|usize|i..` conversions

and compares them - as normalised source text, per function - with the inventory, in
which every function is mapped to the model operation that mirrors it (`model`) and
to what discharges its sites (`guard`: a `.panic` branch of the model + the lemma
that shows it unreachable, or the reason the site cannot fire).  A site that
APPEARS (or changes its text) in a function of the scope, and a new function of
the scope that has sites, breaks the tie: exit 1.  Sites and functions that
disappear are printed as notes only (a refactoring into helpers or a repair adds
nothing that could panic where the model does not look).  Lines that differ are then
compared by their CONSTRUCTS (`constructs`: the indexed expression with its index, the
receiver of an unwrap / expect, both operands of an arithmetic operator, the operand of
a cast): a line that was re-wrapped or whose expression was put into another statement
(`match x[18] {` -> `T::from(x[18])`, `let _ = f(&mut b[18..(len)])` -> `if let Err(e) =
f(&mut b[18..len])`) holds the same constructs and is a note, and so are constructs that
disappear from one function of a file and appear unchanged in another function of the
same file (code moved into a helper or a renamed function).  A construct with another
receiver, index, operand or literal is a new site.  `--write` rewrites the `sites`
lists from the source and keeps the hand-written `model` / `guard` texts; a new
function with sites gets `model: "TODO"`, which the comparison refuses.

Heuristic by design (it reads text, not types): an overflow hidden behind a method
call of another crate is not seen; the malformed-input stream of C02 is the backstop.
"""
import json
import re
import sys


def blank_comments_and_strings(src):
    """same length, comments and string/char literal contents replaced by spaces"""
    out = list(src)
    i, n = 0, len(src)
    while i < n:
        if src.startswith("//", i):
            j = src.find("\n", i)
            j = n if j < 0 else j
            for k in range(i, j):
                out[k] = " "
            i = j
        elif src.startswith("/*", i):
            j = src.find("*/", i)
            j = n if j < 0 else j + 2
            for k in range(i, j):
                if out[k] != "\n":
                    out[k] = " "
            i = j
        elif src[i] == '"':
            j = i + 1
            while j < n and src[j] != '"':
                j += 2 if src[j] == "\\" else 1
            for k in range(i + 1, min(j, n)):
                if out[k] != "\n":
                    out[k] = " "
            i = j + 1
        elif src[i] == "'" and re.match(r"'(\\.|[^\\'])'", src[i:i + 4]):
            m = re.match(r"'(\\.|[^\\'])'", src[i:i + 4])
            for k in range(i + 1, i + m.end() - 1):
                out[k] = " "
            i += m.end()
        else:
            i += 1
    return "".join(out)


def match_brace(s, i):
    """s[i] == '{' -> index after the matching '}'"""
    d = 0
    while i < len(s):
        if s[i] == "{":
            d += 1
        elif s[i] == "}":
            d -= 1
            if d == 0:
                return i + 1
        i += 1
    return len(s)


HEAD = re.compile(r"\b(impl\b(?:[^{;\[]|\[[^\]]*\])*|trait\s+\w+[^{;]*|macro_rules!\s*\w+\s*|mod\s+\w+\s*)\{")
FN = re.compile(r"\bfn\s+(\w+)\s*(?:<[^{;()]*>)?\s*\(")


def functions(src):
    """[(header, name, nth, body_text, line)] of every fn with a body, outside `mod tests`"""
    s = blank_comments_and_strings(src)
    res = []
    counts = {}

    def walk(a, b, header):
        i = a
        while i < b:
            mh = HEAD.search(s, i, b)
            mf = FN.search(s, i, b)
            if mf and (not mh or mf.start() < mh.start()):
                # find the body: first '{' or ';' after the parameter list at depth 0
                j, d = mf.end() - 1, 0
                while j < b:
                    c = s[j]
                    if c in "([":
                        d += 1
                    elif c in ")]":
                        d -= 1
                    elif d == 0 and c in "{;":
                        break
                    j += 1
                if j >= b or s[j] == ";":
                    i = j + 1
                    continue
                e = match_brace(s, j)
                key = (header, mf.group(1))
                counts[key] = counts.get(key, 0) + 1
                res.append((header, mf.group(1), counts[key], s[j:e], s.count("\n", 0, mf.start()) + 1))
                i = e
            elif mh:
                h = " ".join(mh.group(1).split())
                e = match_brace(s, mh.end() - 1)
                if re.match(r"mod\s+tests?\b", h):
                    i = e
                    continue
                inner = h if not h.startswith("mod ") else header
                if h.startswith("macro_rules!"):
                    inner = h.replace(" ", "")
                elif header and header.startswith("macro_rules!"):
                    inner = header + " " + h
                walk(mh.end(), e - 1, inner)
                i = e
            else:
                break

    walk(0, len(s), "")
    return res


SITE = [
    ("unwrap", re.compile(r"\.unwrap\(\)")),
    ("expect", re.compile(r"\.expect\(")),
    ("macro", re.compile(r"\b(panic|todo|unreachable|unimplemented|assert|assert_eq|assert_ne)!")),
    ("index", re.compile(r"(?<=[\w\)\]\?])\[")),
    ("arith", re.compile(r"(?<=[\w\)\]])\s*(\+=|-=|\*=|<<=|<<|\+|\*|(?<!-)-(?!>))\s*(?=[\w\(&])")),
    ("cast", re.compile(r"\bas\s+(u8|u16|u32|u64|usize|i8|i16|i32|i64|isize)\b")),
]


# what precedes an operator character that is NOT arithmetic: generic parameters / lifetimes / references / ranges,
# and a keyword (`match *self`, `return -1`, `in &x`: a dereference or a sign, not a product or a difference)
NOT_ARITH = re.compile(r"([<:&]|\b(match|return|if|in|while|else|let|mut|ref|break|move))\s*$")


def sites(body):
    out = []
    for line in body.splitlines():
        t = " ".join(line.split())
        if not t or t.startswith("#["):
            continue
        for kind, rx in SITE:
            k = len(rx.findall(t)) if kind != "arith" else len(list(rx.finditer(t)))
            if kind == "arith":
                # generic parameters / lifetimes / references / ranges are not arithmetic
                k = len([m for m in rx.finditer(t) if not NOT_ARITH.search(t[:m.start() + 1])])
            if k:
                # which member of the panic family a line uses is not a difference
                t2 = re.sub(r"\b(panic|todo|unreachable|unimplemented)!", "panic!", t) if kind == "macro" else t
                out.append("%s x%d: %s" % (kind, k, t2[:110]))
    return out


# ---- constructs: what a site line holds, independent of the line it is written on ----------------------------
# The inventory keeps site LINES.  A refactoring that re-wraps a line, puts the same expression into another
# statement (`match x[18] {` -> `T::from(x[18])`) or moves it to a helper changes the line but not what can
# panic.  When the line comparison finds new lines, the constructs of the new lines are compared with the
# constructs of the lines that went away: index `recv[idx]`, unwrap / expect with their receiver, arithmetic
# with both operands, casts with their operand, panic-family macros.  A new line all of whose constructs were
# already there (in that function, or in a function of the same file that lost them) is a note; a construct
# with a different receiver, index, operand or literal is still a new site.

def _back(t, i):
    """start of the postfix expression that ends just before t[i] (identifiers, paths, calls, indexes, `?`)"""
    j = i
    while j > 0:
        c = t[j - 1]
        if c in ")]":
            d, k = 0, j - 1
            while k >= 0:
                if t[k] in ")]":
                    d += 1
                elif t[k] in "([":
                    d -= 1
                    if d == 0:
                        break
                k -= 1
            if k < 0:
                return j
            j = k
        elif c == "." and j >= 2 and t[j - 2] == ".":
            break                      # `a..b`: a range, not a path
        elif c.isalnum() or c in "_.?:":
            j -= 1
        else:
            break
    return j


def _fwd(t, i):
    """end of the operand that starts at t[i] (prefix `&` / `*` / `(`, then a postfix expression)"""
    n, j = len(t), i
    while j < n and t[j] in "&*":
        j += 1
    while j < n:
        c = t[j]
        if c in "([":
            d, k = 0, j
            while k < n:
                if t[k] in "([":
                    d += 1
                elif t[k] in ")]":
                    d -= 1
                    if d == 0:
                        break
                k += 1
            if k >= n:
                return n
            j = k + 1
        elif c == "." and j + 1 < n and t[j + 1] == ".":
            break
        elif c.isalnum() or c in "_.?:":
            j += 1
        else:
            break
    return j


def constructs(site):
    """the constructs of one inventory line `kind xK: text` (text is cut at 110 characters: a line whose
    constructs cannot all be recovered yields itself, which matches nothing but the identical line)"""
    m = re.match(r"(\w+) x(\d+): (.*)$", site)
    if not m:
        return [site]
    kind, k, t = m.group(1), int(m.group(2)), m.group(3)
    rx = dict(SITE)[kind]
    out = []
    for mm in rx.finditer(t):
        if kind == "arith" and NOT_ARITH.search(t[:mm.start() + 1]):
            continue
        if kind == "index":
            a = _back(t, mm.start())
            d, e = 0, mm.start()
            while e < len(t):
                if t[e] == "[":
                    d += 1
                elif t[e] == "]":
                    d -= 1
                    if d == 0:
                        break
                e += 1
            if e >= len(t):
                return [site]
            c = t[a:e + 1]
        elif kind in ("unwrap", "expect"):
            c = t[_back(t, mm.start()):mm.start()] + "." + kind
        elif kind == "macro":
            c = mm.group(1) + "!"
        elif kind == "arith":
            b = _fwd(t, mm.end())
            if b >= len(t) and len(t) >= 110:
                return [site]
            c = t[_back(t, mm.start()):mm.start()] + mm.group(1) + t[mm.end():b]
        else:  # cast
            c = t[_back(t, mm.start() - 1 if mm.start() and t[mm.start() - 1] == " " else mm.start()):mm.end()]
        # redundant parentheses around a lone name or number (`buf[18..(len)]`) are not a difference
        c = re.sub(r"(?<![\w\)\]>!])\(\s*(\w+)\s*\)", r"\1", c)
        c = "".join(c.split())
        out.append(kind + ": " + c)
    if len(out) != k:
        return [site]
    return out


def _renamed(came_c, have_c):
    """came_c with up to three identifiers renamed back, when that makes every construct one the function lost:
    a private field or a local that was given another name (`self.octets[..]` -> `self.slice[..]`) in ALL the
    constructs that use it.  Returns the renamed list, or None."""
    import itertools
    ids = lambda cs: set(w for c in cs for w in re.findall(r"[A-Za-z_]\w*", c.split(": ", 1)[-1]))
    new_ids, old_ids = sorted(ids(came_c) - ids(have_c)), sorted(ids(have_c) - ids(came_c))
    if not new_ids or len(new_ids) != len(old_ids) or len(new_ids) > 3:
        return None
    for perm in itertools.permutations(old_ids):
        ren = dict(zip(new_ids, perm))
        back = [c.split(": ", 1)[0] + ": " + re.sub(r"[A-Za-z_]\w*", lambda m: ren.get(m.group(0), m.group(0)), c.split(": ", 1)[-1])
                for c in came_c]
        if not _minus(back, have_c, _same)[0]:
            return back
    return None


def _harmless(c):
    """a construct that cannot panic whatever it is applied to: the full-range slice `x[..]`"""
    return bool(re.fullmatch(r"index: .*\[\.\.\]", c))


def _same(x, y):
    """two constructs are the same site: equal, or an unwrap / expect whose method chain starts on an earlier
    line on one side (`.try_into().expect`) and is written on one line on the other (`c.value().try_into().expect`)"""
    if x == y:
        return True
    for kind in ("unwrap: ", "expect: "):
        if x.startswith(kind) and y.startswith(kind):
            a, b = x[len(kind):], y[len(kind):]
            return (a.startswith(".") and len(a) > len(kind) and b.endswith(a)) or \
                   (b.startswith(".") and len(b) > len(kind) and a.endswith(b))
    return False


def _minus(a, b, same=lambda x, y: x == y):
    """multiset difference a - b, and what is left of b"""
    b = list(b)
    rest = []
    for x in a:
        for y in b:
            if same(x, y):
                b.remove(y)
                break
        else:
            rest.append(x)
    return rest, b


def main():
    repo, expected = sys.argv[1], sys.argv[2]
    if repo == "@check":
        # the working tree the ./check script of this tree decides about (workspaces rewrite it)
        import os
        here = os.path.dirname(os.path.dirname(os.path.abspath(__file__)))
        repo = re.search(r'^REPO = "([^"]+)"', open(os.path.join(here, "check")).read(), re.M).group(1)
    write = "--write" in sys.argv
    inv = json.load(open(expected))
    found = {}
    for f, rxs in inv["scope"].items():
        src = open(repo + "/" + f).read()
        for header, name, nth, body, line in functions(src):
            if any(re.fullmatch(rx, name) for rx in rxs["fn"]) and not any(re.search(x, header) for x in rxs.get("skip_header", [])) \
                    and ("only_header" not in rxs or any(re.search(x, header) for x in rxs["only_header"])):
                key = "%s | %s | %s#%d" % (f, header, name, nth)
                found[key] = (sites(body), line)
    if "--list" in sys.argv:
        for k, (s, line) in found.items():
            print("%s (line %d): %d sites" % (k, line, len(s)))
            for x in s:
                print("     " + x)
        return 0
    old = inv.get("functions", {})
    if write:
        new = {}
        for k, (s, _) in found.items():
            e = old.get(k) or ({"model": "TODO", "guard": "TODO"} if s else {"model": "-", "guard": "no panic-capable construct in the body"})
            new[k] = {"model": e["model"], "guard": e["guard"], "sites": s}
        inv["functions"] = new
        json.dump(inv, open(expected, "w"), indent=1, ensure_ascii=False)
        open(expected, "a").write("\n")
        todo = [k for k, e in new.items() if e["model"] == "TODO"]
        print("panic_sites: wrote %d functions, %d sites, %d without annotation" % (len(new), sum(len(e["sites"]) for e in new.values()), len(todo)))
        return 0
    # Only a site the inventory does not have breaks the tie: a panic-capable construct that APPEARS in a
    # function of the scope (or a new function of the scope that has one).  Sites / functions that
    # disappear (a refactoring that moves code into a helper, a repair that removes an unwrap) are
    # reported as notes: nothing that could panic was added where the model does not look.
    bad, notes = [], []
    cand = []      # (key, line, new site lines, their constructs not found in the function, message)
    pool = {}      # file -> CONSTRUCTS that disappeared from functions of that file (a multiset)
    for k, (s, line) in found.items():
        if k not in old:
            if s:
                cand.append((k, line, list(s), [c for x in s for c in constructs(x) if not _harmless(c)],
                             "function in scope but not in the inventory: %s (line %d) with panic-capable sites %s" % (k, line, s)))
            else:
                notes.append("new function without panic-capable sites: %s" % k)
            continue
        came, have = _minus(s, old[k]["sites"])
        # the same constructs on re-written lines (re-wrapped, put into another statement) are no new sites
        came_c, have_c = _minus([c for x in came for c in constructs(x)], [c for x in have for c in constructs(x)], _same)
        came_c = [c for c in came_c if not _harmless(c)]
        if came_c and _renamed(came_c, have_c) is not None:
            notes.append("site line(s) of %s re-written with a renamed field / local, same panic-capable constructs: %s" % (k, came))
            came_c, have_c, came = [], _minus(_renamed(came_c, have_c), have_c, _same)[1], []
        if have_c:
            pool.setdefault(k.split(" | ")[0], []).extend(have_c)
        if came_c:
            cand.append((k, line, came, came_c, "new panic-capable site(s) in %s (line %d; model operation: %s)\n      new : %s\n      gone: %s\n      constructs not in the inventory of this function: %s" % (
                k, line, old[k]["model"], came, have, came_c)))
        elif came:
            notes.append("site line(s) of %s re-written, same panic-capable constructs: %s (were: %s)" % (k, came, have))
        elif have:
            notes.append("sites gone from %s: %s" % (k, have))
        elif old[k]["model"] == "TODO" or (s and old[k]["guard"] == "TODO"):
            bad.append("no model operation / guard recorded for %s" % k)
    for k in old:
        if k not in found:
            notes.append("function of the inventory is gone (renamed / moved?): %s" % k)
            pool.setdefault(k.split(" | ")[0], []).extend(c for x in old[k]["sites"] for c in constructs(x))
    # A refactoring that MOVES code (into a helper, into a renamed function) makes the same constructs
    # disappear in one function of a file and appear in another: nothing that could panic was added, the
    # model operation recorded for the old place still performs it.  Such sites are notes; a construct that
    # no function of the file lost is a new site.
    for k, line, came, came_c, msg in cand:
        f = k.split(" | ")[0]
        rest, left = _minus(came_c, pool.get(f, []), _same)
        if not rest:
            pool[f] = left
            notes.append("site(s) moved within %s into %s (line %d): %s" % (f, k, line, came))
        else:
            bad.append(msg)
    for x in notes:
        print("panic_sites note: " + x)
    if bad:
        print("panic-site inventory: the source has panic-capable sites the inventory does not (%d):" % len(bad))
        for b in bad:
            print("  - " + b)
        print("review the change, mirror it in the model, then: python3 tools/panic_sites.py <repo> %s --write" % expected)
        return 1
    if notes:
        print("panic_sites: %d functions; no new panic-capable site (%d notes above: re-record with --write)" % (len(found), len(notes)))
        return 0
    print("panic_sites: %d functions, %d panic-capable sites, all as inventoried" % (len(found), sum(len(s) for s, _ in found.values())))
    return 0


if __name__ == "__main__":
    sys.exit(main())
