#!/usr/bin/env python3
"""Inventory of panic-capable constructs on a decoding path (DESIGN.md section 4 T3).

One committed inventory per property, each with its own `scope`:
  tools/panic_sites_expected.json  C02  UPDATE decoding path
  tools/panic_sites_C03.json       C03  OPEN / NOTIFICATION / KEEPALIVE / ROUTE-REFRESH, Header, Message::from_octets, builders
  tools/panic_sites_C09.json       C09  Connection::parse_frame / read_frame / take_message, Session::tick / handle_msg /
                                        handle_event, read_message
  tools/panic_sites_C15.json       C15  src/bmp/message.rs and the `parse` entry points of open.rs / notification.rs

usage: panic_sites.py <repo>|@check <expected.json> [--write] [--list]   (@check: the REPO of ./check)

scope: { "<file>": { "fn": [regex on the function name, fullmatch],
                     "skip_header": [regex searched in the enclosing impl / trait / macro header],
                     "only_header": [regex; when present the header must match one of them] } }

For every function of the scope (file, enclosing impl/trait/macro header, function name, n-th definition of that
name under that header) this lists the constructs that can panic when the harness builds routecore (overflow
checks ON).  The body is cut into STATEMENTS (at `;` / `,` directly inside a block and at every brace), not into
physical lines: an expression that rustfmt wrapped (`x = y\n    - (2 + z);`, `len -\n 19`) has both operands
of its operator, so `checked_sub(..)` -> `-` is a new `arith` construct whatever the layout.

  unwrap   `.unwrap()`, `Option::unwrap(x)`   expect  `.expect(`, `Result::expect(x, ..)`
  index    `x[..]` index / slice expressions  macro   panic! todo! unreachable! unimplemented! assert*! debug_assert*!
  arith    binary + - * << and the op= forms; / % with anything but a non-zero literal on the right; >> with anything
           but a literal on the right (literal OP literal is evaluated by rustc and is not a site)
  cast     `as u8|u16|u32|usize|i..` conversions
  call     methods of std / bytes / octseq that panic on a length or position that does not fit: Buf::get_u8 /
           get_u16 / get_u32 / .., advance, split_at / split_to / split_off, dst.copy_from_slice(src), remove /
           swap_remove / drain, Octets::range, unwrap_err, get_unchecked - unless the result is handed to `?` /
           `.unwrap()` / `.expect(` / `.map_err(` / `let _ =` (then the call returns a Result, e.g. octseq's
           `parser.advance(n)?`, and the unwrap behind it is its own site)

and compares them - as normalised source text, per function - with the inventory, in
which every function is mapped to the model operation that mirrors it (`model`) and
to what discharges its sites (`guard`: a `.panic` branch of the model + the lemma
that shows it unreachable, or the reason the site cannot fire).  A site that
APPEARS (or changes its text) in a function of the scope, and a new function of
the scope that has sites, breaks the tie: exit 1.  Sites and functions that
disappear are printed as notes only (a repair adds nothing that could panic where the model does not
look).  Statements that differ are then compared by their CONSTRUCTS (`constructs`: the indexed expression
with its index, the receiver of an unwrap / expect, both operands of an arithmetic operator, the operand of
a cast, a call with its receiver and arguments): a statement whose expression was put into another statement
(`match x[18] {` -> `T::from(x[18])`, `let _ = f(&mut b[18..(len)])` -> `if let Err(e) =
f(&mut b[18..len])`) holds the same constructs and is a note, and so are constructs that
disappear from one function of a file and appear unchanged in another function of the
same file (code moved into a helper or a renamed function).  A construct with another
receiver, index, operand or literal is a new site.

Renames: a construct that differs from a lost one in up to three lower-case identifiers is accepted as a renamed
field / local ONLY when the new name did not occur anywhere in the inventoried function body (`ids`, recorded by
--write) and the old name no longer occurs anywhere in the new body.  Substituting ANOTHER EXISTING variable
(`&buf[..len]` -> `&hdr[..len]`, `len as usize` -> `typ as usize`), a derived one (`n = len | 0x1000`) or any
constant / type name (`[COFF]` -> `[LENOFF]`: the text does not show its value) is a new site.

Callees: a call that is new in a function of the scope (its name is not among the recorded `ids`) is resolved
textually (`self.f(` / `x.f(`: the impl blocks of the same file; `f(` / `module::f(`: free functions of every file
under src/; `Type::f(`: impl blocks that mention Type); when such a definition has constructs, it must be in the
scope of THIS inventory or of one next to it (tools/panic_sites_*.json) or consist of constructs the file lost
(moved code) - otherwise exit 1.  So an index moved into a helper outside every scope is not just "gone".  The
scopes of C03 / C09 / C15 take every function of the listed files / impl blocks, so a new helper there is read.

`--write` rewrites the `sites` / `ids` lists from the source and keeps the hand-written `model` / `guard` texts;
a new function with sites gets `model: "TODO"`, which the comparison refuses.

NOT covered, by design (it reads text, not types or control flow):
  * GUARDS are not constructs.  Removing, weakening, neutralising or moving a length test (`if len <= 6` deleted,
    `> 21` -> `> 2`, a `parser.advance(2)?` deleted, a test moved behind the slice it protects) changes no construct
    and is silent here; the `guard` text of the inventory is documentation and is not checked to still hold.
    What stands behind it is the differential run (the model keeps the guard, the code does not: the first input
    in the gap differs) and, for the three guards of parse_frame / read_message only, tools/gen_codepoints.py
    --constants (literal, `return Err` in the block, position before the protected operation).
  * an overflow or an out-of-range index hidden behind a method call of another crate that is not in the `call`
    list, trait dispatch the text cannot resolve (`x.f(` on a receiver of a type defined in another file), macros
    that expand to panicking code, `unsafe`.
The malformed-input stream of each property is the backstop.
"""
import json
import re
import sys


def blank_comments_and_strings(src):
    """same length, comments and string/char literal contents replaced by spaces"""
    out = list(src)
    i, n = 0, len(src)
    while i < n:
        if src.startswith("//", i):
            j = src.find("\n", i)
            j = n if j < 0 else j
            for k in range(i, j):
                out[k] = " "
            i = j
        elif src.startswith("/*", i):
            j = src.find("*/", i)
            j = n if j < 0 else j + 2
            for k in range(i, j):
                if out[k] != "\n":
                    out[k] = " "
            i = j
        elif src[i] == '"':
            j = i + 1
            while j < n and src[j] != '"':
                j += 2 if src[j] == "\\" else 1
            for k in range(i + 1, min(j, n)):
                if out[k] != "\n":
                    out[k] = " "
            i = j + 1
        elif src[i] == "'" and re.match(r"'(\\.|[^\\'])'", src[i:i + 4]):
            m = re.match(r"'(\\.|[^\\'])'", src[i:i + 4])
            for k in range(i + 1, i + m.end() - 1):
                out[k] = " "
            i += m.end()
        else:
            i += 1
    return "".join(out)


def match_brace(s, i):
    """s[i] == '{' -> index after the matching '}'"""
    d = 0
    while i < len(s):
        if s[i] == "{":
            d += 1
        elif s[i] == "}":
            d -= 1
            if d == 0:
                return i + 1
        i += 1
    return len(s)


HEAD = re.compile(r"\b(impl\b(?:[^{;\[]|\[[^\]]*\])*|trait\s+\w+[^{;]*|macro_rules!\s*\w+\s*|mod\s+\w+\s*)\{")
FN = re.compile(r"\bfn\s+(\w+)\s*(?:<[^{;()]*>)?\s*\(")


def functions(src):
    """[(header, name, nth, body_text, line)] of every fn with a body, outside `mod tests`"""
    s = blank_comments_and_strings(src)
    res = []
    counts = {}

    def walk(a, b, header):
        i = a
        while i < b:
            mh = HEAD.search(s, i, b)
            mf = FN.search(s, i, b)
            if mf and (not mh or mf.start() < mh.start()):
                # find the body: first '{' or ';' after the parameter list at depth 0
                j, d = mf.end() - 1, 0
                while j < b:
                    c = s[j]
                    if c in "([":
                        d += 1
                    elif c in ")]":
                        d -= 1
                    elif d == 0 and c in "{;":
                        break
                    j += 1
                if j >= b or s[j] == ";":
                    i = j + 1
                    continue
                e = match_brace(s, j)
                key = (header, mf.group(1))
                counts[key] = counts.get(key, 0) + 1
                res.append((header, mf.group(1), counts[key], s[j:e], s.count("\n", 0, mf.start()) + 1))
                i = e
            elif mh:
                h = " ".join(mh.group(1).split())
                e = match_brace(s, mh.end() - 1)
                if re.match(r"mod\s+tests?\b", h):
                    i = e
                    continue
                inner = h if not h.startswith("mod ") else header
                if h.startswith("macro_rules!"):
                    inner = h.replace(" ", "")
                elif header and header.startswith("macro_rules!"):
                    inner = header + " " + h
                walk(mh.end(), e - 1, inner)
                i = e
            else:
                break

    walk(0, len(s), "")
    return res


SITE = [
    ("unwrap", re.compile(r"\.unwrap\(\)|\b(?:Option|Result)::unwrap\(")),
    ("expect", re.compile(r"\.expect\(|\b(?:Option|Result)::expect\(")),
    ("macro", re.compile(r"\b(panic|todo|unreachable|unimplemented|assert|assert_eq|assert_ne|debug_assert|debug_assert_eq|debug_assert_ne)!")),
    ("index", re.compile(r"(?<=[\w\)\]\?])\[")),
    ("arith", re.compile(r"(?<=[\w\)\]])\s*(\+=|-=|\*=|<<=|>>=|/=|%=|<<|>>|\+|\*|/|%|(?<!-)-(?!>))\s*(?=[\w\(&\*\-!])")),
    ("cast", re.compile(r"\bas\s+(u8|u16|u32|u64|usize|i8|i16|i32|i64|isize)\b")),
    # methods of std / bytes / octseq that panic on a length or position that does not fit (bytes::Buf::get_uN and
    # advance, split_at / split_to / split_off, dst.copy_from_slice(src), Vec::remove / swap_remove / insert-free
    # drain, Octets::range, unwrap_err, get_unchecked); a call whose result is handed to `?` (octseq's
    # `parser.advance(n)?`) returns a Result and is not one; `Bytes::copy_from_slice(..)` (a constructor) is not one
    ("call", re.compile(r"\.(get_u8|get_u16|get_u32|get_u64|get_u128|get_i8|get_i16|get_i32|get_i64|get_uint|get_int|advance|"
                        r"split_at|split_at_mut|split_to|split_off|copy_from_slice|clone_from_slice|remove|swap_remove|"
                        r"drain|range|truncate_front|unwrap_err|expect_err|unwrap_unchecked|get_unchecked|get_unchecked_mut)\(")),
]


# what precedes an operator character that is NOT arithmetic: generic parameters / lifetimes / references / ranges,
# and a keyword (`match *self`, `return -1`, `in &x`: a dereference or a sign, not a product or a difference)
NOT_ARITH = re.compile(r"([<:&]|\b(match|return|if|in|while|else|let|mut|ref|break|move))\s*$")


_LIT = re.compile(r"\(?\s*(0x[0-9a-fA-F_]+|0b[01_]+|[0-9][0-9_]*)(u8|u16|u32|u64|u128|usize|i8|i16|i32|i64|isize)?\s*\)?")


_RESULT = re.compile(r"\s*(\?|\.\s*(unwrap|expect|map_err|ok|is_ok|is_err|unwrap_or|unwrap_or_else|unwrap_or_default|and_then|or_else|ok_or|ok_or_else)\b)")


def _close(t, i):
    """t[i] is an opening bracket -> index of its partner, or len(t)"""
    d = 0
    for k in range(i, len(t)):
        if t[k] in "([{":
            d += 1
        elif t[k] in ")]}":
            d -= 1
            if d == 0:
                return k
    return len(t)


def _is_site(kind, t, m):
    """does the match m of the `kind` pattern in the statement t stand for something that can panic"""
    if kind == "arith":
        # generic parameters / lifetimes / references / ranges are not arithmetic
        if NOT_ARITH.search(t[:m.start() + 1]):
            return False
        op = m.group(1)
        if _LIT.fullmatch(t[_back(t, m.start()):m.start()] or "x") and _LIT.fullmatch(t[m.end():_fwd(t, m.end())] or "x"):
            return False               # `16 + 2`, `1 << 14`: evaluated by rustc, an overflow is a compile error
        if op in ("+", "*") and t[m.start() - 1] == ")":
            # `$( .. )+` / `$( .. )*`: a repetition of macro_rules!, not a sum
            d = 0
            for k in range(m.start() - 1, -1, -1):
                d += (t[k] == ")") - (t[k] == "(")
                if d == 0:
                    if k and t[k - 1] == "$":
                        return False
                    break
        if op in (">>", ">>="):
            # `collect::<Vec<_>>()`, `Header::<Vec<u8>>(buf)`: the close of two generic argument lists
            before = re.sub(r"<<|<=|->|=>|>=|>>", "  ", t[:m.start()])
            if before.count("<") > before.count(">"):
                return False
        if op in ("/", "%", "/=", "%=", ">>", ">>="):
            # a division panics on a zero divisor, a shift on an amount >= the width: with a literal on the right
            # (`(bits + 7) / 8`, `x >> 8`) neither can happen (rustc rejects an over-wide literal shift)
            lit = _LIT.fullmatch(t[m.end():_fwd(t, m.end())])
            if lit and (op.startswith(">>") or int(lit.group(1).replace("_", ""), 0) != 0):
                return False
    if kind == "call":
        e = _close(t, m.end() - 1)
        if _RESULT.match(t[e + 1:]) or (re.match(r"let _ = $", t[:_back(t, m.start())]) and t[e + 1:].strip() in (";", "")):
            return False               # returns a Result (octseq `parser.advance(n)?`, `.advance(n).unwrap()`): an error,
                                       # not a panic of the call itself (the unwrap / expect behind it is its own site)
    return True


def statements(body):
    """the body cut into statements: at `;` and `,` directly inside a block and at every brace.  An expression that
    rustfmt wrapped over several physical lines (`x = y\n    - (2 + z);`, `len -\n 19`) is ONE statement, so an
    operator at a line break has both its operands."""
    out, cur, stack = [], [], []
    for ch in body:
        cur.append(ch)
        if ch in "([{":
            stack.append(ch)
        elif ch in ")]}" and stack:
            stack.pop()
        top = stack[-1] if stack else "{"
        if ch in "{}" or (ch in ";," and top == "{"):
            out.append("".join(cur))
            cur = []
    out.append("".join(cur))
    return out


def sites(body):
    out = []
    for st in statements(body):
        t = " ".join(st.split())
        t = re.sub(r"^(#!?\[[^\]]*\]\s*)+", "", t)
        if not t:
            continue
        for kind, rx in SITE:
            k = len([m for m in rx.finditer(t) if _is_site(kind, t, m)])
            if k:
                # which member of the panic family a line uses is not a difference
                t2 = re.sub(r"\b(panic|todo|unreachable|unimplemented)!", "panic!", t) if kind == "macro" else t
                out.append("%s x%d: %s" % (kind, k, t2[:CUT]))
    return out


CUT = 400     # statements are stored up to this length; a longer one is compared as a whole (see constructs)


# ---- constructs: what a site line holds, independent of the line it is written on ----------------------------
# The inventory keeps site LINES.  A refactoring that re-wraps a line, puts the same expression into another
# statement (`match x[18] {` -> `T::from(x[18])`) or moves it to a helper changes the line but not what can
# panic.  When the line comparison finds new lines, the constructs of the new lines are compared with the
# constructs of the lines that went away: index `recv[idx]`, unwrap / expect with their receiver, arithmetic
# with both operands, casts with their operand, panic-family macros.  A new line all of whose constructs were
# already there (in that function, or in a function of the same file that lost them) is a note; a construct
# with a different receiver, index, operand or literal is still a new site.

def _back(t, i):
    """start of the postfix expression that ends just before t[i] (identifiers, paths, calls, indexes, `?`)"""
    j = i
    while j > 0:
        c = t[j - 1]
        if c in ")]":
            d, k = 0, j - 1
            while k >= 0:
                if t[k] in ")]":
                    d += 1
                elif t[k] in "([":
                    d -= 1
                    if d == 0:
                        break
                k -= 1
            if k < 0:
                return j
            j = k
        elif c == "." and j >= 2 and t[j - 2] == ".":
            break                      # `a..b`: a range, not a path
        elif c.isalnum() or c in "_.?:":
            j -= 1
        else:
            break
    return j


def _fwd(t, i):
    """end of the operand that starts at t[i] (prefix `&` / `*` / `(`, then a postfix expression)"""
    n, j = len(t), i
    while j < n and t[j] in "&*":
        j += 1
    while j < n:
        c = t[j]
        if c in "([":
            d, k = 0, j
            while k < n:
                if t[k] in "([":
                    d += 1
                elif t[k] in ")]":
                    d -= 1
                    if d == 0:
                        break
                k += 1
            if k >= n:
                return n
            j = k + 1
        elif c == "." and j + 1 < n and t[j + 1] == ".":
            break
        elif c.isalnum() or c in "_.?:":
            j += 1
        else:
            break
    return j


def constructs(site):
    """the constructs of one inventory line `kind xK: text` (text is cut at CUT characters: a statement whose
    constructs cannot all be recovered yields itself, which matches nothing but the identical line)"""
    m = re.match(r"(\w+) x(\d+): (.*)$", site)
    if not m:
        return [site]
    kind, k, t = m.group(1), int(m.group(2)), m.group(3)
    rx = dict(SITE)[kind]
    out = []
    for mm in rx.finditer(t):
        if not _is_site(kind, t, mm):
            continue
        if kind == "index":
            a = _back(t, mm.start())
            d, e = 0, mm.start()
            while e < len(t):
                if t[e] == "[":
                    d += 1
                elif t[e] == "]":
                    d -= 1
                    if d == 0:
                        break
                e += 1
            if e >= len(t):
                return [site]
            c = t[a:e + 1]
        elif kind in ("unwrap", "expect") and not mm.group(0).startswith("."):
            e = _close(t, mm.end() - 1)          # `Option::unwrap(x)`: the function-call spelling, with its argument
            if e >= len(t):
                return [site]
            c = t[mm.start():e + 1]
        elif kind in ("unwrap", "expect"):
            c = t[_back(t, mm.start()):mm.start()] + "." + kind
        elif kind == "call":
            e = _close(t, mm.end() - 1)
            if e >= len(t):
                return [site]
            c = t[_back(t, mm.start()):e + 1]
        elif kind == "macro":
            c = mm.group(1) + "!"
        elif kind == "arith":
            b = _fwd(t, mm.end())
            if b >= len(t) and len(t) >= CUT:
                return [site]
            c = t[_back(t, mm.start()):mm.start()] + mm.group(1) + t[mm.end():b]
        else:  # cast
            c = t[_back(t, mm.start() - 1 if mm.start() and t[mm.start() - 1] == " " else mm.start()):mm.end()]
        # redundant parentheses around a lone name or number (`buf[18..(len)]`) are not a difference
        c = re.sub(r"(?<![\w\)\]>!])\(\s*(\w+)\s*\)", r"\1", c)
        c = "".join(c.split()).replace(".ok()?", "?")     # `x.ok()?` in an Option-returning fn = `x?` in a Result-returning one
        out.append(kind + ": " + c)
    if len(out) != k:
        return [site]
    return out


def _idents(text):
    return set(re.findall(r"[A-Za-z_]\w*", text))


def _renamed(came_c, have_c, old_ids=None, new_ids_body=None):
    """came_c with up to three identifiers renamed back, when that makes every construct one the function lost:
    a private field or a local that was given another name (`self.octets[..]` -> `self.slice[..]`) in ALL the
    constructs that use it.  A rename is a NEW name for an old thing: the new name must not have occurred anywhere
    in the function before (`old_ids` = the identifiers of the inventoried body, recorded by --write as `ids`) and
    the old name must be gone from the whole new body (`new_ids_body`) - `&buf[..len]` -> `&hdr[..len]` with an
    existing `hdr`, `buf[18..len]` -> `buf[18..n]` with `n = len | 0x1000` are substitutions, not renames.  A name
    in capitals (a constant, a type) is never a rename: its VALUE is what matters and the text does not show it
    (`[COFF]` -> `[LENOFF]`).  Without recorded identifiers nothing is accepted.  Returns the renamed list, or None."""
    import itertools
    if old_ids is None or new_ids_body is None:
        return None
    ids = lambda cs: set(w for c in cs for w in re.findall(r"[A-Za-z_]\w*", c.split(": ", 1)[-1]))
    new_ids, old_names = sorted(ids(came_c) - ids(have_c)), sorted(ids(have_c) - ids(came_c))
    if not new_ids or len(new_ids) != len(old_names) or len(new_ids) > 3:
        return None
    if any(w in old_ids or w.upper() == w for w in new_ids) or any(w in new_ids_body or w.upper() == w for w in old_names):
        return None
    for perm in itertools.permutations(old_names):
        ren = dict(zip(new_ids, perm))
        back = [c.split(": ", 1)[0] + ": " + re.sub(r"[A-Za-z_]\w*", lambda m: ren.get(m.group(0), m.group(0)), c.split(": ", 1)[-1])
                for c in came_c]
        if not _minus(back, have_c, _same)[0]:
            return back
    return None


def _harmless(c):
    """a construct that cannot panic whatever it is applied to: the full-range slice `x[..]`"""
    return bool(re.fullmatch(r"index: .*\[\.\.\]", c))


def _same(x, y):
    """two constructs are the same site: equal, or an unwrap / expect whose method chain starts on an earlier
    line on one side (`.try_into().expect`) and is written on one line on the other (`c.value().try_into().expect`)"""
    if x == y:
        return True
    ue = re.compile(r"(unwrap|expect): (.*)\.(unwrap|expect)$")
    mx, my = ue.match(x), ue.match(y)
    if mx and my and mx.group(2) == my.group(2) and not mx.group(2).startswith("."):
        return True                # `.unwrap()` <-> `.expect("..")` on the same receiver: the same site with a message
    for kind in ("unwrap: ", "expect: "):
        if x.startswith(kind) and y.startswith(kind):
            a, b = x[len(kind):], y[len(kind):]
            return (a.startswith(".") and len(a) > len(kind) and b.endswith(a)) or \
                   (b.startswith(".") and len(b) > len(kind) and a.endswith(b))
    return False


def _minus(a, b, same=lambda x, y: x == y):
    """multiset difference a - b, and what is left of b"""
    b = list(b)
    rest = []
    for x in a:
        for y in b:
            if same(x, y):
                b.remove(y)
                break
        else:
            rest.append(x)
    return rest, b


_KEYWORDS = set("if match while for return loop in as let fn move else unsafe where impl dyn ref mut Some Ok Err None".split())


def _calls(body):
    """{name: set of qualifiers} of what is called in the body: `name(` -> "", `self.name(` / `Self::name(` -> "self",
    `x.name(` -> ".", `Q::name(` -> "Q" (macros `name!(` are not calls)"""
    out = {}
    for m in re.finditer(r"(\bself\s*\.\s*|\bSelf\s*::\s*|\b(\w+)\s*::\s*|\.\s*)?\b([a-z_]\w*)\s*(?:::\s*<[^;{}()]*>\s*)?\(", body):
        q, name = m.group(1) or "", m.group(3)
        if name in _KEYWORDS:
            continue
        q = "self" if q.lstrip().startswith(("self", "Self")) else (m.group(2) or (". " if q else "")).strip() or ("." if q else "")
        out.setdefault(name, set()).add(q)
    return out


def _resolve(repo, f, name, quals):
    """the definitions a call of `name` written with these qualifiers in file f can mean (text, not types: a method
    on another receiver is looked up in the same file only, a free function and `module::name` everywhere, `Type::name`
    in the impl blocks that mention Type)"""
    out = []
    for df, dh, dl, ds in _definitions(repo, name):
        for q in quals:
            if (q in ("self", ".") and df == f and dh) or (q == "" and not dh) or \
               (q not in ("self", ".", "") and ((q[0].islower() and not dh) or (q[0].isupper() and re.search(r"\b%s\b" % re.escape(q), dh)))):
                out.append((df, dh, dl, ds))
                break
    return out


_DEFS = {}


def _definitions(repo, name):
    """[(file, header, line, sites)] of every fn `name` with a body under <repo>/src, outside `mod tests`"""
    import os
    if not _DEFS:
        for d, _, fs in os.walk(os.path.join(repo, "src")):
            for f in sorted(fs):
                if f.endswith(".rs"):
                    path = os.path.join(d, f)
                    for header, n, nth, body, line in functions(open(path).read()):
                        _DEFS.setdefault(n, []).append((os.path.relpath(path, repo), header, line, sites(body)))
        _DEFS.setdefault("", [])
    return _DEFS.get(name, [])


def _in_scope(rxs, header, name):
    return any(re.fullmatch(rx, name) for rx in rxs["fn"]) and not any(re.search(x, header) for x in rxs.get("skip_header", [])) \
        and ("only_header" not in rxs or any(re.search(x, header) for x in rxs["only_header"]))


def _read_by_some_inventory(expected, f, header, name):
    """is fn `name` under `header` of file f in the scope of this inventory or of one next to it (tools/panic_sites_*.json)"""
    import glob
    import os
    for p in sorted(set(glob.glob(os.path.join(os.path.dirname(os.path.abspath(expected)), "panic_sites_*.json")) + [os.path.abspath(expected)])):
        try:
            scope = json.load(open(p)).get("scope", {})
        except ValueError:
            continue
        if f in scope and _in_scope(scope[f], header, name):
            return True
    return False


def main():
    repo, expected = sys.argv[1], sys.argv[2]
    if repo == "@check":
        # the working tree the ./check script of this tree decides about (workspaces rewrite it)
        import os
        here = os.path.dirname(os.path.dirname(os.path.abspath(__file__)))
        repo = re.search(r'^REPO = "([^"]+)"', open(os.path.join(here, "check")).read(), re.M).group(1)
    write = "--write" in sys.argv
    inv = json.load(open(expected))
    found, bodies = {}, {}
    for f, rxs in inv["scope"].items():
        src = open(repo + "/" + f).read()
        for header, name, nth, body, line in functions(src):
            if _in_scope(rxs, header, name):
                key = "%s | %s | %s#%d" % (f, header, name, nth)
                found[key] = (sites(body), line)
                bodies[key] = body
    if "--list" in sys.argv:
        for k, (s, line) in found.items():
            print("%s (line %d): %d sites" % (k, line, len(s)))
            for x in s:
                print("     " + x)
        return 0
    old = inv.get("functions", {})
    if write:
        new = {}
        for k, (s, _) in found.items():
            e = old.get(k) or ({"model": "TODO", "guard": "TODO"} if s else {"model": "-", "guard": "no panic-capable construct in the body"})
            new[k] = {"model": e["model"], "guard": e["guard"], "sites": s, "ids": " ".join(sorted(_idents(bodies[k])))}
        inv["functions"] = new
        json.dump(inv, open(expected, "w"), indent=1, ensure_ascii=False)
        open(expected, "a").write("\n")
        todo = [k for k, e in new.items() if e["model"] == "TODO"]
        print("panic_sites: wrote %d functions, %d sites, %d without annotation" % (len(new), sum(len(e["sites"]) for e in new.values()), len(todo)))
        return 0
    # Only a site the inventory does not have breaks the tie: a panic-capable construct that APPEARS in a
    # function of the scope (or a new function of the scope that has one).  Sites / functions that
    # disappear (a refactoring that moves code into a helper, a repair that removes an unwrap) are
    # reported as notes: nothing that could panic was added where the model does not look.
    bad, notes = [], []
    cand = []      # (key, line, new site lines, their constructs not found in the function, message)
    pool = {}      # file -> CONSTRUCTS that disappeared from functions of that file (a multiset)
    for k, (s, line) in found.items():
        if k not in old:
            if s:
                cand.append((k, line, list(s), [c for x in s for c in constructs(x) if not _harmless(c)],
                             "function in scope but not in the inventory: %s (line %d) with panic-capable sites %s" % (k, line, s)))
            else:
                notes.append("new function without panic-capable sites: %s" % k)
            continue
        came, have = _minus(s, old[k]["sites"])
        # the same constructs on re-written lines (re-wrapped, put into another statement) are no new sites
        came_c, have_c = _minus([c for x in came for c in constructs(x)], [c for x in have for c in constructs(x)], _same)
        came_c = [c for c in came_c if not _harmless(c)]
        old_ids = set(old[k]["ids"].split()) if "ids" in old[k] else None
        ren = _renamed(came_c, have_c, old_ids, _idents(bodies[k])) if came_c else None
        if ren is not None:
            notes.append("site line(s) of %s re-written with a renamed field / local, same panic-capable constructs: %s" % (k, came))
            came_c, have_c, came = [], _minus(ren, have_c, _same)[1], []
        # a call that is new in this function: what it calls must be read by some inventory when it has sites of its own
        # (an index or a subtraction moved into a helper outside every scope would otherwise just be "gone")
        if old_ids is not None:
            calls = _calls(bodies[k])
            for callee in sorted(set(calls) - old_ids):
                for df, dh, dl, ds in _resolve(repo, k.split(" | ")[0], callee, calls[callee]):
                    cs = [c for x in ds for c in constructs(x) if not _harmless(c)]
                    if cs and not _read_by_some_inventory(expected, df, dh, callee):
                        # like a new function of the scope: fine when its constructs are the ones this file lost (moved code)
                        cand.append(("%s | %s | %s" % (df, dh, callee), dl, ds, cs,
                                     "%s (line %d) now calls `%s` (%s | %s, line %d), which has panic-capable sites and is read by no inventory: %s" % (
                                         k, line, callee, df, dh, dl, ds)))
        if have_c:
            pool.setdefault(k.split(" | ")[0], []).extend(have_c)
        if came_c:
            cand.append((k, line, came, came_c, "new panic-capable site(s) in %s (line %d; model operation: %s)\n      new : %s\n      gone: %s\n      constructs not in the inventory of this function: %s" % (
                k, line, old[k]["model"], came, have, came_c)))
        elif came:
            notes.append("site line(s) of %s re-written, same panic-capable constructs: %s (were: %s)" % (k, came, have))
        elif have:
            notes.append("sites gone from %s: %s" % (k, have))
        elif old[k]["model"] == "TODO" or (s and old[k]["guard"] == "TODO"):
            bad.append("no model operation / guard recorded for %s" % k)
    for k in old:
        if k not in found:
            notes.append("function of the inventory is gone (renamed / moved?): %s" % k)
            pool.setdefault(k.split(" | ")[0], []).extend(c for x in old[k]["sites"] for c in constructs(x))
    # A refactoring that MOVES code (into a helper, into a renamed function) makes the same constructs
    # disappear in one function of a file and appear in another: nothing that could panic was added, the
    # model operation recorded for the old place still performs it.  Such sites are notes; a construct that
    # no function of the file lost is a new site.
    for k, line, came, came_c, msg in cand:
        f = k.split(" | ")[0]
        rest, left = _minus(came_c, pool.get(f, []), _same)
        if not rest:
            pool[f] = left
            notes.append("site(s) moved within %s into %s (line %d): %s" % (f, k, line, came))
        else:
            bad.append(msg)
    for x in notes:
        print("panic_sites note: " + x)
    if bad:
        print("panic-site inventory: the source has panic-capable sites the inventory does not (%d):" % len(bad))
        for b in bad:
            print("  - " + b)
        print("review the change, mirror it in the model, then: python3 tools/panic_sites.py <repo> %s --write" % expected)
        return 1
    if notes:
        print("panic_sites: %d functions; no new panic-capable site (%d notes above: re-record with --write)" % (len(found), len(notes)))
        return 0
    print("panic_sites: %d functions, %d panic-capable sites, all as inventoried" % (len(found), sum(len(s) for s, _ in found.values())))
    return 0


if __name__ == "__main__":
    sys.exit(main())
