#!/usr/bin/env python3
"""Post-processor of tools/tie_coverage.sh: what does the tie (the quick-tier harness run of a
property) execute of the routecore code the property is anchored in?

  tie_coverage.py process Cxx      work/coverage/Cxx.export.json + Cxx.lcov  ->  work/coverage/Cxx.cov.json,
                                   work/coverage/Cxx.uncovered.txt
  tie_coverage.py summary          all work/coverage/Cxx.cov.json -> work/coverage/summary.json,
                                   work/coverage/ALL.uncovered.txt (union of the runs, every file under src/)
  tie_coverage.py check Cxx ...    compare with tools/tie_coverage_expected.json: exit 1 iff an anchored function
                                   that the recorded baseline executed still exists and is no longer executed at all
  tie_coverage.py record [Cxx ...] write / update tools/tie_coverage_expected.json from work/coverage/Cxx.cov.json
  tie_coverage.py props [Cxx ...]  write the numbers into tools/props/Cxx.json under "tie_coverage"
                                   (the hand-written "uncovered_relevant" list is kept)

Scopes per property (properties.jsonl `anchors`):
  mechanism = every function that intersects a line range of anchors.mechanism[].where (+ the ranges themselves)
  files     = every function of the files in anchors.files
The line numbers of properties.jsonl are those of the repository's root commit (`snapshot`); they are carried to
the working tree through `git diff -U0 <root>`.
Excluded unless the property names them (anchors / statement mention Display, Debug, to_string ...):
  impls of fmt::Display / Debug / LowerHex.., serde Serialize / Deserialize, Arbitrary; #[cfg(test)] modules are
  not compiled and so never counted.
"""
import datetime
import json
import os
import re
import subprocess
import sys

VERIF = os.path.dirname(os.path.dirname(os.path.abspath(__file__)))
COV = os.path.join(VERIF, "work", "coverage")
EXPECTED = os.path.join(VERIF, "tools", "tie_coverage_expected.json")
ALL_PROPS = ["C%02d" % i for i in range(1, 21)]


def repo_dir():
    # the path dependency of the harness is the single source of truth for "which repository"
    txt = open(os.path.join(VERIF, "harness", "Cargo.toml")).read()
    m = re.search(r'routecore\s*=\s*\{\s*path\s*=\s*"([^"]+)"', txt)
    return m.group(1) if m else "/repo"


REPO = repo_dir()


# --------------------------------------------------------------------------------------------------
# a light Rust item scanner: fn / impl / trait / mod / macro_rules items with their line spans
# --------------------------------------------------------------------------------------------------
class Item:
    __slots__ = ("kind", "name", "header", "l1", "l2", "parent", "attrs")

    def __init__(self, kind, name, header, l1, parent, attrs):
        self.kind, self.name, self.header, self.l1, self.l2, self.parent, self.attrs = kind, name, header, l1, l1, parent, attrs

    def ctx(self):
        out = []
        p = self.parent
        while p is not None:
            if p.kind in ("impl", "trait", "macro", "fn", "mod"):
                out.append(p.header if p.kind == "impl" else "%s %s" % (p.kind, p.name))
            p = p.parent
        return " / ".join(reversed(out))


FN_RE = re.compile(r"\bfn\s+([A-Za-z_$][\w$]*)\s*[<(]")
IMPL_RE = re.compile(r"^(?:pub(?:\([^)]*\))?\s+)?(?:unsafe\s+)?impl\b")
MOD_RE = re.compile(r"\bmod\s+([A-Za-z_]\w*)\s*$")
TRAIT_RE = re.compile(r"\btrait\s+([A-Za-z_]\w*)")
MACRO_RE = re.compile(r"\bmacro_rules!\s*([A-Za-z_]\w*)")
ATTR_RE = re.compile(r"#!?\[(?:[^\[\]]|\[[^\]]*\])*\]")


def scan_items(src):
    """returns the list of items (all kinds) of a Rust source text"""
    items = []
    stack = []          # open braces: Item or None
    pend = []           # characters of the header being collected at this nesting level
    pend_line = [None]  # line where the pending header starts
    i, n, line = 0, len(src), 1
    paren = 0

    def cur_item():
        for s in reversed(stack):
            if s is not None:
                return s
        return None

    def reset():
        pend.clear()
        pend_line[0] = None

    while i < n:
        c = src[i]
        if c == "\n":
            line += 1
            pend.append(" ")
            i += 1
            continue
        if src.startswith("//", i):
            j = src.find("\n", i)
            i = n if j < 0 else j
            continue
        if src.startswith("/*", i):
            depth, i = 1, i + 2
            while i < n and depth:
                if src.startswith("/*", i):
                    depth += 1
                    i += 2
                elif src.startswith("*/", i):
                    depth -= 1
                    i += 2
                else:
                    if src[i] == "\n":
                        line += 1
                    i += 1
            continue
        # raw strings r"..", r#".."#, br#..
        m = re.match(r"b?r(#*)\"", src[i:i + 12]) if c in "br" and (i == 0 or not (src[i - 1].isalnum() or src[i - 1] == "_")) else None
        if m:
            end = '"' + m.group(1)
            j = src.find(end, i + m.end())
            j = n if j < 0 else j + len(end)
            line += src.count("\n", i, j)
            pend.append('""')
            i = j
            continue
        if c == '"':
            j = i + 1
            while j < n and src[j] != '"':
                if src[j] == "\\":
                    j += 1
                if j < n and src[j] == "\n":
                    line += 1
                j += 1
            pend.append('""')
            i = j + 1
            continue
        if c == "'":
            # char literal or lifetime
            if i + 1 < n and src[i + 1] == "\\":
                j = src.find("'", i + 2)
                if j == i + 2:      # '\''
                    j = src.find("'", i + 3)
                i = j + 1
                pend.append("' '")
                continue
            if i + 2 < n and src[i + 2] == "'":
                i += 3
                pend.append("' '")
                continue
            pend.append(c)
            i += 1
            continue
        if c in "([":
            paren += 1
        elif c in ")]":
            paren = max(0, paren - 1)
        if c == "{":
            header = "".join(pend).strip()
            attrs = " ".join(ATTR_RE.findall(header))
            bare = ATTR_RE.sub("", header).strip()
            hl = pend_line[0] or line
            it = None
            mm = MACRO_RE.search(bare)
            if mm:
                it = Item("macro", mm.group(1), bare, hl, cur_item(), attrs)
            elif IMPL_RE.match(bare):
                it = Item("impl", "", re.sub(r"\s+", " ", bare), hl, cur_item(), attrs)
            else:
                mf = FN_RE.search(bare)
                # `=>` in the header = a match arm / macro arm, not an item
                if mf and "=>" not in bare[:mf.start()] and not bare.rstrip().endswith("=>"):
                    it = Item("fn", mf.group(1), re.sub(r"\s+", " ", bare), hl, cur_item(), attrs)
                else:
                    mt = TRAIT_RE.search(bare)
                    mo = MOD_RE.search(bare)
                    if mt and "=>" not in bare:
                        it = Item("trait", mt.group(1), bare, hl, cur_item(), attrs)
                    elif mo and "=>" not in bare:
                        it = Item("mod", mo.group(1), bare, hl, cur_item(), attrs)
            if it is not None:
                items.append(it)
            stack.append(it)
            reset()
            paren = 0
            i += 1
            continue
        if c == "}":
            if stack:
                it = stack.pop()
                if it is not None:
                    it.l2 = line
            reset()
            i += 1
            continue
        if c == ";" and paren == 0:
            reset()
            i += 1
            continue
        if not c.isspace() and pend_line[0] is None:
            pend_line[0] = line
        pend.append(c)
        i += 1
    return items


EXCL_IMPL = re.compile(r"\b(?:fmt::)?(Display|Debug|LowerHex|UpperHex|Binary|Octal)\b[^{]*\bfor\b|\b(Serialize|Deserialize|Serializer|Visitor)\b|\bArbitrary\b")
EXCL_FN = re.compile(r"^(serialize|deserialize|arbitrary)\b|^(serialize|deserialize)_")


def excluded_reason(fn_item):
    """'display' / 'serde' / 'arbitrary' / None"""
    p = fn_item
    while p is not None:
        if p.kind == "impl":
            m = EXCL_IMPL.search(p.header)
            if m:
                if m.group(1):
                    return "display"
                if m.group(2):
                    return "serde"
                return "arbitrary"
        if p.kind == "fn" and EXCL_FN.search(p.name):
            return "serde" if "serial" in p.name else "arbitrary"
        if "cfg(test)" in (p.attrs or ""):
            return "test"
        if re.search(r'feature\s*=\s*"arbitrary"', p.attrs or ""):
            return "arbitrary"
        p = p.parent
    return None


# --------------------------------------------------------------------------------------------------
# anchors
# --------------------------------------------------------------------------------------------------
def load_properties():
    props = {}
    for line in open(os.path.join(VERIF, "properties.jsonl")):
        line = line.strip()
        if line:
            p = json.loads(line)
            props[p["id"]] = p
    return props


def parse_where(where):
    """'src/a.rs:10-20, 30-31; src/b.rs:5' -> [(file, a, b), ...]"""
    out = []
    for part in where.split(";"):
        part = part.strip()
        if not part or ":" not in part:
            continue
        f, ranges = part.split(":", 1)
        for r in ranges.split(","):
            r = r.strip()
            m = re.match(r"^(\d+)(?:-(\d+))?$", r)
            if m:
                a = int(m.group(1))
                b = int(m.group(2)) if m.group(2) else a
                out.append((f.strip(), a, b))
    return out


_root = None
_hunks = {}


def root_commit():
    global _root
    if _root is None:
        _root = subprocess.run(["git", "-C", REPO, "rev-list", "--max-parents=0", "HEAD"], capture_output=True, text=True).stdout.split()[0]
    return _root


def hunks(f):
    if f not in _hunks:
        r = subprocess.run(["git", "-C", REPO, "diff", "-U0", root_commit(), "--", f], capture_output=True, text=True)
        hs = []
        for line in r.stdout.splitlines():
            m = re.match(r"^@@ -(\d+)(?:,(\d+))? \+(\d+)(?:,(\d+))? @@", line)
            if m:
                hs.append((int(m.group(1)), int(m.group(2)) if m.group(2) is not None else 1,
                           int(m.group(3)), int(m.group(4)) if m.group(4) is not None else 1))
        _hunks[f] = hs
    return _hunks[f]


def map_line(f, L):
    """old line number (root commit) -> (first, last) line numbers in the working tree"""
    delta = 0
    for a, b, c, d in hunks(f):
        if b == 0:
            if L > a:
                delta += d
            else:
                break
        else:
            if L > a + b - 1:
                delta += d - b
            elif L >= a:
                return (c, c + max(d, 1) - 1) if d > 0 else (c, c)
            else:
                break
    return (L + delta, L + delta)


def map_range(f, a, b):
    return map_line(f, a)[0], map_line(f, b)[1]


def names_display(prop):
    txt = json.dumps(prop.get("anchors", {})) + " " + prop.get("statement", "")
    return bool(re.search(r"Display|Debug|to_string|FromStr|\bfmt\b", txt))


# --------------------------------------------------------------------------------------------------
# coverage data of one run
# --------------------------------------------------------------------------------------------------
def load_run(pid):
    """-> (lines {relfile: {line: count}}, regions {relfile: {(l1,c1,l2,c2): count}})"""
    exp = json.load(open(os.path.join(COV, pid + ".export.json")))
    prefix = REPO.rstrip("/") + "/"
    regions = {}
    for fn in exp["data"][0]["functions"]:
        files = fn["filenames"]
        for r in fn["regions"]:
            l1, c1, l2, c2, cnt, fid, _efid, kind = r
            if kind != 0:
                continue
            f = files[fid]
            if not f.startswith(prefix + "src/"):
                continue
            rf = f[len(prefix):]
            d = regions.setdefault(rf, {})
            k = (l1, c1, l2, c2)
            d[k] = d.get(k, 0) + cnt
    lines = {}
    cur = None
    for ln in open(os.path.join(COV, pid + ".lcov")):
        if ln.startswith("SF:"):
            f = ln[3:].strip()
            cur = lines.setdefault(f[len(prefix):], {}) if f.startswith(prefix + "src/") else None
        elif ln.startswith("DA:") and cur is not None:
            a, b = ln[3:].strip().split(",")[:2]
            cur[int(a)] = cur.get(int(a), 0) + int(b)
    return lines, regions


_items_cache = {}


def file_items(rf):
    if rf not in _items_cache:
        src = open(os.path.join(REPO, rf)).read()
        _items_cache[rf] = (scan_items(src), src.splitlines())
    return _items_cache[rf]


def fn_of_line(rf, line):
    """innermost fn item that contains `line`"""
    best = None
    for it in file_items(rf)[0]:
        if it.kind == "fn" and it.l1 <= line <= it.l2:
            if best is None or (it.l2 - it.l1) <= (best.l2 - best.l1):
                best = it
    return best


def fn_key(rf, it, seen):
    k = "%s :: %s :: %s" % (rf, it.ctx(), it.name)
    n = seen.get(k, 0)
    seen[k] = n + 1
    return k if n == 0 else "%s #%d" % (k, n + 1)


def functions_of_file(rf, lines, regions):
    """per fn item of the file: dict(key, name, ctx, l1, l2, excl, lines_total, lines_exec, regions_total,
    regions_exec, unc_lines [..], unc_regions [(l1,c1,l2,c2)..]) - only items that have executable code"""
    items, _src = file_items(rf)
    fns = [it for it in items if it.kind == "fn"]
    fns.sort(key=lambda it: (it.l1, -it.l2))
    seen = {}
    recs = {}
    order = []
    for it in fns:
        rec = {"key": fn_key(rf, it, seen), "file": rf, "name": it.name, "ctx": it.ctx(), "l1": it.l1, "l2": it.l2,
               "excl": excluded_reason(it), "lines": {}, "regions": {}}
        recs[id(it)] = rec
        order.append(rec)
    # innermost assignment: sort fns by size so that the smallest containing item wins
    by_size = sorted(fns, key=lambda it: it.l2 - it.l1)

    def owner(line):
        for it in by_size:
            if it.l1 <= line <= it.l2:
                return recs[id(it)]
        return None

    loose_lines, loose_regions = {}, {}
    for ln, cnt in lines.get(rf, {}).items():
        o = owner(ln)
        (o["lines"] if o else loose_lines)[ln] = cnt
    for k, cnt in regions.get(rf, {}).items():
        o = owner(k[0])
        (o["regions"] if o else loose_regions)[k] = cnt
    out = []
    for rec in order:
        if not rec["lines"] and not rec["regions"]:
            continue
        out.append(rec)
    if loose_lines or loose_regions:
        out.append({"key": "%s :: (outside any fn: consts, statics, macro arms)" % rf, "file": rf, "name": "(outside fn)", "ctx": "",
                    "l1": min(list(loose_lines) + [k[0] for k in loose_regions]), "l2": max(list(loose_lines) + [k[2] for k in loose_regions]),
                    "excl": None, "lines": loose_lines, "regions": loose_regions})
    return out


def executed(rec):
    return any(v > 0 for v in rec["regions"].values()) or any(v > 0 for v in rec["lines"].values())


def process(pid):
    props = load_properties()
    prop = props[pid]
    anchors = prop.get("anchors", {})
    keep_display = names_display(prop)
    lines, regions = load_run(pid)
    # mechanism ranges, mapped to the working tree
    mech = []   # (file, a, b, name)
    for m in anchors.get("mechanism", []):
        for f, a, b in parse_where(m.get("where", "")):
            na, nb = map_range(f, a, b)
            mech.append((f, na, nb, m["name"]))
    anchor_files = list(anchors.get("files", []))
    all_files = sorted(set(lines) | set(regions))
    result = {"property": pid, "date": datetime.date.today().isoformat(), "repo": REPO,
              "root_commit": root_commit(), "functions": [], "per_file": {}}
    for rf in all_files:
        recs = functions_of_file(rf, lines, regions)
        fl = lines.get(rf, {})
        result["per_file"][rf] = {"lines_total": len(fl), "lines_exec": sum(1 for v in fl.values() if v > 0)}
        for rec in recs:
            scope = []
            why = []
            whole = False
            parts = []
            for f, a, b, name in mech:
                if f == rf and not (rec["l2"] < a or rec["l1"] > b):
                    if "mechanism" not in scope:
                        scope.append("mechanism")
                    if name not in why:
                        why.append(name)
                    # the whole function is anchored when it starts inside the range or the anchor is a pointer
                    # (one or two lines); a range inside a larger function (an arm of Session::handle_event)
                    # anchors only the lines of the range
                    if a <= rec["l1"] <= b or b - a <= 1 or rec["name"] == "(outside fn)":
                        whole = True
                    else:
                        parts.append([max(a, rec["l1"]), min(b, rec["l2"])])
            if rf in anchor_files:
                scope.append("files")
            excl = rec["excl"]
            if excl == "display" and keep_display:
                excl = None

            def view(lines_d, regions_d):
                return {
                    "executed": any(v > 0 for v in regions_d.values()) or any(v > 0 for v in lines_d.values()),
                    "lines_total": len(lines_d), "lines_exec": sum(1 for v in lines_d.values() if v > 0),
                    "regions_total": len(regions_d), "regions_exec": sum(1 for v in regions_d.values() if v > 0),
                    "unc_lines": sorted(l for l, v in lines_d.items() if v == 0),
                    "exec_lines": sorted(l for l, v in lines_d.items() if v > 0),
                    "unc_regions": sorted(list(k) for k, v in regions_d.items() if v == 0),
                }
            rec2 = {"key": rec["key"], "file": rf, "name": rec["name"], "ctx": rec["ctx"], "l1": rec["l1"], "l2": rec["l2"],
                    "scope": scope, "anchored_by": why, "excluded": excl}
            rec2.update(view(rec["lines"], rec["regions"]))
            if "mechanism" in scope and not whole:
                inr = lambda l: any(a <= l <= b for a, b in parts)
                rec2["mech_ranges"] = parts
                rec2["mech"] = view({l: v for l, v in rec["lines"].items() if inr(l)},
                                    {k: v for k, v in rec["regions"].items() if inr(k[0])})
            result["functions"].append(rec2)
    # scope totals
    for sc in ("mechanism", "files"):
        fs = [vw(f, sc) for f in result["functions"] if sc in f["scope"] and not f["excluded"]]
        # an anchored range that holds no executable line of the function any more (code removed by a repair)
        fs = [f for f in fs if f["lines_total"] or f["regions_total"]]
        tot = sum(f["lines_total"] for f in fs)
        ex = sum(f["lines_exec"] for f in fs)
        result[sc] = {
            "functions": len(fs), "functions_executed": sum(1 for f in fs if f["executed"]),
            "lines_total": tot, "lines_exec": ex, "percent": round(100.0 * ex / tot, 1) if tot else None,
            "regions_total": sum(f["regions_total"] for f in fs), "regions_exec": sum(f["regions_exec"] for f in fs),
            "never_executed_functions": [f["key"] for f in fs if not f["executed"]],
        }
    json.dump(result, open(os.path.join(COV, pid + ".cov.json"), "w"), indent=0)
    write_uncovered(pid, result, os.path.join(COV, pid + ".uncovered.txt"), prop)
    write_uncovered(pid, result, os.path.join(COV, pid + ".brief.txt"), prop, scopes=("mechanism",), brief=True)
    return result


def vw(f, sc):
    """the function record restricted to the scope: inside a larger function only the anchored line ranges count"""
    if sc == "mechanism" and f.get("mech"):
        g = dict(f)
        g.update(f["mech"])
        return g
    return f


def runs(nums, gap_ok):
    """group sorted line numbers into runs; two lines join when every line between them satisfies gap_ok"""
    out = []
    for x in nums:
        if out and all(gap_ok(y) for y in range(out[-1][1] + 1, x)):
            out[-1][1] = x
        else:
            out.append([x, x])
    return out


def write_uncovered(title, result, path, prop=None, scopes=("mechanism", "files"), brief=False):
    """brief: the mechanism scope only, never-executed functions by name only, no `?` error edges"""
    with open(path, "w") as o:
        o.write("# %s: code of routecore NEVER executed by the quick-tier harness run(s)  (%s, repo %s)\n" % (title, result["date"], result["repo"]))
        if prop:
            o.write("# %s\n" % prop.get("title", ""))
        for sc in scopes:
            s = result.get(sc)
            if not s:
                continue
            o.write("# scope %-9s: %d/%d functions executed, %d/%d lines (%s%%), %d/%d regions\n" % (
                sc, s["functions_executed"], s["functions"], s["lines_exec"], s["lines_total"], s["percent"], s["regions_exec"], s["regions_total"]))
        o.write("# excluded (Display/Debug, serde, arbitrary impls the property does not name): %d functions\n" % sum(1 for f in result["functions"] if f["excluded"] and f["scope"]))
        for sc in scopes:
            o.write("\n\n######## scope: %s ########\n" % sc)
            fs = [vw(f, sc) for f in result["functions"] if sc in f["scope"] and not f["excluded"]]
            fs = [f for f in fs if f["lines_total"] or f["regions_total"]]
            if sc == "files":
                o.write("# (functions already listed under `mechanism` are not repeated, unless only some of their lines are anchored there)\n")
                fs = [f for f in fs if "mechanism" not in f["scope"] or f.get("mech")]
            never = [f for f in fs if not f["executed"]]
            o.write("\n## functions never executed (%d)\n" % len(never))
            for f in never:
                o.write("   %s:%d-%d  fn %s  [%s]  (%d lines)\n" % (f["file"], f["l1"], f["l2"], f["name"], f["ctx"], f["lines_total"]))
            o.write("\n## uncovered code, function by function\n")
            for f in fs:
                if not f["unc_lines"] and not f["unc_regions"]:
                    continue
                src = file_items(f["file"])[1]
                if brief and (not f["executed"] or (not f["unc_lines"] and all(
                        (src[r[0] - 1][r[1] - 1:r[3] - 1] if r[0] == r[2] and r[0] - 1 < len(src) else "x").strip() in ("?", "") for r in f["unc_regions"]))):
                    continue
                o.write("\n== %s:%d-%d  fn %s  [%s]\n" % (f["file"], f["l1"], f["l2"], f["name"], f["ctx"]))
                if f["anchored_by"] and sc == "mechanism":
                    o.write("   anchored by: %s\n" % "; ".join(f["anchored_by"]))
                    if f.get("mech"):
                        o.write("   (only the anchored lines %s of this function are counted)\n" % ", ".join("%d-%d" % (a, b) for a, b in f["mech_ranges"]))
                o.write("   %s: lines %d/%d executed, regions %d/%d\n" % (
                    "NEVER EXECUTED" if not f["executed"] else "partly executed", f["lines_exec"], f["lines_total"], f["regions_exec"], f["regions_total"]))
                execl = set(f["exec_lines"])
                unc = set(f["unc_lines"])
                if not f["executed"] and brief:
                    continue
                if not f["executed"]:
                    # whole function: print its source once, capped
                    for ln in range(f["l1"], min(f["l2"], f["l1"] + 40) + 1):
                        o.write("   %5d | %s\n" % (ln, src[ln - 1] if ln - 1 < len(src) else ""))
                    if f["l2"] > f["l1"] + 40:
                        o.write("         | ... (%d more lines)\n" % (f["l2"] - f["l1"] - 40))
                    continue
                for a, b in runs(sorted(unc), lambda y: y not in execl):
                    o.write("   %s:%d%s  never executed\n" % (f["file"], a, "-%d" % b if b != a else ""))
                    for ln in range(a, min(b, a + 30) + 1):
                        o.write("   %5d | %s\n" % (ln, src[ln - 1] if ln - 1 < len(src) else ""))
                    if b > a + 30:
                        o.write("         | ... (%d more lines)\n" % (b - a - 30))
                # regions without execution that start on an executed line (`?` branches, `||` operands, else arms ..)
                for l1, c1, l2, c2 in f["unc_regions"]:
                    if l1 in execl:
                        if l1 == l2:
                            text = src[l1 - 1][c1 - 1:c2 - 1] if l1 - 1 < len(src) else ""
                        else:
                            text = (src[l1 - 1][c1 - 1:] if l1 - 1 < len(src) else "") + " ..."
                        text = text.strip()
                        if not text or (brief and text == "?"):
                            continue
                        o.write("   %s:%d:%d-%d:%d  part of an executed line, never executed: `%s`\n" % (f["file"], l1, c1, l2, c2, text[:160]))
                        if l1 != l2 or len(text) < 4:
                            o.write("   %5d | %s\n" % (l1, src[l1 - 1] if l1 - 1 < len(src) else ""))


# --------------------------------------------------------------------------------------------------
def summary():
    res = {"date": datetime.date.today().isoformat(), "repo": REPO, "properties": {}, "union": {}}
    union_fn = {}
    have = []
    for pid in ALL_PROPS:
        p = os.path.join(COV, pid + ".cov.json")
        if not os.path.exists(p):
            continue
        have.append(pid)
        r = json.load(open(p))
        m = r["mechanism"]
        res["properties"][pid] = {
            "anchored_lines": m["lines_total"], "executed": m["lines_exec"], "percent": m["percent"],
            "anchored_functions": m["functions"], "anchored_functions_executed": m["functions_executed"],
            "anchored_regions": m["regions_total"], "anchored_regions_executed": m["regions_exec"],
            "never_executed_anchored_functions": m["never_executed_functions"],
            "anchor_files": {k: r["files"][k] for k in ("functions", "functions_executed", "lines_total", "lines_exec", "percent")},
            "date": r["date"],
        }
        for f in r["functions"]:
            u = union_fn.get(f["key"])
            if u is None:
                u = union_fn[f["key"]] = {k: f[k] for k in ("key", "file", "name", "ctx", "l1", "l2")}
                u["excluded"] = f["excluded"]
                u["lines"] = {}
                u["regions"] = {}
                u["by"] = []
                u["anchored_in"] = []
            if f["excluded"] is None:
                u["excluded"] = None
            for l in f["unc_lines"]:
                u["lines"].setdefault(l, 0)
            for l in f["exec_lines"]:
                u["lines"][l] = 1
            uncr = set(tuple(x) for x in f["unc_regions"])
            for k in uncr:
                u["regions"].setdefault(k, 0)
            if f["executed"]:
                u["by"].append(pid)
            if "mechanism" in f["scope"]:
                u["anchored_in"].append(pid)
            u.setdefault("regions_total", f["regions_total"])
            u["_exec_regions"] = max(u.get("_exec_regions", 0), f["regions_exec"])
    # union view
    files = {}
    fns = []
    for k, u in sorted(union_fn.items(), key=lambda kv: (kv[1]["file"], kv[1]["l1"])):
        tot = len(u["lines"])
        ex = sum(1 for v in u["lines"].values() if v)
        ff = files.setdefault(u["file"], {"lines_total": 0, "lines_exec": 0, "functions": 0, "functions_executed": 0, "never_executed_functions": []})
        if u["excluded"]:
            continue
        ff["lines_total"] += tot
        ff["lines_exec"] += ex
        ff["functions"] += 1
        if u["by"]:
            ff["functions_executed"] += 1
        else:
            ff["never_executed_functions"].append(k)
        fns.append(u)
    for f, ff in files.items():
        ff["percent"] = round(100.0 * ff["lines_exec"] / ff["lines_total"], 1) if ff["lines_total"] else None
    res["union"] = {"runs": have, "files": files,
                    "lines_total": sum(f["lines_total"] for f in files.values()),
                    "lines_exec": sum(f["lines_exec"] for f in files.values())}
    t = res["union"]
    t["percent"] = round(100.0 * t["lines_exec"] / t["lines_total"], 1) if t["lines_total"] else None
    json.dump(res, open(os.path.join(COV, "summary.json"), "w"), indent=1)
    # ALL.uncovered.txt
    with open(os.path.join(COV, "ALL.uncovered.txt"), "w") as o:
        o.write("# union of the quick-tier harness runs of %s: code under src/ that NO property's tie executes\n" % " ".join(have))
        o.write("# %d/%d lines executed (%s%%)\n" % (t["lines_exec"], t["lines_total"], t["percent"]))
        for f, ff in sorted(files.items()):
            o.write("#   %-40s %5d/%5d lines %5s%%   functions %d/%d\n" % (f, ff["lines_exec"], ff["lines_total"], ff["percent"], ff["functions_executed"], ff["functions"]))
        cur = None
        for u in fns:
            unc = sorted(l for l, v in u["lines"].items() if not v)
            if not unc:
                continue
            if u["file"] != cur:
                cur = u["file"]
                o.write("\n\n######## %s ########\n" % cur)
            src = file_items(u["file"])[1]
            execl = set(l for l, v in u["lines"].items() if v)
            o.write("\n== %s:%d-%d  fn %s  [%s]%s\n" % (u["file"], u["l1"], u["l2"], u["name"], u["ctx"],
                                                      "  anchored in: " + ",".join(u["anchored_in"]) if u["anchored_in"] else ""))
            if not u["by"]:
                o.write("   NEVER EXECUTED by any run (%d lines)\n" % len(unc))
                for ln in range(u["l1"], min(u["l2"], u["l1"] + 12) + 1):
                    o.write("   %5d | %s\n" % (ln, src[ln - 1] if ln - 1 < len(src) else ""))
                if u["l2"] > u["l1"] + 12:
                    o.write("         | ... (%d more lines)\n" % (u["l2"] - u["l1"] - 12))
                continue
            o.write("   executed by: %s\n" % ",".join(u["by"]))
            for a, b in runs(unc, lambda y: y not in execl):
                o.write("   %s:%d%s  never executed\n" % (u["file"], a, "-%d" % b if b != a else ""))
                for ln in range(a, min(b, a + 20) + 1):
                    o.write("   %5d | %s\n" % (ln, src[ln - 1] if ln - 1 < len(src) else ""))
                if b > a + 20:
                    o.write("         | ... (%d more lines)\n" % (b - a - 20))
    return res


def record(pids):
    exp = json.load(open(EXPECTED)) if os.path.exists(EXPECTED) else {}
    for pid in pids:
        p = os.path.join(COV, pid + ".cov.json")
        if not os.path.exists(p):
            continue
        r = json.load(open(p))
        exp[pid] = sorted(f["key"] for f in r["functions"] if "mechanism" in f["scope"] and not f["excluded"] and vw(f, "mechanism")["executed"])
    json.dump(exp, open(EXPECTED, "w"), indent=0, sort_keys=True)
    print("recorded %s" % " ".join(pids))


def check(pids):
    if not os.path.exists(EXPECTED):
        print("tie-coverage: no recorded baseline (tools/tie_coverage_expected.json)")
        return 0
    exp = json.load(open(EXPECTED))
    rc = 0
    for pid in pids:
        p = os.path.join(COV, pid + ".cov.json")
        if pid not in exp or not os.path.exists(p):
            continue
        r = json.load(open(p))
        now = {f["key"]: vw(f, "mechanism") for f in r["functions"] if "mechanism" in f["scope"]}
        lost = []
        for k in exp[pid]:
            f = now.get(k)
            # a function that no longer exists (renamed, removed, moved) is new code, not a generator regression
            if f is not None and not f["executed"]:
                lost.append(k)
        if lost:
            rc = 1
            print("TIE-COVERAGE-REGRESSION property=%s: %d anchored function(s) that the recorded quick-tier run executed are no longer executed at all:" % (pid, len(lost)))
            for k in lost:
                print("   " + k)
        else:
            m = r["mechanism"]
            print("tie-coverage %s: ok (%d/%d anchored functions, %d/%d anchored lines = %s%%; every function of the recorded baseline is still executed)" % (
                pid, m["functions_executed"], m["functions"], m["lines_exec"], m["lines_total"], m["percent"]))
    return rc


def props_update(pids):
    for pid in pids:
        p = os.path.join(COV, pid + ".cov.json")
        q = os.path.join(VERIF, "tools", "props", pid + ".json")
        if not os.path.exists(p) or not os.path.exists(q):
            continue
        r = json.load(open(p))
        conf = json.load(open(q))
        old = conf.get("tie_coverage", {})
        m = r["mechanism"]
        tc = {
            "anchored_lines": m["lines_total"], "executed": m["lines_exec"], "percent": m["percent"],
            "anchored_functions": m["functions"], "anchored_functions_executed": m["functions_executed"],
            "anchor_files_lines": r["files"]["lines_total"], "anchor_files_executed": r["files"]["lines_exec"], "anchor_files_percent": r["files"]["percent"],
            "date": r["date"],
            "how": "tools/tie_coverage.sh %s: quick-tier harness run (seed 1) under -C instrument-coverage; lines of the functions named by anchors.mechanism of properties.jsonl; Display/Debug/serde impls excluded unless the property names them" % pid,
            "uncovered_relevant": old.get("uncovered_relevant", []),
            "classification": old.get("classification", "notes/dp-coverage.md"),
        }
        conf["tie_coverage"] = tc
        # keep "manifest" last, as the files are written by hand that way
        if "manifest" in conf:
            man = conf.pop("manifest")
            conf["manifest"] = man
        with open(q, "w") as f:
            json.dump(conf, f, indent=1, ensure_ascii=False)
            f.write("\n")
        print("%s: %d/%d lines %s%%" % (pid, tc["executed"], tc["anchored_lines"], tc["percent"]))


def main():
    a = sys.argv[1:]
    if not a:
        print(__doc__)
        return 2
    cmd, rest = a[0], a[1:]
    if cmd == "process":
        for pid in rest:
            r = process(pid)
            m = r["mechanism"]
            f = r["files"]
            print("%s: anchored (mechanism) %d/%d functions, %d/%d lines = %s%%; anchor files %d/%d lines = %s%%; never-executed anchored functions: %d" % (
                pid, m["functions_executed"], m["functions"], m["lines_exec"], m["lines_total"], m["percent"],
                f["lines_exec"], f["lines_total"], f["percent"], len(m["never_executed_functions"])))
        return 0
    if cmd == "summary":
        summary()
        return 0
    if cmd == "record":
        record(rest or ALL_PROPS)
        return 0
    if cmd == "check":
        return check(rest or ALL_PROPS)
    if cmd == "props":
        props_update(rest or ALL_PROPS)
        return 0
    print(__doc__)
    return 2


if __name__ == "__main__":
    sys.exit(main())
