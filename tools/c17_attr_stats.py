#!/usr/bin/env python3
"""Distribution of what reaches PaMap::from_update_pdu in the C17 run (after ./check C17).

For every `fu*` / `mu*` token whose reply is `Fok|..` / `Mok|..`: every attribute of the PDU that the map
holds (first of repeated ones, no MP_REACH / MP_UNREACH), keyed by session suffix ('' four-octet, '2'
two-octet, 'a' ADD-PATH, '2a') x type code x kind (t typed, i malformed, u unrecognised, as the reply
prints the map) x length encoding on input (1, 2 = over 255 octets, 2s = EXTENDED_LEN on <= 255).
"""
import sys, collections, re
TYPED = [1, 2, 3, 4, 5, 6, 7, 8, 9, 10, 16, 17, 18, 20, 21, 25, 32, 35, 128, 255]
MIN = 3
def walk(b):
    out = []; i = 0
    while i < len(b):
        if i + 3 > len(b): return None
        fl, code = b[i], b[i + 1]
        if fl & 0x10:
            if i + 4 > len(b): return None
            ln, h = int.from_bytes(b[i + 2:i + 4], 'big'), 4
        else: ln, h = b[i + 2], 3
        if i + h + ln > len(b): return None
        out.append((fl, code, ln)); i += h + ln
    return out
d = sys.argv[1] if len(sys.argv) > 1 else 'work/C17'
ops = open(d + '/ops.txt').read().split('\n'); rep = open(d + '/impl.out').read().split('\n')
tab = collections.Counter()
for l, r in zip(ops, rep):
    lt, rt = l.split(' ')[1:], r.split(' ')
    if len(lt) != len(rt): continue
    for t, x in zip(lt, rt):
        m = re.match(r'^(fu|mu)(2?a?):([0-9a-f]+)$', t)
        if not m or not re.match(r'^[FM]ok\|', x): continue
        pdu = bytes.fromhex(m.group(3))
        if len(pdu) < 23: continue
        wl = int.from_bytes(pdu[19:21], 'big'); p = 21 + wl
        al = int.from_bytes(pdu[p:p + 2], 'big'); src = walk(pdu[p + 2:p + 2 + al])
        if src is None: continue
        state = x.split('|', 1)[1].split('#')[0]
        kinds = {}
        for e in state.split(';'):
            if '=' in e:
                c, v = e.split('=', 1)
                if c.isdigit(): kinds[int(c)] = v[0]
        if m.group(1) == 'mu': continue        # merged state: not attributable to this PDU alone
        seen = set()
        for fl, code, ln in src:
            if code in (14, 15) or code in seen: continue
            seen.add(code)
            k = kinds.get(code)
            if k is None: continue
            enc = '2' if ln > 255 else ('2s' if fl & 0x10 else '1')
            tab[(m.group(2), code if code in TYPED else 'other', k, enc)] += 1
low = []
for sess in ('', '2', 'a', '2a'):
    print("\nsession '%s': code kind  1-octet  2-octet(>255)  2-octet(short)" % sess)
    for code in TYPED + ['other']:
        for kind in (('t', 'i') if code != 'other' else ('u',)):
            row = [tab[(sess, code, kind, e)] for e in ('1', '2', '2s')]
            print('  %5s  %s %8d %8d %8d' % (code, kind, *row))
            fixed = code in (1, 3, 4, 5, 6, 7, 9, 18, 20, 21, 35)
            for e, n in zip(('1', '2', '2s'), row):
                impossible = (kind == 't' and e == '2' and fixed) or (kind == 'i' and (code == 255 or (code == 128 and e == '2')))
                if n < MIN and not impossible: low.append((sess, code, kind, e, n))
print('\nclasses with fewer than %d hits: %d' % (MIN, len(low)))
for x in low: print("  session '%s' code %s %s enc %s: %d" % x)
