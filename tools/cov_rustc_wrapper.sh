#!/bin/sh
# RUSTC_WRAPPER used by tools/tie_coverage.sh: adds source-based coverage instrumentation to the
# crates whose execution is measured (routecore = the code under verification; rc_harness = the
# binary, which must be instrumented too so that the profiler runtime is linked in).  Every other
# crate is compiled as usual (faster build, smaller profiles).
rustc="$1"; shift
inst=0
prev=""
for a in "$@"; do
  if [ "$prev" = "--crate-name" ]; then
    case "$a" in routecore|rc_harness) inst=1 ;; esac
  fi
  prev="$a"
done
if [ "$inst" = 1 ]; then
  exec "$rustc" "$@" -C instrument-coverage
else
  exec "$rustc" "$@"
fi
