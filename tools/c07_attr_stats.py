#!/usr/bin/env python3
"""Distribution of what reaches the three re-encoding routes of C07 (and, with C17, the attribute map).

usage: tools/c07_attr_stats.py [work/C07]     (after ./check C07)

For every accepted `re` / `re2` / `re2w` line: every attribute of the request, keyed by
  session (4 = four-octet, 2 = two-octet) x type code x kind x length encoding on input
kind: typed (re-encoded without the partial bit), malformed (recognised code, partial bit added),
unrecognised (code outside the 20 typed ones); read off the D route's output, attribute by attribute.
encoding: 1 = one-octet length, 2 = two-octet length needed (> 255), 2s = EXTENDED_LEN on a value <= 255.
Prints the table and the classes with fewer than MIN hits.
"""
import sys, collections
TYPED = [1, 2, 3, 4, 5, 6, 7, 8, 9, 10, 16, 17, 18, 20, 21, 25, 32, 35, 128, 255]
MIN = 3
def walk(b):
    out = []; i = 0
    while i < len(b):
        if i + 3 > len(b): return None
        fl, code = b[i], b[i + 1]
        if fl & 0x10:
            if i + 4 > len(b): return None
            ln, h = int.from_bytes(b[i + 2:i + 4], 'big'), 4
        else: ln, h = b[i + 2], 3
        if i + h + ln > len(b): return None
        out.append((fl, code, ln)); i += h + ln
    return out
d = sys.argv[1] if len(sys.argv) > 1 else 'work/C07'
ops = open(d + '/ops.txt').read().split('\n'); rep = open(d + '/impl.out').read().split('\n')
tab = collections.Counter(); routes = collections.Counter()
for l, r in zip(ops, rep):
    t = l.split(' ')
    if t[0] not in ('re', 're2', 're2w') or not r.startswith('ok '): continue
    sess = '4' if t[0] == 're' else '2'
    src = walk(bytes.fromhex(t[1]) if t[1] != '-' else b'')
    rt = r.split('\t')[0].split(' ')
    for x in rt[1:]: routes[(sess, x[0], 'err' if x.endswith('err') else 'ok')] += 1
    if src is None or rt[1].endswith('err'): continue
    dh = rt[1][1:].split('#')[0]
    dst = walk(bytes.fromhex(dh) if dh != '-' else b'')
    if dst is None or len(dst) != len(src): continue
    for (fl, code, ln), (gfl, _, _) in zip(src, dst):
        kind = 'unrecognised' if code not in TYPED else ('malformed' if gfl & 0x20 else 'typed')
        enc = '2' if ln > 255 else ('2s' if fl & 0x10 else '1')
        tab[(sess, code if code in TYPED else 'other', kind, enc)] += 1
print('routes (session, route, outcome):', dict(sorted(routes.items())))
low = []
for sess in '42':
    print('\nsession %s-octet: code  kind          1-octet  2-octet(>255)  2-octet(short)' % sess)
    for code in TYPED + ['other']:
        for kind in (('typed', 'malformed') if code != 'other' else ('unrecognised',)):
            row = [tab[(sess, code, kind, e)] for e in ('1', '2', '2s')]
            print('  %5s  %-12s %8d %8d %8d' % (code, kind, *row))
            for e, n in zip(('1', '2', '2s'), row):
                # a value over 255 octets cannot be a well-formed value of a fixed-size kind
                fixed = code in (1, 3, 4, 5, 6, 7, 9, 18, 20, 21, 35)
                impossible = (kind == "typed" and e == "2" and fixed) or (kind == "malformed" and (code == 255 or (code == 128 and e == "2")))
                if n < MIN and not impossible: low.append((sess, code, kind, e, n))
print('\nclasses with fewer than %d hits:' % MIN)
for x in low: print('  session %s code %s %s enc %s: %d' % x)
