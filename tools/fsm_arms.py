#!/usr/bin/env python3
"""Inventory of the arms of Session::handle_event (C08, DESIGN.md section 4 T3).

usage: fsm_arms.py <repo> <expected.json> [--write]

Lists every `(S::State, E::Event | ...) =>` arm head of `handle_event` in
src/bgp/fsm/session.rs with the events it names and how `todo!()` occurs in its
body (`always`: at the top level of the arm, `conditional`: inside an `if`,
`never`), and compares the list with the committed inventory that the model's
transition table (Rc/Model/Fsm.lean `arm`, Rc/Thm/C08.lean `isTodoArm`) was
written from.  An arm that appears, disappears, names other events or changes
its todo-status breaks the tie before the exhaustive injection even runs.
The comparison is by (state, event) PAIR (first arm wins, as in `match`): arms that
are merged into an or-pattern over states or events, or split, with the same
todo-status are a note, not a difference.
"""
import json
import re
import sys


def strip_comments(src):
    out, i, n = [], 0, len(src)
    while i < n:
        if src.startswith("//", i):
            j = src.find("\n", i)
            i = n if j < 0 else j
        elif src.startswith("/*", i):
            j = src.find("*/", i)
            i = n if j < 0 else j + 2
        elif src[i] == '"':
            j = i + 1
            while j < n and src[j] != '"':
                j += 2 if src[j] == "\\" else 1
            out.append('""')
            i = j + 1
        else:
            out.append(src[i])
            i += 1
    return "".join(out)


def inventory(repo):
    src = open(repo + "/src/bgp/fsm/session.rs").read()
    a = src.index("async fn handle_event(")
    b = src.index("//------------ Messages & Commands", a)
    body = strip_comments(src[a:b])
    m = re.search(r"match\s*\(self\.state\(\),\s*&event\)\s*\{", body)
    body = body[m.end():]
    # the state part may be an or-pattern: `(S::OpenSent | S::OpenConfirm | S::Established, E::ManualStop) =>`
    heads = list(re.finditer(r"\(\s*((?:S::\w+(?:\(_\))?\s*\|\s*)*S::\w+(?:\(_\))?)\s*,([^()]*(?:\([^()]*\)[^()]*)*)\)\s*=>", body))
    arms = []
    for k, h in enumerate(heads):
        end = heads[k + 1].start() if k + 1 < len(heads) else len(body)
        text = body[h.end():end]
        events = sorted(set(re.findall(r"E::(\w+)", h.group(2)))) or ["_"]
        # nesting depth of each todo!() relative to the arm body
        depth, todo_depths = 0, []
        i = 0
        while i < len(text):
            if text.startswith("todo!()", i):
                todo_depths.append(depth)
                i += 7
                continue
            if text[i] == "{":
                depth += 1
            elif text[i] == "}":
                depth -= 1
            i += 1
        if not todo_depths:
            todo = "never"
        elif min(todo_depths) <= 1:
            todo = "always"
        else:
            todo = "conditional"
        for st in re.findall(r"S::(\w+)", h.group(1)):
            arms.append({"state": st, "events": events, "todo": todo})
    return arms


def pairs(arms):
    """(state, event) -> todo-status, the first arm that names the pair wins (match semantics; `_` = every event
    no earlier arm of the state names).  Two inventories with the same pairs differ only in how the arms are
    grouped: merging `(S::A, E::X) => f()` and `(S::B, E::X) => f()` into `(S::A | S::B, E::X)`, or splitting
    an arm, adds and removes no transition."""
    d = {}
    for a in arms:
        for e in a["events"]:
            d.setdefault((a["state"], e), a["todo"])
    return d


def main():
    repo, exp = sys.argv[1], sys.argv[2]
    arms = inventory(repo)
    if "--write" in sys.argv:
        json.dump(arms, open(exp, "w"), indent=0)
        print("wrote %d arms" % len(arms))
        return 0
    want = json.load(open(exp))
    have_d, want_d = pairs(arms), pairs(want)
    bad = []
    for k in sorted(set(have_d) | set(want_d)):
        if k not in want_d:
            bad.append("new transition (S::%s, E::%s) todo=%s" % (k[0], k[1], have_d[k]))
        elif k not in have_d:
            bad.append("transition gone (S::%s, E::%s)" % k)
        elif have_d[k] != want_d[k]:
            bad.append("transition (S::%s, E::%s): todo!() %s, inventory says %s" % (k[0], k[1], have_d[k], want_d[k]))
    regrouped = sorted((a["state"], tuple(a["events"])) for a in arms) != sorted((a["state"], tuple(a["events"])) for a in want)
    if bad:
        print("handle_event no longer matches the inventory the model was written from: " + "; ".join(bad))
        return 1
    if regrouped:
        print("fsm_arms note: the arms of handle_event are grouped differently from the inventory (same (state, event) pairs, same todo-status): re-record with --write")
    print("handle_event: %d arms, %d (state, event) pairs match the inventory" % (len(arms), len(have_d)))
    return 0


if __name__ == "__main__":
    sys.exit(main())
