#!/bin/bash
# tools/run_all.sh [quick|thorough]: run every claimed check once, print one line each.
TIER=${1:-quick}
cd "$(dirname "$0")/.."
for id in $(python3 -c "import json; print(' '.join(c['property_id'] for c in json.load(open('MANIFEST.json'))['checks']))"); do
  s=$(date +%s)
  out=$(./check $id --tier $TIER 2>&1); rc=$?
  e=$(date +%s)
  echo "$id rc=$rc $((e-s))s $(echo "$out" | grep -E '^(OK|VIOLATION)' | head -2 | cut -c1-160 | tr '\n' ' ')"
done
