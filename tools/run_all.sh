#!/bin/bash
# tools/run_all.sh [quick|thorough] [Cxx ...]: run every claimed check (or the ones named) once, print one line each.
# RUN_ALL_LOG=dir keeps the complete output of each check in dir/Cxx.txt.
TIER=${1:-quick}; shift
cd "$(dirname "$0")/.."
ids=${@:-$(python3 -c "import json; print(' '.join(c['property_id'] for c in json.load(open('MANIFEST.json'))['checks']))")}
for id in $ids; do
  s=$(date +%s)
  out=$(./check $id --tier $TIER 2>&1); rc=$?
  e=$(date +%s)
  [ -n "$RUN_ALL_LOG" ] && { mkdir -p "$RUN_ALL_LOG"; echo "$out" > "$RUN_ALL_LOG/$id.txt"; }
  echo "$id rc=$rc $((e-s))s $(echo "$out" | grep -E '^(OK|VIOLATION)' | head -2 | cut -c1-160 | tr '\n' ' ')"
done
