#!/bin/bash
# tools/seed_regress.sh [id...]: apply each stored seeded change to the repository this tree's ./check reads
# (/repo; a tools/mkws.sh workspace: its own worktree), run the check of its property, expect exit 1 +
# VIOLATION, undo the change. Prints one line per seed.
cd "$(dirname "$0")/.."
REPO=$(python3 -c "import re;print(re.search(r'^REPO = \"([^\"]+)\"', open('check').read(), re.M).group(1))")
ids=${@:-$(ls seeded)}
for sid in $ids; do
  prop=$(python3 -c "import json;print(json.load(open('seeded/$sid/meta.json'))['property'])")
  if ! git -C $REPO apply "$PWD/seeded/$sid/patch.diff" 2>/dev/null; then echo "$sid: PATCH DOES NOT APPLY"; continue; fi
  out=$(./check $prop 2>&1); rc=$?
  git -C $REPO checkout -- .
  v=$(echo "$out" | grep -c '^VIOLATION')
  nf=$(echo "$out" | grep -c 'no-failing-input-found')
  echo "$sid: property=$prop rc=$rc violations=$v no-failing-input=$nf"
done
