"""Per-property configuration of ./check, loaded from tools/props/Cxx.json
(what to pre-generate, what is trusted, how cases are counted, MANIFEST texts)."""
import glob
import json
import os

COMMON_TB = [
    "Lean 4.33.0 kernel (thorough tier: re-checked by leanchecker); axioms per theorem are listed under coverage.axioms and are a subset of {propext, Classical.choice, Quot.sound}; no native_decide, no bv_decide, no axioms of our own",
    "hand-written Lean model tied to /repo by differential execution on this run's request lines (rc-harness links the current working tree; rcdriver is the compiled model)",
    "the Rust harness (generators, canonicalisation, oracle) and the Lean compiler (for the correspondence step only)",
]

PROPS = {}
TEXT = {}
_here = os.path.dirname(os.path.abspath(__file__))
for _p in sorted(glob.glob(os.path.join(_here, "props", "C*.json"))):
    _d = json.load(open(_p))
    _pid = os.path.basename(_p)[:-5]
    if _d.pop("common_tb", True):
        _d["trusted_base"] = COMMON_TB + _d.get("trusted_base", [])
    TEXT[_pid] = _d.pop("manifest")
    PROPS[_pid] = _d
