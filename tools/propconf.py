"""Per-property configuration of ./check (what to pre-generate, what is trusted, how cases are counted)."""

COMMON_TB = [
    "Lean 4.33.0 kernel (thorough tier: re-checked by leanchecker); axioms per theorem are listed under coverage.axioms and are a subset of {propext, Classical.choice, Quot.sound}; no native_decide, no bv_decide, no axioms of our own",
    "hand-written Lean model tied to /repo by differential execution on this run's request lines (rc-harness links the current working tree; rcdriver is the compiled model)",
    "the Rust harness (generators, canonicalisation, oracle) and the Lean compiler (for the correspondence step only)",
]

PROPS = {
    "C15": {
        "trusted_base": COMMON_TB + [
            "modelled, not verified: octseq::Parser (as buffer + position), chrono's timestamp_opt acceptance rule (validated differentially), String::from_utf8_lossy (only ASCII-ness is observed)",
        ],
        "assumptions": [
            "the embedded UPDATE of a RouteMonitoring message is decoded by UpdateMessage::parse (properties C01/C02); here only that bgp_update() agrees with decoding the same bytes on their own is checked (oracle)",
            "session_config()/pph_session_config()/supported_protocols() of PeerUp are covered by C12/C03 (capability accessors), not here",
        ],
        "rule": "7 message types x {valid from a type-directed generator with embedded OPEN pairs / NOTIFICATIONs / UPDATEs / statistics of all 18 defined types + unknown ones / TLV lists / termination reasons; 1 mutation; 2-4 mutations; random bytes} (mutations: bit flips, truncation, extension, header-length edits to 0/3/5/6/max/+-, type byte edits, byte insert/delete); corpus of past failures first. non-trivial = accepted by from_octets (every accessor group then runs) - distinct request lines counted",
        "partial": "faithfulness theorems are proved per accessor against the reference encoder for the per-peer header, statistics, TLVs, termination and peer-down fields; the embedded BGP PDUs are returned byte for byte (theorem) and their *decoding* is C01/C03's subject",
    },
    "C18": {
        "pre": [["python3", "tools/gen_codepoints.py", "/repo", "lean/Rc/Gen/Codepoints.lean", "work/codepoint_fingerprints.json"]],
        "trusted_base": COMMON_TB + [
            "translator tools/gen_codepoints.py (typeenum!/afisafi!/path_attributes! invocations, Header::msg_type, AddpathDirection, SegmentType, details()/raw() match arms -> Lean tables); the generic semantics of the typeenum!/afisafi! macro bodies in Rc/Model/Codepoint.lean is hand-written and validated exhaustively on this run",
        ],
        "assumptions": [
            "rustc's integer literal and match semantics (first matching arm wins)",
            "derive(Debug) output identifies the enum variant",
        ],
        "rule": "exhaustive: every u8/u16 value of each of the 23 enumerations through the real From/Into, all 65536 (code, subcode) pairs through NotificationMessage::details -> Details::raw, all 256 bytes through Header::msg_type / AddpathDirection / SegmentType, all SAFIs for 13 AFIs + 2000 random pairs + a sweep over AFI 0..1023 x all SAFIs (thorough: all 2^24 pairs). non-trivial = the value maps to a named or range variant (not the plain catch-all)",
        "exhaustive": "all values of all u8/u16 enumerations and all (code, subcode) pairs; AFI/SAFI pairs exhaustive in the thorough tier",
    },
}
