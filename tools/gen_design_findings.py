#!/usr/bin/env python3
"""Regenerates the table of repairs and recorded findings in DESIGN.md (between the markers
<!-- findings:begin --> and <!-- findings:end -->) from known_findings.jsonl."""
import json, os, re
V = os.path.dirname(os.path.dirname(os.path.abspath(__file__)))
rows_fixed, rows_known = [], []
for line in open(os.path.join(V, "known_findings.jsonl")):
    if not line.strip():
        continue
    d = json.loads(line)
    what = re.sub(r"\s+", " ", d.get("what", "")).replace("|", "\\|")
    if len(what) > 260:
        what = what[:257] + "..."
    if d.get("kind") == "fixed":
        rows_fixed.append("| %s | %s | `%s` | %s |" % (d["property"], d.get("id", ""), d.get("commit", "?"), what))
    else:
        rows_known.append("| %s | %s | `%s` | %s |" % (d["property"], d.get("id", ""), d.get("match", "").replace("|", "\\|"), what))
block = ["<!-- findings:begin -->",
         "%d defects of routecore were repaired by individual `fix:` commits in /repo (each with the unedited baseline suite still passing: 121 tests with default features, 132 with all features) and %d are recorded as known findings:" % (len(rows_fixed), len(rows_known)),
         "", "| property | id | commit | what failed |", "|---|---|---|---|"] + sorted(rows_fixed) + [
         "", "Known findings (reported as `KNOWN-FINDING`, never as `VIOLATION`; the regex is matched against the request line):",
         "", "| property | id | request-line regex | what fails |", "|---|---|---|---|"] + sorted(rows_known) + ["<!-- findings:end -->"]
p = os.path.join(V, "DESIGN.md")
s = open(p).read()
new = "\n".join(block)
if "<!-- findings:begin -->" in s:
    s = re.sub(r"<!-- findings:begin -->.*?<!-- findings:end -->", lambda m: new, s, flags=re.S)
else:
    marker = "`known_findings.jsonl` is the authoritative list"
    i = s.index(marker)
    j = s.index("\n\n", i)
    s = s[:j] + "\n\n" + new + s[j:]
open(p, "w").write(s)
print("fixed:", len(rows_fixed), "known:", len(rows_known))
