#!/bin/bash
# tools/seed_eval.sh <Cxx> <outdir> [features]: confirm a seeded change in a scratch worktree, then
# run ./check Cxx against /repo with the change applied, and undo it.
ID=$1; OUT=$2; FEAT=${3:-}
WT=/tmp/seed/eval-$ID
export CARGO_NET_OFFLINE=true
git -C /repo worktree remove --force $WT >/dev/null 2>&1
git -C /repo worktree add --detach $WT HEAD >/dev/null 2>&1 || exit 9
DEMO=$(ls $OUT/*.rs | head -1)
mkdir -p $WT/tests; cp $DEMO $WT/tests/seed_demo.rs
FF=""; [ -n "$FEAT" ] && FF="--features $FEAT"
echo "== demo on unchanged code"
(cd $WT && cargo test --offline $FF --test seed_demo 2>&1 | grep -E "^test result|error(\[|:)" | head -3)
echo "== apply patch"
(cd $WT && git apply $OUT/patch.diff && git diff --stat | tail -1) || { echo "PATCH DOES NOT APPLY"; exit 8; }
echo "== baseline suite with change"
(cd $WT && cargo test --workspace --no-fail-fast --offline 2>&1 | grep -E "^test result" | head -2)
(cd $WT && cargo test --offline --features "bmp fsm mrt serde" 2>&1 | grep -E "^test result" | head -1)
echo "== demo with change"
(cd $WT && cargo test --offline $FF --test seed_demo 2>&1 | grep -E "^test result|error(\[|:)" | head -3)
git -C /repo worktree remove --force $WT
echo "== ./check $ID with the change applied to /repo"
git -C /repo apply $OUT/patch.diff || { echo "patch does not apply to /repo"; exit 7; }
(cd /verif && ./check $ID 2>&1 | cut -c1-260 | grep -E "^VIOLATION|^OK|^  (oracle|correspondence|proof)" | head -6)
git -C /repo checkout -- .
git -C /repo status --short | head -2
