//! Shared plumbing: PRNG, hex, panic capture, watchdog, run loop.
use std::collections::{BTreeMap, HashSet};
use std::io::Write;
use std::panic::{catch_unwind, AssertUnwindSafe};
use std::sync::atomic::{AtomicU64, Ordering};
use std::sync::Arc;
use std::time::{Duration, Instant};

/// xoshiro256** seeded through splitmix64; every random choice of a run
/// derives from the one seed.
#[derive(Clone)]
pub struct Rng { s: [u64; 4] }

impl Rng {
    pub fn new(seed: u64) -> Self {
        let mut z = seed.wrapping_add(0x9E3779B97F4A7C15);
        let mut next = || {
            z = z.wrapping_add(0x9E3779B97F4A7C15);
            let mut x = z;
            x = (x ^ (x >> 30)).wrapping_mul(0xBF58476D1CE4E5B9);
            x = (x ^ (x >> 27)).wrapping_mul(0x94D049BB133111EB);
            x ^ (x >> 31)
        };
        Rng { s: [next(), next(), next(), next()] }
    }
    pub fn u64(&mut self) -> u64 {
        let r = self.s[1].wrapping_mul(5).rotate_left(7).wrapping_mul(9);
        let t = self.s[1] << 17;
        self.s[2] ^= self.s[0];
        self.s[3] ^= self.s[1];
        self.s[1] ^= self.s[2];
        self.s[0] ^= self.s[3];
        self.s[2] ^= t;
        self.s[3] = self.s[3].rotate_left(45);
        r
    }
    pub fn below(&mut self, n: u64) -> u64 { if n == 0 { 0 } else { self.u64() % n } }
    pub fn range(&mut self, lo: u64, hi: u64) -> u64 { lo + self.below(hi - lo + 1) }
    pub fn usize(&mut self, lo: usize, hi: usize) -> usize { self.range(lo as u64, hi as u64) as usize }
    pub fn bool(&mut self) -> bool { self.u64() & 1 == 1 }
    pub fn chance(&mut self, num: u64, den: u64) -> bool { self.below(den) < num }
    pub fn u8(&mut self) -> u8 { self.u64() as u8 }
    pub fn u16(&mut self) -> u16 { self.u64() as u16 }
    pub fn u32(&mut self) -> u32 { self.u64() as u32 }
    pub fn bytes(&mut self, n: usize) -> Vec<u8> { (0..n).map(|_| self.u8()).collect() }
    pub fn pick<'a, T>(&mut self, xs: &'a [T]) -> &'a T { &xs[self.below(xs.len() as u64) as usize] }
    /// a value biased towards the boundaries of its range
    pub fn edgy(&mut self, max: u64) -> u64 {
        match self.below(8) {
            0 => 0,
            1 => max,
            2 => 1.min(max),
            3 => max.saturating_sub(1),
            _ => self.below(max.saturating_add(1).max(1)),
        }
    }
}

pub fn hex(bs: &[u8]) -> String {
    if bs.is_empty() { return "-".into(); }
    let mut s = String::with_capacity(bs.len() * 2);
    for b in bs { s.push_str(&format!("{:02x}", b)); }
    s
}

pub fn unhex(s: &str) -> Option<Vec<u8>> {
    if s == "-" { return Some(vec![]); }
    if s.len() % 2 != 0 { return None; }
    (0..s.len() / 2).map(|i| u8::from_str_radix(&s[2 * i..2 * i + 2], 16).ok()).collect()
}

#[derive(Clone, Copy, PartialEq, Eq, Debug)]
pub enum Tier { Quick, Thorough }

/// One property's correspondence/oracle module.  The request line is the
/// single source of truth: generator -> line; `exec(line)` is what the real
/// code answers; the Lean driver answers the same line from the model.
pub trait Prop: Sync {
    /// request lines for this run (exhaustive tables first, then generated)
    fn gen(&self, rng: &mut Rng, tier: Tier) -> Vec<String>;
    /// the implementation's canonical reply (may panic; caught by the caller)
    fn exec(&self, line: &str) -> String;
    /// direct evaluation of the property on the implementation's behaviour,
    /// independent of the Lean model. Err(text) = the property fails here.
    fn oracle(&self, _line: &str, _reply: &str) -> Result<(), String> { Ok(()) }
    /// is this case non-trivial (e.g. accepted / rejected late)?
    fn nontrivial(&self, _line: &str, reply: &str) -> bool { reply != "err" && reply != "bad-op" }
    /// distribution class of a case
    fn class(&self, line: &str, reply: &str) -> String {
        let op = line.split(' ').next().unwrap_or("");
        let r = reply.split(' ').next().unwrap_or("");
        format!("{}:{}", op, r)
    }
    /// per-case watchdog in seconds (0 = none)
    fn watchdog_s(&self) -> u64 { 10 }
}

/// Socket set-up of the harnesses that drive a live session (bind / connect / accept on 127.0.0.1): under a loaded
/// machine the ephemeral ports run out for a moment (thousands of sockets in TIME_WAIT) and the call fails with
/// EADDRNOTAVAIL / EADDRINUSE; that is the harness's environment, not the implementation, so it is retried (90 s in
/// all: a socket stays in TIME_WAIT for 60 s) instead of surfacing as a `panic` reply that the oracle would read as a panic of the code under test (seen
/// once: `live-delay ...` answered `panic` in a full run and never again when replayed).
#[macro_export]
macro_rules! retry_io {
    ($e:expr) => {{
        let mut n = 0u32;
        loop {
            match $e {
                Ok(v) => break v,
                Err(e) => {
                    n += 1;
                    if n > 1800 { panic!("harness: socket set-up keeps failing: {}", e); }
                    std::thread::sleep(std::time::Duration::from_millis(50));
                }
            }
        }
    }};
}

pub fn silence_panics() {
    if std::env::var("RC_PANIC_MSG").is_ok() {
        std::panic::set_hook(Box::new(|i| { eprintln!("PANIC: {}", i); }));
    } else {
        // silent, but the location and message of every panic are appended to `panics.log` in the working directory
        // (work/Cxx/ under ./check): a `panic` reply can then be traced to its source line
        std::panic::set_hook(Box::new(|i| {
            use std::io::Write;
            if let Ok(mut f) = std::fs::OpenOptions::new().create(true).append(true).open("panics.log") {
                let _ = writeln!(f, "{}", i.to_string().replace('\n', " | "));
            }
        }));
    }
}

pub fn catch<F: FnOnce() -> String>(f: F) -> String {
    match catch_unwind(AssertUnwindSafe(f)) {
        Ok(s) => s,
        Err(_) => "panic".to_string(),
    }
}

fn json_str(s: &str) -> String {
    let mut o = String::from("\"");
    for c in s.chars() {
        match c {
            '"' => o.push_str("\\\""),
            '\\' => o.push_str("\\\\"),
            '\n' => o.push_str("\\n"),
            '\t' => o.push_str("\\t"),
            c if (c as u32) < 0x20 => o.push_str(&format!("\\u{:04x}", c as u32)),
            c => o.push(c),
        }
    }
    o.push('"');
    o
}

fn trunc(s: &str, n: usize) -> String {
    if s.len() <= n { s.to_string() } else {
        let mut e = n; while !s.is_char_boundary(e) { e -= 1; }
        format!("{}...[{} bytes]", &s[..e], s.len())
    }
}

/// Run `lines` through the implementation; write impl.out and summary.json.
pub fn run_lines(p: &dyn Prop, lines: &[String], out_dir: &str, n_corpus: usize) -> std::io::Result<()> {
    silence_panics();
    let progress = Arc::new(AtomicU64::new(0));
    let started = Arc::new(AtomicU64::new(0));
    let t0 = Instant::now();
    let wd = p.watchdog_s();
    if wd > 0 {
        let progress = progress.clone();
        let started = started.clone();
        let out_dir = out_dir.to_string();
        std::thread::spawn(move || loop {
            std::thread::sleep(Duration::from_millis(250));
            let now = t0.elapsed().as_millis() as u64;
            let st = started.load(Ordering::SeqCst);
            if st != 0 && now.saturating_sub(st) > wd * 1000 {
                let idx = progress.load(Ordering::SeqCst);
                let _ = std::fs::write(format!("{}/hang.txt", out_dir), format!("{}\n", idx));
                eprintln!("watchdog: case {} exceeded {} s", idx, wd);
                std::process::exit(3);
            }
        });
    }
    let mut out = std::io::BufWriter::new(std::fs::File::create(format!("{}/impl.out", out_dir))?);
    let mut dist: BTreeMap<String, u64> = BTreeMap::new();
    let mut seen: HashSet<u64> = HashSet::new();
    let mut nontrivial = 0u64;
    let mut oracle_evals = 0u64;
    let mut fails: Vec<(usize, String, String, String)> = Vec::new();
    let mut n_fail = 0u64;
    let mut samples: Vec<(String, String)> = Vec::new();
    // index of the request being executed, on disk: if the process is killed by a signal (stack
    // overflow, abort) ./check names that request (progress.txt, fixed width, overwritten in place)
    let mut prog = std::fs::File::create(format!("{}/progress.txt", out_dir)).ok();
    for (i, line) in lines.iter().enumerate() {
        progress.store(i as u64, Ordering::SeqCst);
        if let Some(f) = prog.as_mut() { use std::io::{Seek, SeekFrom}; let _ = f.seek(SeekFrom::Start(0)); let _ = writeln!(f, "{:<12}", i); }
        started.store((t0.elapsed().as_millis() as u64).max(1), Ordering::SeqCst);
        let reply = catch(|| p.exec(line));
        started.store(0, Ordering::SeqCst);
        writeln!(out, "{}", reply)?;
        *dist.entry(p.class(line, &reply)).or_insert(0) += 1;
        if p.nontrivial(line, &reply) {
            use std::hash::{Hash, Hasher};
            let mut h = std::collections::hash_map::DefaultHasher::new();
            line.hash(&mut h);
            if seen.insert(h.finish()) { nontrivial += 1; }
        }
        oracle_evals += 1;
        let o = match catch_unwind(AssertUnwindSafe(|| p.oracle(line, &reply))) {
            Ok(r) => r,
            Err(_) => Err("oracle panicked".to_string()),
        };
        if let Err(why) = o {
            n_fail += 1;
            if fails.len() < 20000 { fails.push((i, line.clone(), reply.clone(), why)); }
        }
        if samples.len() < 3 && i >= n_corpus && (i - n_corpus) % 997 == samples.len() * 331 % 997 {
            samples.push((line.clone(), reply.clone()));
        }
    }
    if samples.is_empty() && !lines.is_empty() {
        samples.push((lines[0].clone(), catch(|| p.exec(&lines[0]))));
    }
    out.flush()?;
    let mut s = String::new();
    s.push_str("{\n");
    s.push_str(&format!(" \"evaluations\": {},\n", lines.len()));
    s.push_str(&format!(" \"distinct_nontrivial\": {},\n", nontrivial));
    s.push_str(&format!(" \"oracle_evaluations\": {},\n", oracle_evals));
    s.push_str(&format!(" \"oracle_failure_count\": {},\n", n_fail));
    s.push_str(" \"distribution\": {");
    let mut first = true;
    for (k, v) in &dist {
        if !first { s.push(','); }
        first = false;
        s.push_str(&format!("{}: {}", json_str(k), v));
    }
    s.push_str("},\n \"samples\": [");
    for (i, (l, r)) in samples.iter().enumerate() {
        if i > 0 { s.push(','); }
        s.push_str(&format!("{{\"request\": {}, \"impl_reply\": {}}}", json_str(&trunc(l, 400)), json_str(&trunc(r, 400))));
    }
    s.push_str("],\n \"oracle_failures\": [");
    for (i, (idx, l, r, why)) in fails.iter().enumerate() {
        if i > 0 { s.push(','); }
        s.push_str(&format!("{{\"index\": {}, \"request\": {}, \"impl_reply\": {}, \"why\": {}}}",
            idx, json_str(l), json_str(&trunc(r, 2000)), json_str(why)));
    }
    s.push_str("]\n}\n");
    std::fs::write(format!("{}/summary.json", out_dir), s)?;
    Ok(())
}
