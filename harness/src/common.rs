//! Shared plumbing: PRNG, hex, panic capture, watchdog, run loop.
use std::collections::{BTreeMap, HashSet};
use std::io::Write;
use std::panic::{catch_unwind, AssertUnwindSafe};
use std::sync::atomic::{AtomicU64, Ordering};
use std::sync::Arc;
use std::time::{Duration, Instant};

/// xoshiro256** seeded through splitmix64; every random choice of a run
/// derives from the one seed.
#[derive(Clone)]
pub struct Rng { s: [u64; 4] }

impl Rng {
    pub fn new(seed: u64) -> Self {
        let mut z = seed.wrapping_add(0x9E3779B97F4A7C15);
        let mut next = || {
            z = z.wrapping_add(0x9E3779B97F4A7C15);
            let mut x = z;
            x = (x ^ (x >> 30)).wrapping_mul(0xBF58476D1CE4E5B9);
            x = (x ^ (x >> 27)).wrapping_mul(0x94D049BB133111EB);
            x ^ (x >> 31)
        };
        Rng { s: [next(), next(), next(), next()] }
    }
    pub fn u64(&mut self) -> u64 {
        let r = self.s[1].wrapping_mul(5).rotate_left(7).wrapping_mul(9);
        let t = self.s[1] << 17;
        self.s[2] ^= self.s[0];
        self.s[3] ^= self.s[1];
        self.s[1] ^= self.s[2];
        self.s[0] ^= self.s[3];
        self.s[2] ^= t;
        self.s[3] = self.s[3].rotate_left(45);
        r
    }
    pub fn below(&mut self, n: u64) -> u64 { if n == 0 { 0 } else { self.u64() % n } }
    pub fn range(&mut self, lo: u64, hi: u64) -> u64 { lo + self.below(hi - lo + 1) }
    pub fn usize(&mut self, lo: usize, hi: usize) -> usize { self.range(lo as u64, hi as u64) as usize }
    pub fn bool(&mut self) -> bool { self.u64() & 1 == 1 }
    pub fn chance(&mut self, num: u64, den: u64) -> bool { self.below(den) < num }
    pub fn u8(&mut self) -> u8 { self.u64() as u8 }
    pub fn u16(&mut self) -> u16 { self.u64() as u16 }
    pub fn u32(&mut self) -> u32 { self.u64() as u32 }
    pub fn bytes(&mut self, n: usize) -> Vec<u8> { (0..n).map(|_| self.u8()).collect() }
    pub fn pick<'a, T>(&mut self, xs: &'a [T]) -> &'a T { &xs[self.below(xs.len() as u64) as usize] }
    /// a value biased towards the boundaries of its range
    pub fn edgy(&mut self, max: u64) -> u64 {
        match self.below(8) {
            0 => 0,
            1 => max,
            2 => 1.min(max),
            3 => max.saturating_sub(1),
            _ => self.below(max.saturating_add(1).max(1)),
        }
    }
}

pub fn hex(bs: &[u8]) -> String {
    if bs.is_empty() { return "-".into(); }
    let mut s = String::with_capacity(bs.len() * 2);
    for b in bs { s.push_str(&format!("{:02x}", b)); }
    s
}

pub fn unhex(s: &str) -> Option<Vec<u8>> {
    if s == "-" { return Some(vec![]); }
    if s.len() % 2 != 0 { return None; }
    (0..s.len() / 2).map(|i| u8::from_str_radix(&s[2 * i..2 * i + 2], 16).ok()).collect()
}

#[derive(Clone, Copy, PartialEq, Eq, Debug)]
pub enum Tier { Quick, Thorough }

/// One property's correspondence/oracle module.  The request line is the
/// single source of truth: generator -> line; `exec(line)` is what the real
/// code answers; the Lean driver answers the same line from the model.
pub trait Prop: Sync {
    /// request lines for this run (exhaustive tables first, then generated)
    fn gen(&self, rng: &mut Rng, tier: Tier) -> Vec<String>;
    /// the implementation's canonical reply (may panic; caught by the caller)
    fn exec(&self, line: &str) -> String;
    /// direct evaluation of the property on the implementation's behaviour,
    /// independent of the Lean model. Err(text) = the property fails here.
    fn oracle(&self, _line: &str, _reply: &str) -> Result<(), String> { Ok(()) }
    /// is this case non-trivial (e.g. accepted / rejected late)?
    fn nontrivial(&self, _line: &str, reply: &str) -> bool { reply != "err" && reply != "bad-op" }
    /// distribution class of a case
    fn class(&self, line: &str, reply: &str) -> String {
        let op = line.split(' ').next().unwrap_or("");
        let r = reply.split(' ').next().unwrap_or("");
        format!("{}:{}", op, r)
    }
    /// per-case watchdog in seconds (0 = none)
    fn watchdog_s(&self) -> u64 { 10 }
}

/// Socket set-up of the harnesses that drive a live session (bind / connect / accept on 127.0.0.1): under a loaded
/// machine the ephemeral ports run out for a moment (thousands of sockets in TIME_WAIT) and the call fails with
/// EADDRNOTAVAIL / EADDRINUSE; that is the harness's environment, not the implementation, so it is retried (90 s in
/// all: a socket stays in TIME_WAIT for 60 s) instead of surfacing as a `panic` reply that the oracle would read as a panic of the code under test (seen
/// once: `live-delay ...` answered `panic` in a full run and never again when replayed).
#[macro_export]
macro_rules! retry_io {
    ($e:expr) => {{
        let mut n = 0u32;
        loop {
            match $e {
                Ok(v) => break v,
                Err(e) => {
                    n += 1;
                    if n > 1800 { panic!("harness: socket set-up keeps failing: {}", e); }
                    std::thread::sleep(std::time::Duration::from_millis(50));
                }
            }
        }
    }};
}

pub fn silence_panics() {
    if std::env::var("RC_PANIC_MSG").is_ok() {
        std::panic::set_hook(Box::new(|i| { eprintln!("PANIC: {}", i); }));
    } else {
        // silent, but the location and message of every panic are appended to `panics.log` in the working directory
        // (work/Cxx/ under ./check): a `panic` reply can then be traced to its source line
        std::panic::set_hook(Box::new(|i| {
            use std::io::Write;
            if let Ok(mut f) = std::fs::OpenOptions::new().create(true).append(true).open("panics.log") {
                let _ = writeln!(f, "{}", i.to_string().replace('\n', " | "));
            }
        }));
    }
}

pub fn catch<F: FnOnce() -> String>(f: F) -> String {
    match catch_unwind(AssertUnwindSafe(f)) {
        Ok(s) => s,
        Err(_) => "panic".to_string(),
    }
}

fn json_str(s: &str) -> String {
    let mut o = String::from("\"");
    for c in s.chars() {
        match c {
            '"' => o.push_str("\\\""),
            '\\' => o.push_str("\\\\"),
            '\n' => o.push_str("\\n"),
            '\t' => o.push_str("\\t"),
            c if (c as u32) < 0x20 => o.push_str(&format!("\\u{:04x}", c as u32)),
            c => o.push(c),
        }
    }
    o.push('"');
    o
}

fn trunc(s: &str, n: usize) -> String {
    if s.len() <= n { s.to_string() } else {
        let mut e = n; while !s.is_char_boundary(e) { e -= 1; }
        format!("{}...[{} bytes]", &s[..e], s.len())
    }
}

/// Run `lines` through the implementation; write impl.out and summary.json.
pub fn run_lines(p: &dyn Prop, lines: &[String], out_dir: &str, n_corpus: usize) -> std::io::Result<()> {
    silence_panics();
    let progress = Arc::new(AtomicU64::new(0));
    let started = Arc::new(AtomicU64::new(0));
    let t0 = Instant::now();
    let wd = p.watchdog_s();
    if wd > 0 {
        let progress = progress.clone();
        let started = started.clone();
        let out_dir = out_dir.to_string();
        std::thread::spawn(move || loop {
            std::thread::sleep(Duration::from_millis(250));
            let now = t0.elapsed().as_millis() as u64;
            let st = started.load(Ordering::SeqCst);
            if st != 0 && now.saturating_sub(st) > wd * 1000 {
                let idx = progress.load(Ordering::SeqCst);
                let _ = std::fs::write(format!("{}/hang.txt", out_dir), format!("{}\n", idx));
                eprintln!("watchdog: case {} exceeded {} s", idx, wd);
                std::process::exit(3);
            }
        });
    }
    let mut out = std::io::BufWriter::new(std::fs::File::create(format!("{}/impl.out", out_dir))?);
    let mut dist: BTreeMap<String, u64> = BTreeMap::new();
    let mut seen: HashSet<u64> = HashSet::new();
    let mut nontrivial = 0u64;
    let mut oracle_evals = 0u64;
    let mut fails: Vec<(usize, String, String, String)> = Vec::new();
    let mut n_fail = 0u64;
    let mut samples: Vec<(String, String)> = Vec::new();
    // index of the request being executed, on disk: if the process is killed by a signal (stack
    // overflow, abort) ./check names that request (progress.txt, fixed width, overwritten in place)
    let mut prog = std::fs::File::create(format!("{}/progress.txt", out_dir)).ok();
    for (i, line) in lines.iter().enumerate() {
        progress.store(i as u64, Ordering::SeqCst);
        if let Some(f) = prog.as_mut() { use std::io::{Seek, SeekFrom}; let _ = f.seek(SeekFrom::Start(0)); let _ = writeln!(f, "{:<12}", i); }
        started.store((t0.elapsed().as_millis() as u64).max(1), Ordering::SeqCst);
        proto_select(i < n_corpus, line);
        let reply = catch(|| p.exec(line));
        started.store(0, Ordering::SeqCst);
        writeln!(out, "{}", reply)?;
        *dist.entry(p.class(line, &reply)).or_insert(0) += 1;
        if p.nontrivial(line, &reply) {
            use std::hash::{Hash, Hasher};
            let mut h = std::collections::hash_map::DefaultHasher::new();
            line.hash(&mut h);
            if seen.insert(h.finish()) { nontrivial += 1; }
        }
        oracle_evals += 1;
        let o = match catch_unwind(AssertUnwindSafe(|| p.oracle(line, &reply))) {
            Ok(r) => r,
            Err(_) => Err("oracle panicked".to_string()),
        };
        if let Err(why) = o {
            n_fail += 1;
            if fails.len() < 20000 { fails.push((i, line.clone(), reply.clone(), why)); }
        }
        if samples.len() < 3 && i >= n_corpus && (i - n_corpus) % 997 == samples.len() * 331 % 997 {
            samples.push((line.clone(), reply.clone()));
        }
    }
    if samples.is_empty() && !lines.is_empty() {
        samples.push((lines[0].clone(), catch(|| p.exec(&lines[0]))));
    }
    out.flush()?;
    let mut s = String::new();
    s.push_str("{\n");
    s.push_str(&format!(" \"evaluations\": {},\n", lines.len()));
    s.push_str(&format!(" \"distinct_nontrivial\": {},\n", nontrivial));
    s.push_str(&format!(" \"oracle_evaluations\": {},\n", oracle_evals));
    s.push_str(&format!(" \"oracle_failure_count\": {},\n", n_fail));
    s.push_str(" \"distribution\": {");
    let mut first = true;
    for (k, v) in &dist {
        if !first { s.push(','); }
        first = false;
        s.push_str(&format!("{}: {}", json_str(k), v));
    }
    s.push_str("},\n \"samples\": [");
    for (i, (l, r)) in samples.iter().enumerate() {
        if i > 0 { s.push(','); }
        s.push_str(&format!("{{\"request\": {}, \"impl_reply\": {}}}", json_str(&trunc(l, 400)), json_str(&trunc(r, 400))));
    }
    s.push_str("],\n \"oracle_failures\": [");
    for (i, (idx, l, r, why)) in fails.iter().enumerate() {
        if i > 0 { s.push(','); }
        s.push_str(&format!("{{\"index\": {}, \"request\": {}, \"impl_reply\": {}, \"why\": {}}}",
            idx, json_str(l), json_str(&trunc(r, 2000)), json_str(why)));
    }
    s.push_str("]\n}\n");
    std::fs::write(format!("{}/summary.json", out_dir), s)?;
    Ok(())
}

// ------------------------------------------------------------------------------------------------
// Iterator protocol: HOW an iterator is consumed must not matter.
//
// The models describe `next()`; the default methods of `Iterator` (count, last, nth, skip, step_by,
// fold, peekable ..) are functions of the `next()` sequence (lean/Rc/Lemmas/IterProto.lean proves
// that once, for any `next`).  What is checked here on the real code is the other half: whatever a
// type OVERRIDES (size_hint, nth, count, last, fold, ExactSizeIterator::len, ..) agrees with the
// defaults, i.e. every consumption order observes the same sequence and none of them panics.

static PROTO_ON: std::sync::atomic::AtomicBool = std::sync::atomic::AtomicBool::new(true);

/// is the protocol check wanted for the request being executed?  (`exec` mode = replay / shrinking: always;
/// `run` mode: corpus lines, requests of at most 6000 characters and a quarter of the longer ones - see
/// `proto_select`; the reply token is `proto=ok` when the check is not run)
pub fn proto_on() -> bool { PROTO_ON.load(Ordering::SeqCst) }

/// run loop: decide from the request line alone (plus "is a corpus line")
pub fn proto_select(is_corpus: bool, line: &str) {
    let mut h: u64 = 0xcbf29ce484222325;
    for b in line.bytes() { h = (h ^ b as u64).wrapping_mul(0x100000001b3); }
    PROTO_ON.store(is_corpus || line.len() <= 6000 || (h >> 7) % 4 == 0, Ordering::SeqCst);
}

fn proto_step<R>(what: impl Fn() -> String, f: impl FnOnce() -> R) -> Result<R, String> {
    catch_unwind(AssertUnwindSafe(f)).map_err(|_| format!("{}:panicked", what()))
}

fn proto_eq(what: impl Fn() -> String, got: &[String], want: &[String]) -> Result<(), String> {
    if got == want { return Ok(()); }
    let i = got.iter().zip(want.iter()).position(|(a, b)| a != b).unwrap_or(got.len().min(want.len()));
    Err(format!("{}:yields-{}-items,next()-yields-{};first-difference-at-{}", what(), got.len(), want.len(), i))
}

/// The protocol check of one iterator.  `mk` makes a fresh iterator; `show` prints an item
/// (items are compared through it); `bound` = the most items the `next()` sequence may have.
/// `Err` = the first consumption that panicked or observed something else than the `next()`
/// sequence R (text without spaces).  Nothing here calls `next()` again after a `None`
/// (the iterators need not be fused) and every collection is bounded by `take`.
pub fn iter_protocol<I, T>(mk: impl Fn() -> I, show: impl Fn(&T) -> String, bound: usize) -> Result<(), String>
where I: Iterator<Item = T> {
    // R: plain next() on a fresh iterator
    let r: Vec<String> = match proto_step(|| "next()".into(), || {
        let mut it = mk();
        let mut v = Vec::new();
        loop {
            match it.next() { Some(x) => v.push(show(&x)), None => return Some(v) }
            if v.len() > bound { return None; }
        }
    })? { Some(v) => v, None => return Err(format!("next():more-than-{}-items", bound)) };
    let n = r.len();
    let cap = n + 8;
    let opt = |x: Option<T>| x.map(|x| show(&x));
    let want_opt = |k: usize| r.get(k).cloned();
    // (long sequences - thousands of items, thorough tier - get the positions that matter most, to stay
    // far below the per-request watchdog: every position costs a few passes over the sequence)
    let big = n > 4000;
    let mut ks: Vec<usize> = if big { vec![1, n, n + 1] } else { vec![0, 1, n.saturating_sub(1), n, n + 1, n + 7] };
    ks.sort(); ks.dedup();
    let mut js: Vec<usize> = if big { vec![1, n / 2] } else { vec![0, 1.min(n), n / 2, n] };
    js.sort(); js.dedup();

    // size_hint before and after each next() (not after the None)
    proto_step(|| "size_hint()".into(), || -> Result<(), String> {
        let mut it = mk();
        for i in 0..=n {
            let (lo, hi) = it.size_hint();
            let rem = n - i;
            if lo > rem || hi.map_or(false, |h| rem > h) {
                return Err(format!("size_hint()=({},{})-after-{}-of-{}-items", lo, hi.map_or("None".to_string(), |h| h.to_string()), i, n));
            }
            if i < n { it.next(); }
        }
        Ok(())
    })??;
    // whole-sequence consumers on a fresh iterator
    let c = proto_step(|| "count()".into(), || mk().count())?;
    if c != n { return Err(format!("count()={},next()-yields-{}", c, n)); }
    let l = proto_step(|| "last()".into(), || opt(mk().last()))?;
    if l != r.last().cloned() { return Err("last():not-the-last-item-of-next()".into()); }
    for k in &ks {
        let k = *k;
        let (got, rest) = proto_step(|| format!("nth({})", k), || {
            let mut it = mk();
            let g = opt(it.nth(k));
            let rest: Vec<String> = if k < n { it.take(cap).map(|x| show(&x)).collect() } else { Vec::new() };
            (g, rest)
        })?;
        if got != want_opt(k) { return Err(format!("nth({})-of-{}-items:{}", k, n, if got.is_some() { "wrong-item" } else { "None" })); }
        if k < n { proto_eq(|| format!("next()-after-nth({})", k), &rest, &r[k + 1..])?; }
        let from = k.min(n);
        let got: Vec<String> = proto_step(|| format!("skip({})", k), || mk().skip(k).take(cap).map(|x| show(&x)).collect())?;
        proto_eq(|| format!("skip({})", k), &got, &r[from..])?;
        let c = proto_step(|| format!("skip({}).count()", k), || mk().skip(k).count())?;
        if c != n - from { return Err(format!("skip({}).count()={},next()-yields-{}", k, c, n - from)); }
        let l = proto_step(|| format!("skip({}).last()", k), || opt(mk().skip(k).last()))?;
        if l != r[from..].last().cloned() { return Err(format!("skip({}).last():not-the-last-item", k)); }
        let (lo, hi) = proto_step(|| format!("skip({}).size_hint()", k), || mk().skip(k).size_hint())?;
        if lo > n - from || hi.map_or(false, |h| n - from > h) { return Err(format!("skip({}).size_hint():excludes-{}", k, n - from)); }
    }
    for s in [2usize, 3] {
        let got: Vec<String> = proto_step(|| format!("step_by({})", s), || mk().step_by(s).take(cap).map(|x| show(&x)).collect())?;
        let want: Vec<String> = r.iter().step_by(s).cloned().collect();
        proto_eq(|| format!("step_by({})", s), &got, &want)?;
    }
    // consumers of the REST: after j items through by_ref().take(j)
    for j in &js {
        let j = *j;
        let after = |what: &str| format!("{}-after-{}-of-{}-items", what, j, n);
        let start = |what: &str| -> Result<I, String> {
            let mut it = mk();
            let head: Vec<String> = it.by_ref().take(j).map(|x| show(&x)).collect();
            proto_eq(|| after(&format!("by_ref().take({})[{}]", j, what)), &head, &r[..j])?;
            Ok(it)
        };
        let want = &r[j..];
        let c = proto_step(|| after("count()"), || start("count").map(|it| it.count()))??;
        if c != want.len() { return Err(format!("{}={},next()-yields-{}", after("count()"), c, want.len())); }
        let l = proto_step(|| after("last()"), || start("last").map(|it| opt(it.last())))??;
        if l != want.last().cloned() { return Err(format!("{}:not-the-last-item", after("last()"))); }
        let got: Vec<String> = proto_step(|| after("collect()"), || start("collect").map(|it| it.take(cap).map(|x| show(&x)).collect()))??;
        proto_eq(|| after("collect()"), &got, want)?;
        let got: Vec<String> = proto_step(|| after("fold()"), || start("fold").map(|it| it.fold(Vec::new(), |mut v, x| { if v.len() < cap { v.push(show(&x)); } v })))??;
        proto_eq(|| after("fold()"), &got, want)?;
        let mut k = 0usize;
        proto_step(|| after("for_each()"), || start("for_each").map(|it| it.for_each(|_| k += 1)))??;
        if k != want.len() { return Err(format!("{}:{}-items,next()-yields-{}", after("for_each()"), k, want.len())); }
        let (pk, c) = proto_step(|| after("peekable().peek();count()"), || start("peek").map(|it| {
            let mut p = it.peekable();
            let pk = p.peek().map(|x| show(x));
            (pk, p.count())
        }))??;
        if pk != want.first().cloned() || c != want.len() { return Err(format!("{}={},next()-yields-{}", after("peekable().peek();count()"), c, want.len())); }
        // searching consumers (defaults go through try_fold; an override may not)
        let f = proto_step(|| after("find(false)"), || start("find").map(|mut it| it.find(|_| false).is_some()))??;
        if f { return Err(format!("{}:found", after("find(false)"))); }
        let mut seen = 0usize;
        let a = proto_step(|| after("all(true)"), || start("all").map(|mut it| it.all(|_| { seen += 1; true })))??;
        if !a || seen != want.len() { return Err(format!("{}:visited-{}-of-{}", after("all(true)"), seen, want.len())); }
        let p = proto_step(|| after("position(last)"), || start("position").map(|mut it| { let mut i = 0usize; it.position(|_| { i += 1; i == want.len() }) }))??;
        if p != want.len().checked_sub(1) { return Err(format!("{}:{:?}", after("position(last)"), p).replace(' ', "")); }
        let m = proto_step(|| after("max_by(equal)"), || start("max_by").map(|it| opt(it.max_by(|_, _| std::cmp::Ordering::Equal))))??;
        if m != want.last().cloned() { return Err(format!("{}:not-the-last-item", after("max_by(equal)"))); }
        let m = proto_step(|| after("reduce(first)"), || start("reduce").map(|it| opt(it.reduce(|a, _| a))))??;
        if m != want.first().cloned() { return Err(format!("{}:not-the-first-item", after("reduce(first)"))); }
    }
    Ok(())
}

/// `iter_protocol` plus, for `I: Clone`: a clone taken after j items yields R[j..], and so does the original
pub fn iter_protocol_clone<I, T>(mk: impl Fn() -> I, show: impl Fn(&T) -> String, bound: usize) -> Result<(), String>
where I: Iterator<Item = T> + Clone {
    iter_protocol(&mk, &show, bound)?;
    let r: Vec<String> = proto_step(|| "next()".into(), || mk().take(bound + 1).map(|x| show(&x)).collect())?;
    let n = r.len();
    let mut js: Vec<usize> = vec![0, 1.min(n), n / 2, n];
    js.sort(); js.dedup();
    for j in js {
        let (a, b): (Vec<String>, Vec<String>) = proto_step(|| format!("clone()-after-{}-items", j), || {
            let mut it = mk();
            for _ in 0..j { it.next(); }
            let c = it.clone();
            // the clone first, then the original: neither may depend on the other
            let a: Vec<String> = c.take(n + 8).map(|x| show(&x)).collect();
            let b: Vec<String> = it.take(n + 8).map(|x| show(&x)).collect();
            (a, b)
        })?;
        proto_eq(|| format!("clone()-after-{}-items", j), &a, &r[j..])?;
        proto_eq(|| format!("original-after-clone()-after-{}-items", j), &b, &r[j..])?;
    }
    Ok(())
}

#[allow(dead_code)]
/// `iter_protocol` plus `ExactSizeIterator::len()` before each `next()`
pub fn iter_protocol_exact<I, T>(mk: impl Fn() -> I, show: impl Fn(&T) -> String, bound: usize) -> Result<(), String>
where I: ExactSizeIterator<Item = T> {
    iter_protocol(&mk, &show, bound)?;
    proto_step(|| "len()".into(), || -> Result<(), String> {
        let n = mk().take(bound + 1).count();
        let mut it = mk();
        for i in 0..=n {
            // (ExactSizeIterator::len asserts lower == upper of size_hint: a panic here is a finding)
            let l = it.len();
            if l != n - i { return Err(format!("len()={}-after-{}-of-{}-items", l, i, n)); }
            if i < n { it.next(); }
        }
        Ok(())
    })?
}

#[allow(dead_code)]
/// `iter_protocol` plus `rev()` for `I: DoubleEndedIterator`
pub fn iter_protocol_rev<I, T>(mk: impl Fn() -> I, show: impl Fn(&T) -> String, bound: usize) -> Result<(), String>
where I: DoubleEndedIterator<Item = T> {
    iter_protocol(&mk, &show, bound)?;
    let (f, mut b): (Vec<String>, Vec<String>) = proto_step(|| "rev()".into(), || (
        mk().take(bound + 1).map(|x| show(&x)).collect(), mk().rev().take(bound + 1).map(|x| show(&x)).collect()))?;
    b.reverse();
    proto_eq(|| "rev()".into(), &b, &f)
}

/// Collects the verdicts of the iterators of one request: the first failure, as the reply token
/// `proto=ok` / `proto=<iterator>:<failure>` (the model side prints the constant `proto=ok`).
pub struct Proto { first: Option<String>, on: bool }

impl Proto {
    pub fn new() -> Self { Proto { first: None, on: proto_on() } }
    pub fn on(&self) -> bool { self.on && self.first.is_none() }
    /// record the verdict of iterator `name` (the check itself runs only when `on()`)
    pub fn put(&mut self, name: &str, r: impl FnOnce() -> Result<(), String>) {
        if !self.on() { return; }
        let v = match catch_unwind(AssertUnwindSafe(r)) { Ok(v) => v, Err(_) => Err("making-the-iterator:panicked".to_string()) };
        if let Err(e) = v { self.first = Some(format!("{}:{}", name, e).replace(' ', "_")); }
    }
    pub fn it<I: Iterator<Item = T>, T>(&mut self, name: &str, mk: impl Fn() -> I, show: impl Fn(&T) -> String, bound: usize) {
        self.put(name, || iter_protocol(mk, show, bound));
    }
    pub fn itc<I: Iterator<Item = T> + Clone, T>(&mut self, name: &str, mk: impl Fn() -> I, show: impl Fn(&T) -> String, bound: usize) {
        self.put(name, || iter_protocol_clone(mk, show, bound));
    }
    pub fn value(&self) -> String { self.first.clone().unwrap_or_else(|| "ok".to_string()) }
    pub fn token(&self) -> String { format!("proto={}", self.value()) }
}

/// oracle side: judge the `proto=` token of a reply (absent token = nothing to judge)
pub fn proto_judge(reply: &str) -> Result<(), String> {
    for t in reply.split(|c| c == ' ' || c == '|') {
        if let Some(v) = t.strip_prefix("proto=") {
            if v != "ok" { return Err(format!("an iterator's overridden methods disagree with its next() sequence (or panic): {}", v)); }
        }
    }
    Ok(())
}
