//! rc-harness: runs the real routecore code (current /repo working tree,
//! hooks on) on request lines; see /verif/DESIGN.md section 2.
mod common;
mod props;

use common::*;

fn usage() -> ! {
    eprintln!("usage: rc-harness <Cxx> gen|run|exec [--seed N] [--tier quick|thorough] [--corpus FILE] [--out DIR]");
    std::process::exit(2)
}

fn main() {
    let args: Vec<String> = std::env::args().collect();
    if args.len() < 3 { usage(); }
    let prop = match props::lookup(&args[1]) { Some(p) => p, None => { eprintln!("unknown property {}", args[1]); std::process::exit(2) } };
    let mode = args[2].as_str();
    let mut seed = 1u64;
    let mut tier = Tier::Quick;
    let mut corpus: Option<String> = None;
    let mut out = String::from(".");
    let mut i = 3;
    while i < args.len() {
        match args[i].as_str() {
            "--seed" => { seed = args[i + 1].parse().unwrap_or(1); i += 2; }
            "--tier" => { tier = if args[i + 1] == "thorough" { Tier::Thorough } else { Tier::Quick }; i += 2; }
            "--corpus" => { corpus = Some(args[i + 1].clone()); i += 2; }
            "--out" => { out = args[i + 1].clone(); i += 2; }
            _ => usage(),
        }
    }
    match mode {
        // generate request lines only
        "gen" => {
            let mut rng = Rng::new(seed);
            for l in prop.gen(&mut rng, tier) { println!("{}", l); }
        }
        // corpus + generated lines -> ops.txt, impl.out, summary.json in --out
        "run" => {
            let mut lines: Vec<String> = Vec::new();
            if let Some(c) = corpus {
                if let Ok(txt) = std::fs::read_to_string(&c) {
                    for l in txt.lines() {
                        let l = l.trim();
                        if !l.is_empty() && !l.starts_with('#') { lines.push(l.to_string()); }
                    }
                }
            }
            let n_corpus = lines.len();
            let mut rng = Rng::new(seed);
            std::fs::create_dir_all(&out).unwrap();
            // Some generators execute the implementation (to enumerate reachable states, to label requests). A change
            // of routecore that makes it spin there would otherwise hang the check before the per-request watchdog
            // of `run_lines` exists: bound the generation phase and report it as a hang of the request
            // `<generation>` (ops.txt then holds that one line, hang.txt its index).
            let gen_done = std::sync::Arc::new(std::sync::atomic::AtomicBool::new(false));
            {
                let gen_done = gen_done.clone();
                let out = out.clone();
                let limit = match tier { Tier::Quick => 600u64, Tier::Thorough => 7200 };
                std::thread::spawn(move || {
                    let t0 = std::time::Instant::now();
                    loop {
                        std::thread::sleep(std::time::Duration::from_millis(500));
                        if gen_done.load(std::sync::atomic::Ordering::SeqCst) { return; }
                        if t0.elapsed().as_secs() > limit {
                            let _ = std::fs::write(format!("{}/ops.txt", out), "<generation of the request lines (the generator executes the implementation)>\n");
                            let _ = std::fs::write(format!("{}/impl.out", out), "");
                            let _ = std::fs::write(format!("{}/hang.txt", out), "0\n");
                            eprintln!("watchdog: generating the request lines exceeded {} s", limit);
                            std::process::exit(3);
                        }
                    }
                });
            }
            lines.extend(prop.gen(&mut rng, tier));
            gen_done.store(true, std::sync::atomic::Ordering::SeqCst);
            std::fs::write(format!("{}/ops.txt", out), lines.join("\n") + "\n").unwrap();
            std::fs::write(format!("{}/n_corpus.txt", out), format!("{}\n", n_corpus)).unwrap();
            run_lines(prop, &lines, &out, n_corpus).unwrap();
        }
        // stdin lines -> replies on stdout (used by --replay and by shrinking)
        "exec" => {
            silence_panics();
            let mut s = String::new();
            use std::io::Read;
            std::io::stdin().read_to_string(&mut s).unwrap();
            for l in s.lines() {
                let l = l.trim();
                if l.is_empty() || l.starts_with('#') { continue; }
                let r = catch(|| prop.exec(l));
                let o = prop.oracle(l, &r);
                match o {
                    Ok(()) => println!("{}", r),
                    Err(why) => println!("{}\t#ORACLE-FAIL {}", r, why),
                }
            }
        }
        // stdin lines `<request>\t<reply>` -> the oracle's verdict on a HAND-WRITTEN reply (PASS / FAIL why): how the oracles
        // themselves are tested (audit r5 S6)
        "judge" => {
            let mut s = String::new();
            use std::io::Read;
            std::io::stdin().read_to_string(&mut s).unwrap();
            for l in s.lines() {
                if let Some((line, reply)) = l.split_once('\t') {
                    match prop.oracle(line, reply) { Ok(()) => println!("PASS"), Err(w) => println!("FAIL {}", w) }
                }
            }
        }
        _ => usage(),
    }
}
