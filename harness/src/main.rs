//! rc-harness: runs the real routecore code (current /repo working tree,
//! hooks on) on request lines; see /verif/DESIGN.md section 2.
mod common;
mod props;

use common::*;

fn usage() -> ! {
    eprintln!("usage: rc-harness <Cxx> gen|run|exec [--seed N] [--tier quick|thorough] [--corpus FILE] [--out DIR]");
    std::process::exit(2)
}

fn main() {
    let args: Vec<String> = std::env::args().collect();
    if args.len() < 3 { usage(); }
    let prop = match props::lookup(&args[1]) { Some(p) => p, None => { eprintln!("unknown property {}", args[1]); std::process::exit(2) } };
    let mode = args[2].as_str();
    let mut seed = 1u64;
    let mut tier = Tier::Quick;
    let mut corpus: Option<String> = None;
    let mut out = String::from(".");
    let mut i = 3;
    while i < args.len() {
        match args[i].as_str() {
            "--seed" => { seed = args[i + 1].parse().unwrap_or(1); i += 2; }
            "--tier" => { tier = if args[i + 1] == "thorough" { Tier::Thorough } else { Tier::Quick }; i += 2; }
            "--corpus" => { corpus = Some(args[i + 1].clone()); i += 2; }
            "--out" => { out = args[i + 1].clone(); i += 2; }
            _ => usage(),
        }
    }
    match mode {
        // generate request lines only
        "gen" => {
            let mut rng = Rng::new(seed);
            for l in prop.gen(&mut rng, tier) { println!("{}", l); }
        }
        // corpus + generated lines -> ops.txt, impl.out, summary.json in --out
        "run" => {
            let mut lines: Vec<String> = Vec::new();
            if let Some(c) = corpus {
                if let Ok(txt) = std::fs::read_to_string(&c) {
                    for l in txt.lines() {
                        let l = l.trim();
                        if !l.is_empty() && !l.starts_with('#') { lines.push(l.to_string()); }
                    }
                }
            }
            let n_corpus = lines.len();
            let mut rng = Rng::new(seed);
            lines.extend(prop.gen(&mut rng, tier));
            std::fs::create_dir_all(&out).unwrap();
            std::fs::write(format!("{}/ops.txt", out), lines.join("\n") + "\n").unwrap();
            std::fs::write(format!("{}/n_corpus.txt", out), format!("{}\n", n_corpus)).unwrap();
            run_lines(prop, &lines, &out, n_corpus).unwrap();
        }
        // stdin lines -> replies on stdout (used by --replay and by shrinking)
        "exec" => {
            silence_panics();
            let mut s = String::new();
            use std::io::Read;
            std::io::stdin().read_to_string(&mut s).unwrap();
            for l in s.lines() {
                let l = l.trim();
                if l.is_empty() || l.starts_with('#') { continue; }
                let r = catch(|| prop.exec(l));
                let o = prop.oracle(l, &r);
                match o {
                    Ok(()) => println!("{}", r),
                    Err(why) => println!("{}\t#ORACLE-FAIL {}", r, why),
                }
            }
        }
        _ => usage(),
    }
}
