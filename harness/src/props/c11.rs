//! C11: best / best_backup / best_backup_position / best_backup_generic on
//! real `OrdRoute`s.  Route syntax, builder and the RFC reference comparison
//! come from c10.rs.
//!
//!   sel <strat> r1 .. rn      -> pos=<b>,<k> val=<b>,<k> best=<b> gen=<b>,<k>      (indices, `-` = None)
//!   selperm <strat> r1 .. rn  -> the distinct (best,backup) index pairs of best_backup_position over
//!                                ALL permutations of the candidates (n <= 6), in original indices
//!   gen k1 .. kn              -> best_backup_generic over the integers themselves: <best>,<backup>
//! The candidates of a sel / selperm line are 12-field routes or - all of them - u-tokens of c10.rs (routes given as
//! received UPDATEs: from_octets -> PaMap::from_update_pdu -> try_new); `rej` when an UPDATE is not accepted.
use super::c10::{build_all, cand_specs, edit_plan, gen_plan, may_be_refused, mutate, parse_cand, plan_pdu, random_route, random_tb, read_pdu, ref_eligible, refusal, rfc_prefer, show_pdu_cand, show_route, nat, path_of, base_route, Cand, PduCand, RouteSpec};
use crate::common::*;
use routecore::bgp::path_attributes::PaMap;
use routecore::bgp::path_selection::{best, best_backup, best_backup_generic, best_backup_position, OrdRoute, OrdStrat, Rfc4271, SkipMed, TiebreakerInfo};
use std::cmp::Ordering;
use std::collections::BTreeSet;

pub struct C11;

fn idx<T>(base: &[T], p: Option<&T>) -> String {
    match p {
        None => "-".into(),
        Some(p) => ((p as *const T as usize - base.as_ptr() as usize) / std::mem::size_of::<T>()).to_string(),
    }
}
fn oi(o: Option<usize>) -> String { o.map(|v| v.to_string()).unwrap_or("-".into()) }

/// Candidates are `(&PaMap, TiebreakerInfo)`: callers may hand in routes that reference ONE attribute
/// map (a RIB that interns attribute sets) or equal maps in separate allocations.  Both presentations
/// are run; when they agree the reply is the common one, otherwise both are reported.
fn sel<OS: OrdStrat + Copy>(cands: &[Cand], perms: bool) -> String {
    // candidates given as received UPDATEs (u-tokens of c10.rs): `rej` when one of them is not accepted
    let built: Vec<(PaMap, TiebreakerInfo)> = match build_all(cands) { Ok(b) => b, Err(e) => return if e == "pmerr" { e } else { "rej".into() } };
    if built.iter().any(|(m, t)| refusal::<OS>(m, *t) != "ok") { return "refused".into(); }
    let own: Vec<&PaMap> = built.iter().map(|(m, _)| m).collect();
    // interned: the first map with equal content stands in for every later one
    let shared: Vec<&PaMap> = built.iter().map(|(m, _)| &built.iter().find(|(o, _)| o == m).unwrap().0).collect();
    let a = sel_on::<OS>(&built, &own, perms);
    let b = sel_on::<OS>(&built, &shared, perms);
    if a == b { a } else { format!("{} | shared {}", a, b) }
}

/// A candidate type of the CALLER's: a route and the age of the entry, ordered by the route and then by age (oldest
/// first). `best` / `best_backup` / `best_backup_position` take any `T: Ord + Borrow<OrdRoute>`, and "preferred" is
/// then `T`'s order (which here refines the route order): the best of `best_backup` must still be a minimum of the
/// candidates and the item `best` returns (round-7 seed: the comparisons of `_best_backup` made on the borrowed route
/// only, the `T: Ord` bound dropped).
#[derive(Clone, Copy)]
struct Aged<'a, OS>(OrdRoute<'a, OS>, u32);
impl<'a, OS: OrdStrat> PartialEq for Aged<'a, OS> { fn eq(&self, o: &Self) -> bool { self.cmp(o) == Ordering::Equal } }
impl<'a, OS: OrdStrat> Eq for Aged<'a, OS> {}
impl<'a, OS: OrdStrat> PartialOrd for Aged<'a, OS> { fn partial_cmp(&self, o: &Self) -> Option<Ordering> { Some(self.cmp(o)) } }
impl<'a, OS: OrdStrat> Ord for Aged<'a, OS> { fn cmp(&self, o: &Self) -> Ordering { self.0.cmp(&o.0).then(self.1.cmp(&o.1)) } }
impl<'a, OS: OrdStrat> std::borrow::Borrow<OrdRoute<'a, OS>> for Aged<'a, OS> { fn borrow(&self) -> &OrdRoute<'a, OS> { &self.0 } }

/// `` or ` WRAP-BAD:<why>`: the selection over caller-typed candidates (ages from the position, so that route-equal
/// candidates come in both age orders)
fn wrapped_check<OS: OrdStrat + Copy>(rs: &[OrdRoute<OS>]) -> String {
    // with the MED step the preference is not transitive (known finding K11: a candidate set can be a cycle, in which
    // "no candidate is preferred over the best" has no solution): judged for SkipMed only
    if !std::any::type_name::<OS>().contains("SkipMed") { return String::new(); }
    let ws: Vec<Aged<OS>> = rs.iter().enumerate().map(|(i, r)| Aged(*r, ((i * 7 + 3) % 4) as u32)).collect();
    let (wb, wk) = best_backup(ws.iter().copied());
    let sb = best(ws.iter().copied());
    match (wb, sb) {
        (None, None) => String::new(),
        (Some(b), Some(s)) => {
            if b.cmp(&s) != Ordering::Equal { return " WRAP-BAD:best-of-best_backup-is-not-best()".into(); }
            if ws.iter().any(|c| c < &b) { return " WRAP-BAD:a-candidate-is-preferred-over-the-best".into(); }
            if let Some(k) = wk { if k < b { return " WRAP-BAD:backup-preferred-over-best".into(); } }
            String::new()
        }
        _ => " WRAP-BAD:one-of-best/best_backup-selects-nothing".into(),
    }
}

fn sel_on<OS: OrdStrat + Copy>(built: &[(PaMap, TiebreakerInfo)], maps: &[&PaMap], perms: bool) -> String {
    let rs: Vec<OrdRoute<OS>> = built.iter().zip(maps).map(|((_, t), m)| OrdRoute::try_new(*m, *t).unwrap()).collect();
    if !perms {
        let (pb, pk) = best_backup_position(rs.iter());
        let (vb, vk) = best_backup(rs.iter());
        let sb = best(rs.iter());
        let (gb, gk) = best_backup_generic(rs.iter());
        // the same candidates through an iterator that cannot tell its length (size_hint (0, None))
        let mut src = rs.iter();
        let (fb, fk) = best_backup_generic(std::iter::from_fn(|| src.next()));
        let mut src = rs.iter();
        let fs = best(std::iter::from_fn(|| src.next()));
        let mut src = rs.iter();
        let (fpb, fpk) = best_backup_position(std::iter::from_fn(|| src.next()));
        let shape = if (idx(&rs, fb), idx(&rs, fk)) != (idx(&rs, gb), idx(&rs, gk)) || idx(&rs, fs) != idx(&rs, sb) || (fpb, fpk) != (pb, pk) {
            format!(" unsized:pos={},{} best={} gen={},{}", oi(fpb), oi(fpk), idx(&rs, fs), idx(&rs, fb), idx(&rs, fk))
        } else { String::new() };
        // the by-value flavour (T = OrdRoute, which is Copy) must pick routes with the same content
        let (ob, ok) = best_backup(rs.iter().copied());
        let same = |o: &Option<OrdRoute<OS>>, p: Option<usize>| match (o, p) {
            (None, None) => true,
            (Some(r), Some(i)) => r.inner() == rs[i].inner(),
            _ => false,
        };
        let own = same(&ob, pb) && same(&ok, pk);
        format!("pos={},{} val={},{} best={} gen={},{}{}", oi(pb), oi(pk), idx(&rs, vb), idx(&rs, vk), idx(&rs, sb),
            idx(&rs, gb), idx(&rs, gk), if own { "" } else { " by-value-differs" }) + &shape + &wrapped_check(&rs)
    } else {
        let n = rs.len();
        let mut out: BTreeSet<(usize, Option<usize>)> = BTreeSet::new();
        let mut perm: Vec<usize> = (0..n).collect();
        // Heap's algorithm, iterative
        let mut c = vec![0usize; n];
        let mut visit = |perm: &Vec<usize>| {
            let (b, k) = best_backup_position(perm.iter().map(|i| &rs[*i]));
            if let Some(b) = b { out.insert((perm[b], k.map(|k| perm[k]))); }
        };
        visit(&perm);
        let mut i = 0;
        while i < n {
            if c[i] < i {
                if i % 2 == 0 { perm.swap(0, i) } else { perm.swap(c[i], i) }
                visit(&perm);
                c[i] += 1;
                i = 0;
            } else { c[i] = 0; i += 1; }
        }
        if out.is_empty() { return "none".into(); }
        out.iter().map(|(b, k)| format!("{}/{}", b, oi(*k))).collect::<Vec<_>>().join(" ")
    }
}

/// is the reference preference, restricted to these candidates, a strict weak order?
fn ref_weak_order(rs: &[RouteSpec], med: bool) -> bool {
    if !med { return true; }   // (judged for every triple by C10; proved: Thm/C10 skipMed_weak_order)
    let n = rs.len();
    let o: Vec<Vec<Ordering>> = (0..n).map(|i| (0..n).map(|j| rfc_prefer(&rs[i], &rs[j], med)).collect()).collect();
    for i in 0..n { for j in 0..n { for k in 0..n {
        use Ordering::*;
        match (o[i][j], o[j][k]) {
            (Less, Less) | (Less, Equal) | (Equal, Less) => if o[i][k] != Less { return false; },
            (Equal, Equal) => if o[i][k] != Equal { return false; },
            _ => {}
        }
    } } }
    true
}

/// Failures of a PREFERENCE clause (minimum, runner-up, order independence, two smallest) on candidates
/// among which the reference preference is not a strict weak order carry this tag: with the MED step
/// enabled the RFC 4271 preference is not transitive (Thm/C10 rfc4271_not_transitive), a cycle has no
/// minimum at all (Thm/C11 rfc4271_statement_fails) - known finding K11.  The clauses that do not
/// depend on transitivity are judged on every candidate set and never carry the tag.
const K11: &str = "[K11] candidates not weakly ordered by the RFC 4271 preference with MED: ";

/// the clauses about content, which hold for any comparison (Thm/C11 `content_clauses`): the backup is absent
/// exactly when every candidate has the content of the best, otherwise its content differs from the best's
fn judge_content(rs: &[RouteSpec], b: usize, k: Option<usize>) -> Result<(), String> {
    if b >= rs.len() { return Err("best position out of range".into()); }
    if k.map_or(false, |k| k >= rs.len()) { return Err("backup position out of range".into()); }
    let all_same = rs.iter().all(|c| *c == rs[b]);
    match k {
        None => if !all_same { return Err("no backup although a candidate differs in content from the best".into()); },
        Some(k) => {
            if all_same { return Err("backup returned although every candidate has the content of the best".into()); }
            if rs[k] == rs[b] { return Err(format!("backup {} has the same content as the best {}", k, b)); }
        }
    }
    Ok(())
}

/// the clauses about preference: no candidate is preferred over the best; no candidate differing from the
/// best is preferred over the backup.  `b`/`k` are indices into `rs` (checked by `judge_content`)
fn judge_pref(rs: &[RouteSpec], med: bool, b: usize, k: Option<usize>) -> Result<(), String> {
    let lt = |x: usize, y: usize| rfc_prefer(&rs[x], &rs[y], med) == Ordering::Less;
    for c in 0..rs.len() { if lt(c, b) { return Err(format!("candidate {} is preferred over the selected best {}", c, b)); } }
    if let Some(k) = k {
        for c in 0..rs.len() {
            if rs[c] != rs[b] && lt(c, k) {
                return Err(format!("candidate {} differs from the best {} and is preferred over the backup {}", c, b, k));
            }
        }
    }
    Ok(())
}

/// the statement of C11 on one reply (one way of presenting the candidates)
fn judge_reply(op: &str, s: &str, rs: &[RouteSpec], reply: &str) -> Result<(), String> {
    let all_el = rs.iter().all(ref_eligible);
    if reply == "refused" {
        // (refusing a route the property does not say is accepted - undefined ORIGIN value, Invalid optional
        // attribute - is not judged: the collection then has no candidates to select from)
        return if all_el && !rs.iter().any(may_be_refused) { Err("eligible routes refused".into()) } else { Ok(()) };
    }
    if !all_el { return Err("an ineligible route reached selection".into()); }
    let med = s == "rfc4271";
    let weak = ref_weak_order(rs, med);
    let tag = |e: String| if weak { e } else { format!("{}{}", K11, e) };
    if op == "sel" {
        let f: Vec<&str> = reply.split(' ').collect();
        if f.len() < 4 { return Err(format!("unexpected reply {}", reply)); }
        let pos = pair(f[0].strip_prefix("pos=").ok_or("reply")?).ok_or("reply")?;
        let val = pair(f[1].strip_prefix("val=").ok_or("reply")?).ok_or("reply")?;
        let single = f[2].strip_prefix("best=").ok_or("reply")?;
        let gen = pair(f[3].strip_prefix("gen=").ok_or("reply")?).ok_or("reply")?;
        if rs.is_empty() {
            return if reply == "pos=-,- val=-,- best=- gen=-,-" { Ok(()) } else { Err("empty input must give nothing".into()) };
        }
        let b = pos.0.ok_or("no best for a non-empty collection")?;
        // ---- independent of transitivity, judged on every candidate set
        // "positions agree with values", "the best is the route best() returns": judged on route content
        let same = |x: Option<usize>, y: Option<usize>| match (x, y) {
            (None, None) => true,
            (Some(x), Some(y)) => x < rs.len() && y < rs.len() && rs[x] == rs[y],
            _ => false,
        };
        if !same(pos.0, val.0) || !same(pos.1, val.1) { return Err("best_backup and best_backup_position disagree".into()); }
        if f.len() > 4 { return Err("best_backup by value and by reference pick routes of different content".into()); }
        let sb: Option<usize> = single.parse().ok();
        if !same(sb, Some(b)) { return Err(format!("best() returns {} but best_backup's best is {}", single, b)); }
        judge_content(rs, b, pos.1)?;
        // ---- the preference clauses
        judge_pref(rs, med, b, pos.1).map_err(tag)?;
        // the generic helper: given pairwise distinct items (no two tie) it returns the two smallest in order
        let distinct = (0..rs.len()).all(|i| (0..i).all(|j| rfc_prefer(&rs[i], &rs[j], med) != Ordering::Equal));
        if distinct {
            let gb = gen.0.ok_or("generic: no best")?;
            if gb >= rs.len() || gen.1.map_or(false, |k| k >= rs.len()) { return Err("generic: position out of range".into()); }
            if gb != b { return Err("generic helper's best differs".into()); }
            for c in 0..rs.len() { if rfc_prefer(&rs[c], &rs[gb], med) == Ordering::Less { return Err(tag("generic: best is not the smallest".into())); } }
            match gen.1 {
                None => if rs.len() > 1 { return Err("generic: no backup for >= 2 distinct items".into()); },
                Some(gk) => {
                    if gk == gb { return Err("generic: backup is the best".into()); }
                    for c in 0..rs.len() { if c != gb && rfc_prefer(&rs[c], &rs[gk], med) == Ordering::Less { return Err(tag("generic: backup is not the second smallest".into())); } }
                }
            }
        }
        Ok(())
    } else {
        if rs.is_empty() { return if reply == "none" { Ok(()) } else { Err("empty".into()) }; }
        let mut classes: Vec<Option<usize>> = Vec::new();
        for p in reply.split(' ') {
            let (b, k) = pair(p).ok_or("reply")?;
            let b = b.ok_or("reply")?;
            judge_content(rs, b, k).map_err(|e| format!("in some presentation order: best={} backup={:?}: {}", b, k, e))?;
            judge_pref(rs, med, b, k).map_err(|e| tag(format!("in some presentation order: best={} backup={:?}: {}", b, k, e)))?;
            classes.push(k);
        }
        // order independence of the backup's preference class
        for x in &classes { for y in &classes {
            match (x, y) {
                (Some(x), Some(y)) => if rfc_prefer(&rs[*x], &rs[*y], med) != Ordering::Equal {
                    return Err(tag(format!("backup depends on presentation order: candidates {} and {} are not equally preferred", x, y))); },
                (None, None) => {}
                _ => return Err("backup present in one presentation order and absent in another".into()),
            }
        } }
        Ok(())
    }
}

fn pair(s: &str) -> Option<(Option<usize>, Option<usize>)> {
    let (a, b) = s.split_once(|c| c == ',' || c == '/')?;
    let p = |x: &str| if x == "-" { Some(None) } else { x.parse::<usize>().ok().map(Some) };
    Some((p(a)?, p(b)?))
}

/// 12 routes: three AS paths (two of equal length: a preference tie with different content, one longer),
/// two BGP identifiers (a real preference difference), NEXT_HOP present or not (tie, different content)
fn lattice12() -> Vec<RouteSpec> {
    let mut v = Vec::new();
    for p in ["10.20", "10.30", "10.20.30"] { for id in [1u32, 2] { for extra in [0u32, 1] {
        let mut r = base_route();
        r.path = path_of(p); r.bgpid = id; r.extra = extra;
        v.push(r);
    } } }
    v
}

/// routes among which the MED step is not transitive (for the Rfc4271 strategy)
fn lattice_med() -> Vec<RouteSpec> {
    let mut v = Vec::new();
    for (p, med, id) in [("10.20", 20u32, 1u32), ("10.20", 10, 3), ("30.20", 0, 2), ("30.20", 5, 4), ("10.20", 10, 5)] {
        let mut r = base_route();
        r.path = path_of(p); r.med = Some(med); r.bgpid = id;
        v.push(r);
    }
    v
}

fn multisets(n: usize, k: usize, start: usize, cur: &mut Vec<usize>, out: &mut Vec<Vec<usize>>) {
    if cur.len() == k { out.push(cur.clone()); return; }
    for i in start..n { cur.push(i); multisets(n, k, i, cur, out); cur.pop(); }
}

/// the attributes of a two-octet session as a four-octet session delivers the same content: every AS_PATH (code 2)
/// that is a well-formed two-octet path re-written with four-octet AS numbers, a six-octet AGGREGATOR (code 7)
/// widened to eight; everything else (also a path that does not parse) octet for octet
fn widen_plan(plan: &[super::c10::PAttr]) -> Vec<super::c10::PAttr> {
    fn widen_path(v: &[u8]) -> Option<Vec<u8>> {
        let mut o = Vec::new();
        let mut i = 0;
        while i < v.len() {
            let (t, n) = (*v.get(i)?, *v.get(i + 1)? as usize);
            if !(1..=4).contains(&t) { return None; }
            let body = v.get(i + 2..i + 2 + 2 * n)?;
            o.push(t); o.push(n as u8);
            for c in body.chunks(2) { o.extend([0, 0, c[0], c[1]]); }
            i += 2 + 2 * n;
        }
        Some(o)
    }
    plan.iter().map(|a| {
        let mut a = a.clone();
        if a.code == 2 { if let Some(w) = widen_path(&a.val) { a.val = w; } }
        if a.code == 7 && a.val.len() == 6 { let mut w = vec![0u8, 0]; w.extend(&a.val); a.val = w; }
        a
    }).collect()
}

impl Prop for C11 {
    fn gen(&self, rng: &mut Rng, tier: Tier) -> Vec<String> {
        let mut v = Vec::new();
        let lat = lattice12();
        let toks: Vec<String> = lat.iter().map(show_route).collect();
        let maxk = if tier == Tier::Thorough { 6 } else { 4 };
        // every multiset of <= maxk candidates of the lattice; all permutations are run inside `selperm`
        for k in 1..=maxk {
            let mut ms = Vec::new();
            multisets(lat.len(), k, 0, &mut Vec::new(), &mut ms);
            for m in ms {
                let l = m.iter().map(|i| toks[*i].as_str()).collect::<Vec<_>>().join(" ");
                v.push(format!("selperm skipmed {}", l));
                // one presentation order through every entry point
                if k <= 3 || rng.chance(1, 4) { v.push(format!("sel skipmed {}", l)); }
            }
        }
        // ordered triples of the lattice through every entry point
        for a in &toks { for b in &toks { for c in &toks { v.push(format!("sel skipmed {} {} {}", a, b, c)); } } }
        // the MED lattice, both strategies
        let med = lattice_med();
        let mt: Vec<String> = med.iter().map(show_route).collect();
        for k in 1..=4 {
            let mut ms = Vec::new();
            multisets(med.len(), k, 0, &mut Vec::new(), &mut ms);
            for m in ms { for s in ["skipmed", "rfc4271"] {
                v.push(format!("selperm {} {}", s, m.iter().map(|i| mt[*i].as_str()).collect::<Vec<_>>().join(" ")));
            } }
        }
        v.push("sel skipmed".into());
        v.push("selperm skipmed".into());
        v.push("gen".into());
        // random larger collections: a few base routes, their small edits and exact duplicates
        let k = if tier == Tier::Thorough { 100 } else { 1 };
        for _ in 0..3000 * k {
            let n = if rng.chance(1, 5) { rng.usize(7, 40) } else { rng.usize(1, 8) };
            let mut pool: Vec<RouteSpec> = Vec::new();
            for _ in 0..rng.usize(1, 3) {
                let mut r = random_route(rng);
                while !ref_eligible(&r) { r = random_route(rng); }
                pool.push(r);
            }
            let mut rs = Vec::new();
            for _ in 0..n {
                let r = match rng.below(10) {
                    0..=3 => rng.pick(&pool).clone(),
                    4..=8 => { let m = mutate(rng.pick(&pool), rng); if ref_eligible(&m) { pool.push(m.clone()); m } else { pool[0].clone() } }
                    _ => { let r = random_route(rng); if ref_eligible(&r) || rng.chance(1, 10) { r } else { pool[0].clone() } }
                };
                rs.push(r);
            }
            let s = if rng.chance(1, 4) { "rfc4271" } else { "skipmed" };
            let l = rs.iter().map(show_route).collect::<Vec<_>>().join(" ");
            v.push(format!("sel {} {}", s, l));
            if n <= 5 { v.push(format!("selperm {} {}", s, l)); }
        }
        // candidates given as received UPDATEs (from_octets -> PaMap::from_update_pdu -> try_new): a few base UPDATEs,
        // small edits of their attributes / tie-breakers (ties in preference with different content, equal content
        // from different octets: attribute order, a repeated attribute behind the first) and exact duplicates
        for _ in 0..600 * k.min(20) {
            let n = if rng.chance(1, 6) { rng.usize(7, 20) } else { rng.usize(1, 6) };
            let (_, four0, ap0) = super::c17::gen_sess(rng);
            // half of the lines also hold routes the oracle would let routecore refuse (undefined ORIGIN value, zero-length
            // segment, malformed optional attribute: `may_be_refused`); routecore accepts them and they take part in the selection
            let lax = rng.bool();
            // 1 line in 3: candidates received in sessions of different AS number width / ADD-PATH mode on one line
            let mixed = rng.chance(1, 3);
            type Entry = (Vec<super::c10::PAttr>, RouteSpec, bool, bool);
            let eligible = |c: &PduCand| read_pdu(c).map_or(false, |r| ref_eligible(&r) && (lax || !may_be_refused(&r)));
            let mk = |rng: &mut Rng| -> Entry {
                loop {
                    let (four, ap) = if mixed && rng.bool() { let s = super::c17::gen_sess(rng); (s.1, s.2) } else { (four0, ap0) };
                    let (plan, tb) = (gen_plan(rng, four), random_tb(rng));
                    if eligible(&PduCand { four, ap, pdu: plan_pdu(&plan, ap), tb: tb.clone() }) { return (plan, tb, four, ap); }
                }
            };
            let mut pool: Vec<Entry> = (0..rng.usize(1, 3)).map(|_| mk(rng)).collect();
            let mut toks = Vec::new();
            for _ in 0..n {
                let (plan, tb, four, ap) = match rng.below(10) {
                    0..=3 => rng.pick(&pool).clone(),
                    4..=8 => {
                        let (p, t, four, ap) = rng.pick(&pool).clone();
                        // the same attributes as a session of the other kind delivers them: a two-octet AS_PATH / AGGREGATOR
                        // widened to four octets (equal content from different octets), or the same octets with / without ADD-PATH
                        let (p, t, four, ap) = if mixed && rng.chance(1, 3) {
                            if !four && rng.bool() { (widen_plan(&p), t, true, ap) } else { (p, t, four, !ap) }
                        } else if rng.chance(2, 3) { (edit_plan(rng, &p, four), t, four, ap) } else { let mut t = mutate(&t, rng); t.lp = None; t.med = None; t.oid = None; t.cl = None; t.extra = 0; t.bogus = 0;
                            t.path = super::c10::Slot::Absent; t.origin = super::c10::Slot::Absent; t.origin_raw = false; (p, t, four, ap) };
                        if eligible(&PduCand { four, ap, pdu: plan_pdu(&p, ap), tb: t.clone() }) || rng.chance(1, 20) { pool.push((p.clone(), t.clone(), four, ap)); (p, t, four, ap) } else { pool[0].clone() }
                    }
                    _ => mk(rng),
                };
                toks.push(show_pdu_cand(four, ap, &plan_pdu(&plan, ap), &tb));
            }
            let s = if rng.chance(1, 4) { "rfc4271" } else { "skipmed" };
            v.push(format!("sel {} {}", s, toks.join(" ")));
            if n <= 5 { v.push(format!("selperm {} {}", s, toks.join(" "))); }
        }
        // the generic helper on integers: all lists over {0..3} up to length 5, random longer ones
        for n in 0..=5usize {
            let mut cur = vec![0u32; n];
            loop {
                v.push(format!("gen{}", cur.iter().map(|x| format!(" {}", x)).collect::<String>()));
                let mut i = 0;
                while i < n { cur[i] += 1; if cur[i] < 4 { break; } cur[i] = 0; i += 1; }
                if i == n { break; }
            }
        }
        for _ in 0..2000 * k {
            let n = rng.usize(2, 30);
            let distinct = rng.chance(2, 3);
            let mut xs: Vec<u32> = (0..n).map(|_| if distinct { rng.u32() } else { rng.below(8) as u32 }).collect();
            if distinct { xs.sort(); xs.dedup(); for i in (1..xs.len()).rev() { let j = rng.below(i as u64 + 1) as usize; xs.swap(i, j); } }
            v.push(format!("gen{}", xs.iter().map(|x| format!(" {}", x)).collect::<String>()));
        }
        v
    }

    fn exec(&self, line: &str) -> String {
        let w: Vec<&str> = line.split(' ').collect();
        match w.as_slice() {
            [op @ ("sel" | "selperm"), s, rest @ ..] => {
                let perms = *op == "selperm";
                if perms && rest.len() > 6 { return "bad-op".into(); }
                let mut cands = Vec::new();
                for r in rest { match parse_cand(r) { Some(c) => cands.push(c), None => return "bad-op".into() } }
                // all candidates as route records or all as received UPDATEs
                let n_pdu = cands.iter().filter(|c| matches!(c, Cand::Pdu(_))).count();
                if n_pdu != 0 && n_pdu != cands.len() { return "bad-op".into(); }
                match *s { "skipmed" => sel::<SkipMed>(&cands, perms), "rfc4271" => sel::<Rfc4271>(&cands, perms), _ => "bad-op".into() }
            }
            ["gen", rest @ ..] => {
                let mut xs = Vec::new();
                for x in rest { match nat(x, u32::MAX as u128) { Some(x) => xs.push(x as u32), None => return "bad-op".into() } }
                let (b, k) = best_backup_generic(xs.iter().copied());
                let f = |o: Option<u32>| o.map(|v| v.to_string()).unwrap_or("-".into());
                format!("{},{}", f(b), f(k))
            }
            _ => "bad-op".into(),
        }
    }

    fn oracle(&self, line: &str, reply: &str) -> Result<(), String> {
        if reply == "bad-op" { return Ok(()); }
        if reply == "panic" { return Err("panic".into()); }
        if let Some(i) = reply.find("WRAP-BAD") { return Err(format!("candidates of a caller's own type (route, then age): {}", &reply[i..])); }
        let w: Vec<&str> = line.split(' ').collect();
        match w.as_slice() {
            [op @ ("sel" | "selperm"), s, rest @ ..] => {
                // (whether an UPDATE is accepted is not C11's subject; candidates given as UPDATEs are judged on c10.rs's
                // own reading of the PDU, an UPDATE it cannot walk is not judged)
                if reply == "rej" || reply == "pmerr" { return Ok(()); }
                let cands: Vec<Cand> = rest.iter().map(|r| parse_cand(r).unwrap()).collect();
                let Some(rs) = cand_specs(&cands) else { return Ok(()) };
                // the same candidates presented with separate and with shared attribute maps
                for (i, part) in reply.split(" | shared ").enumerate() {
                    let tag = |e: String| if i == 0 { e } else { format!("when candidates with equal attributes share one PaMap object: {}", e) };
                    // ` unsized:pos=b,k best=b gen=b,k`: what the helpers return for the same candidates
                    // handed over by an iterator without a size hint, when that differs
                    let (base, unsized_) = match part.split_once(" unsized:") { Some((a, b)) => (a, Some(b)), None => (part, None) };
                    judge_reply(op, s, &rs, base).map_err(tag)?;
                    if let Some(u) = unsized_ {
                        let t: Vec<&str> = u.split(' ').collect();
                        if t.len() != 3 { return Err("reply".into()); }
                        let as_reply = format!("{} val={} {} {}", t[0], t[0].trim_start_matches("pos="), t[1], t[2]);
                        judge_reply(op, s, &rs, &as_reply).map_err(|e| tag(format!("through an iterator without a size hint: {}", e)))?;
                    }
                }
                Ok(())
            }
            ["gen", rest @ ..] => {
                let xs: Vec<u32> = rest.iter().map(|x| x.parse().unwrap()).collect();
                let mut s = xs.clone(); s.sort();
                let distinct = s.windows(2).all(|w| w[0] != w[1]);
                if !distinct { return Ok(()); }
                let f = |o: Option<&u32>| o.map(|v| v.to_string()).unwrap_or("-".into());
                let want = format!("{},{}", f(s.first()), f(s.get(1)));
                if reply == want { Ok(()) } else { Err(format!("two smallest are {} but got {}", want, reply)) }
            }
            _ => Ok(()),
        }
    }

    fn nontrivial(&self, line: &str, reply: &str) -> bool {
        reply != "bad-op" && reply != "refused" && reply != "rej" && reply != "pmerr" && line.split(' ').count() > 2
    }

    fn class(&self, line: &str, reply: &str) -> String {
        let w: Vec<&str> = line.split(' ').collect();
        match w[0] {
            "sel" | "selperm" => {
                let n = w.len().saturating_sub(2);
                let nb = if n <= 6 { n.to_string() } else if n <= 16 { "7-16".into() } else { "17+".into() };
                let kind = if reply == "refused" { "refused" } else if reply.contains("-") && !reply.contains("/") && reply.contains("pos=") && reply.contains(",- val") { "no-backup" }
                    else if reply.contains("/-") { "no-backup" } else { "backup" };
                let kind = if reply == "rej" { "rej" } else { kind };
                let from = if w.get(2).map_or(false, |t| t.starts_with('u')) { "wire:" } else { "" };
                format!("{}:{}:{}n={}:{}", w[0], w.get(1).unwrap_or(&""), from, nb, kind)
            }
            "gen" => format!("gen:n={}", (w.len() - 1).min(6)),
            _ => "other".into(),
        }
    }
}
