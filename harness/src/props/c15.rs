//! C15: BMP messages decode faithfully; malformed ones cannot panic the monitor.
//!
//! request: `bmp <hex>` or `bmp <hex> <cfg>` (<cfg> = the SessionConfig token of C01/C02, used for
//! `RouteMonitoring::bgp_update(&cfg)`; default `4` = SessionConfig::modern()); reply: `err` | `panic` (from_octets) | an observation
//! line listing every accessor group (each group is `panic` if any accessor in
//! it panicked).
//! `bmpwf <hex> [<cfg>]`: the same, for a message the generator (or whoever wrote the corpus line) built
//! with the reference encoders below from WELL-FORMED parts and did not damage: the oracle then demands
//! that it is ACCEPTED (property clause "for every well-formed BMP message decoding succeeds").
//! `bmpchk <hex>`: `Message::check` (the framing test on the receive buffer, message.rs:171) on a cursor over the
//! octets: `ok:<len>` | `incomplete` | `illegal` | `panic`; the oracle holds it against RFC 7854 section 4.1.
//! `unspec`: reply for an accepted-or-rejected PeerUp / PeerDown whose embedded PDU does not carry the
//! BGP type octet of an OPEN resp. a NOTIFICATION and on which nothing panicked: such a message is
//! not well-formed and the property does not say whether it is accepted (both sides print the
//! class only; a panic anywhere keeps the full reply).
use crate::common::*;
use routecore::bmp::message::*;
use routecore::bgp::message::SessionConfig;
use std::panic::{catch_unwind, AssertUnwindSafe};

pub struct C15;

fn grp<F: FnOnce() -> String>(f: F) -> String {
    match catch_unwind(AssertUnwindSafe(f)) { Ok(s) => s, Err(_) => "panic".into() }
}

fn pph_str<O: AsRef<[u8]>>(p: PerPeerHeader<O>) -> String {
    let pt: u8 = p.peer_type().into();
    let addr = match p.address() {
        std::net::IpAddr::V4(a) => hex(&a.octets()),
        std::net::IpAddr::V6(a) => hex(&a.octets()),
    };
    // flag-derived accessors must be consistent with the flags byte
    let fl = p.flags();
    assert_eq!(p.is_ipv4(), fl & 0x80 == 0);
    assert_eq!(p.is_ipv6(), fl & 0x80 != 0);
    assert_eq!(p.is_pre_policy(), fl & 0x40 == 0);
    assert_eq!(p.is_post_policy(), fl & 0x40 != 0);
    assert_eq!(p.is_legacy_format(), fl & 0x20 != 0);
    let rib = p.rib_type();
    let want = if pt == 3 { RibType::LocRib } else if fl & 0x10 != 0 { RibType::AdjRibOut } else { RibType::AdjRibIn };
    assert_eq!(rib, want);
    let ts = p.timestamp();
    let ts = if ts.timestamp() == -8334601228800 { "min".to_string() } else {
        format!("{}.{}", ts.timestamp(), ts.timestamp_subsec_micros())
    };
    let _ = format!("{}", p);
    format!("{}:{}:{}:{}:{}:{}:{}", pt, fl, hex(p.distinguisher()), addr, p.asn().into_u32(), hex(&p.bgp_id()), ts)
}

fn tlvs_str(it: InformationTlvIter) -> String {
    let mut v = Vec::new();
    for t in it.take(100_000) {
        let ty: u16 = t.typ().into();
        let _ = format!("{}", t);
        v.push(format!("{}:{}:{}", ty, t.length(), hex(t.value())));
    }
    format!("[{}]", v.join(";"))
}

fn stat_str(s: Stat) -> String {
    use Stat::*;
    let _ = format!("{}", s);
    match s {
        Type0(v) => format!("u32:0:{}", v), Type1(v) => format!("u32:1:{}", v), Type2(v) => format!("u32:2:{}", v),
        Type3(v) => format!("u32:3:{}", v), Type4(v) => format!("u32:4:{}", v), Type5(v) => format!("u32:5:{}", v),
        Type6(v) => format!("u32:6:{}", v), Type11(v) => format!("u32:11:{}", v), Type12(v) => format!("u32:12:{}", v),
        Type13(v) => format!("u32:13:{}", v),
        Type7(v) => format!("u64:7:{}", v), Type8(v) => format!("u64:8:{}", v), Type14(v) => format!("u64:14:{}", v),
        Type15(v) => format!("u64:15:{}", v),
        Type9(a, s, v) => format!("as:9:{}:{}:{}", u16::from(a), s, v),
        Type10(a, s, v) => format!("as:10:{}:{}:{}", u16::from(a), s, v),
        Type16(a, s, v) => format!("as:16:{}:{}:{}", u16::from(a), s, v),
        Type17(a, s, v) => format!("as:17:{}:{}:{}", u16::from(a), s, v),
        Unimplemented(t, l) => format!("un:{}:{}", t, l),
    }
}

/// the embedded PDU of a PeerUp (both OPENs) / PeerDown (reason 1 or 3) carries another BGP type octet
/// than OPEN (1) / NOTIFICATION (3): positions from the bytes alone
pub fn embedded_type_wrong(b: &[u8]) -> bool {
    if b.len() < 6 { return false; }
    match b[5] {
        3 => {
            if b.len() < 68 + 19 { return false; }
            if b[68 + 18] != 1 { return true; }
            let l1 = u16::from_be_bytes([b[68 + 16], b[68 + 17]]) as usize;
            b.len() >= 68 + l1 + 19 && b[68 + l1 + 18] != 1
        }
        2 => b.len() >= 49 + 19 && (b[48] == 1 || b[48] == 3) && b[49 + 18] != 3,
        _ => false,
    }
}

fn observe(bytes: &[u8], cfg: &SessionConfig) -> String {
    let r = observe_full(bytes, cfg);
    if embedded_type_wrong(bytes) && r != "panic" && !r.contains("=panic") && !r.ends_with(" panic") { return "unspec".into(); }
    r
}

/// the observation, followed by the iterator-protocol verdict of the message's own iterators (an embedded
/// UPDATE carries its own `proto` group) unless an accessor group panicked
fn observe_full(bytes: &[u8], cfg: &SessionConfig) -> String {
    let r = observe_full0(bytes, cfg);
    if r == "err" || r.contains("=panic") || r.ends_with(" panic") { return r; }
    let mut p = Proto::new();
    if p.on() {
        if let Ok(msg) = Message::from_octets(bytes) {
            match &msg {
                Message::StatisticsReport(m) => p.it("stats()", || m.stats(), |s| format!("{:?}", s).replace(' ', ""), 1_000_000),
                Message::PeerUpNotification(m) => {
                    p.it("information_tlvs()", || m.information_tlvs(), |t| format!("{}:{}:{}", u16::from(t.typ()), t.length(), hex(t.value())), 100_000);
                    let (a, b) = m.bgp_open_sent_rcvd();
                    crate::props::c03::proto_of_open(&mut p, "sent.", &a, true, true, true);
                    crate::props::c03::proto_of_open(&mut p, "rcvd.", &b, true, true, true);
                }
                Message::InitiationMessage(m) => p.it("information_tlvs()", || m.information_tlvs(), |t| format!("{}:{}:{}", u16::from(t.typ()), t.length(), hex(t.value())), 100_000),
                Message::TerminationMessage(m) => p.it("information()", || m.information(), |i| format!("{:?}", i).replace(' ', "_"), 100_000),
                _ => {}
            }
        }
    }
    format!("{} {}", r, p.token())
}

fn observe_full0(bytes: &[u8], cfg: &SessionConfig) -> String {
    let msg = match Message::from_octets(bytes) {
        Ok(m) => m,
        Err(_) => return "err".into(),
    };
    let ch = grp(|| {
        let h = msg.common_header();
        let t: u8 = h.msg_type().into();
        assert_eq!(msg.length(), h.length());
        assert_eq!(msg.version(), h.version());
        assert_eq!(msg.msg_type(), h.msg_type());
        format!("{},{},{}", h.version(), h.length(), t)
    });
    let dbg = grp(|| { let _ = format!("{:?}", msg); let _ = format!("{}", msg); "ok".into() });
    let head = format!("ch={} dbg={}", ch, dbg);
    match &msg {
        Message::RouteMonitoring(m) => {
            let p = grp(|| pph_str(m.per_peer_header()));
            // the embedded UPDATE, observed through every accessor group of C01/C02 ...
            let u = grp(|| match m.bgp_update(cfg) {
                Ok(x) => crate::props::c02::observe_msg(&x, bytes.len() - 48),
                Err(_) => "err".into(),
            });
            // ... decodes exactly as it would on its own (`from_octets` on the same octets)
            let same = grp(|| {
                let alone = crate::props::c02::observe(cfg, &bytes[48..].to_vec());
                let octets_same = match (m.bgp_update(cfg), routecore::bgp::message::UpdateMessage::from_octets(&bytes[48..], cfg)) {
                    (Ok(x), Ok(y)) => x.as_ref() == &y.as_ref()[19..19 + x.as_ref().len()],
                    (Err(_), Err(_)) => true,
                    _ => false,
                };
                ((alone == u && octets_same) as u8).to_string()
            });
            format!("RM {} pph={} same={} upd={}", head, p, same, u)
        }
        Message::StatisticsReport(m) => {
            let p = grp(|| pph_str(m.per_peer_header()));
            let s = grp(|| {
                let _ = format!("{:?}", m);
                let v: Vec<String> = m.stats().take(1_000_000).map(stat_str).collect();
                format!("{}:[{}]", m.stats_count(), v.join(";"))
            });
            format!("SR {} pph={} stats={}", head, p, s)
        }
        Message::PeerDownNotification(m) => {
            let p = grp(|| pph_str(m.per_peer_header()));
            let r = grp(|| {
                let r = match m.reason() {
                    PeerDownReason::Reserved => 0, PeerDownReason::LocalNotification => 1, PeerDownReason::LocalFsm => 2,
                    PeerDownReason::RemoteNotification => 3, PeerDownReason::RemoteNodata => 4,
                    PeerDownReason::PeerDeconfigured => 5, PeerDownReason::Unknown => 6,
                };
                r.to_string()
            });
            let f = grp(|| match m.fsm() { Some(v) => v.to_string(), None => "none".into() });
            let n = grp(|| match m.notification() {
                Some(n) => {
                    // the NOTIFICATION accessors must not panic on what BMP accepted
                    let _ = n.code(); let _ = n.details(); let _ = n.data(); let _ = n.length();
                    hex(n.as_ref())
                }
                None => "none".into(),
            });
            format!("PD {} pph={} reason={} fsm={} notif={}", head, p, r, f, n)
        }
        Message::PeerUpNotification(m) => {
            let p = grp(|| pph_str(m.per_peer_header()));
            let l = grp(|| {
                let a = match m.local_address() {
                    std::net::IpAddr::V4(a) => hex(&a.octets()),
                    std::net::IpAddr::V6(a) => hex(&a.octets()),
                };
                format!("{}:{}:{}", a, m.local_port(), m.remote_port())
            });
            let s = grp(|| hex(m.bgp_open_sent().as_ref()));
            let r = grp(|| hex(m.bgp_open_rcvd().as_ref()));
            let sr = grp(|| { let (a, b) = m.bgp_open_sent_rcvd();
                if a.as_ref() == m.bgp_open_sent().as_ref() && b.as_ref() == m.bgp_open_rcvd().as_ref() { "same".into() } else { "differs".into() } });
            let t = grp(|| tlvs_str(m.information_tlvs()));
            // the configuration-deriving accessors must not panic (theorem peer_up_config_total); what they
            // read off each embedded OPEN is reported: AS, four-octet flag, ADD-PATH entries (E = Err), MP entries
            // (the derived SessionConfig values are C12's subject)
            let c = grp(|| {
                let _ = m.session_config();
                let _ = m.pph_session_config();
                let _ = m.supported_protocols();
                let (a, b) = m.bgp_open_sent_rcvd();
                let mut parts = vec![];
                for o in [&a, &b] {
                    let _ = o.holdtime(); let _ = o.identifier(); let _ = o.version();
                    let _ = o.get_software_version();
                    let _ = o.capabilities().count(); let _ = o.parameters().count();
                    let ap = match o.addpath_families_vec() { Ok(v) => v.len().to_string(), Err(_) => "E".into() };
                    parts.push(format!("{}.{}.{}.{}", o.my_asn().into_u32(), o.four_octet_capable() as u8, ap, o.multiprotocol_ids().count()));
                }
                format!("ok:{}", parts.join("/"))
            });
            format!("PU {} pph={} local={} sent={} rcvd={} pair={} tlvs={} cfg={}", head, p, l, s, r, sr, t, c)
        }
        Message::InitiationMessage(m) => {
            let t = grp(|| tlvs_str(m.information_tlvs()));
            format!("IN {} tlvs={}", head, t)
        }
        Message::TerminationMessage(m) => {
            let t = grp(|| {
                let mut v = Vec::new();
                for i in m.information().take(100_000) {
                    let _ = format!("{}", i);
                    v.push(match i {
                        TerminationInformation::CustomString(s) => if s.is_ascii() { format!("s:{}", hex(s.as_bytes())) } else { "s:*".into() },
                        TerminationInformation::AdminClose => "r:0".into(),
                        TerminationInformation::Unspecified => "r:1".into(),
                        TerminationInformation::OutOfResources => "r:2".into(),
                        TerminationInformation::RedundantConnection => "r:3".into(),
                        TerminationInformation::PermAdminClose => "r:4".into(),
                        TerminationInformation::Undefined(u) => format!("r:{}", u),
                    });
                }
                format!("[{}]", v.join(";"))
            });
            format!("TM {} info={}", head, t)
        }
        Message::RouteMirroring(m) => {
            let p = grp(|| pph_str(m.per_peer_header()));
            format!("MI {} pph={}", head, p)
        }
    }
}

/// RFC 7854 framing of a whole message, from the bytes alone (a necessary condition of well-formedness that
/// no byte deletion preserves): version 3, the header's length is the number of octets, a defined type, a
/// defined peer type, and per type: TLV / statistics sequences that end exactly at the end with the
/// prescribed lengths of the defined statistics, a defined peer-down reason followed by what 4.9 prescribes,
/// embedded BGP PDUs whose own header gives their length and the expected type
fn ref_framing_ok(b: &[u8]) -> bool {
    if b.len() < 6 || b[0] != 3 || u32::from_be_bytes([b[1], b[2], b[3], b[4]]) as usize != b.len() || b[5] > 6 { return false; }
    let typ = b[5];
    if typ != 4 && typ != 5 && (b.len() < 48 || b[6] > 3) { return false; }
    let tlvs_end = |mut p: usize| -> bool {
        while p < b.len() {
            if p + 4 > b.len() { return false; }
            p += 4 + u16::from_be_bytes([b[p + 2], b[p + 3]]) as usize;
        }
        p == b.len()
    };
    // a BGP PDU of type `t` at `p`: Some(its length)
    let pdu = |p: usize, t: u8, min: usize| -> Option<usize> {
        if p + 19 > b.len() || b[p..p + 16].iter().any(|x| *x != 0xff) || b[p + 18] != t { return None; }
        let l = u16::from_be_bytes([b[p + 16], b[p + 17]]) as usize;
        if l < min || p + l > b.len() { None } else { Some(l) }
    };
    match typ {
        0 => pdu(48, 2, 23) == Some(b.len() - 48),
        1 => {
            if b.len() < 52 { return false; }
            let n = u32::from_be_bytes([b[48], b[49], b[50], b[51]]);
            let mut p = 52;
            for _ in 0..n {
                if p + 4 > b.len() { return false; }
                let (t, l) = (u16::from_be_bytes([b[p], b[p + 1]]), u16::from_be_bytes([b[p + 2], b[p + 3]]) as usize);
                let want = match t { 0..=6 | 11..=13 => Some(4), 7 | 8 | 14 | 15 => Some(8), 9 | 10 | 16 | 17 => Some(11), _ => None };
                if want.map(|w| w != l).unwrap_or(false) { return false; }
                p += 4 + l;
            }
            p == b.len()
        }
        2 => b.len() >= 49 && match b[48] {
            1 | 3 => b.len() == 49 || pdu(49, 3, 21) == Some(b.len() - 49),
            2 => b.len() == 51,
            0 | 4 | 5 => b.len() == 49,
            _ => false,
        },
        3 => match pdu(68, 1, 29) { None => false, Some(l1) => match pdu(68 + l1, 1, 29) { None => false, Some(l2) => tlvs_end(68 + l1 + l2) } },
        4 | 5 => tlvs_end(6),
        _ => tlvs_end(48),
    }
}

// ---- reference encoders (independent of routecore) -------------------------

fn common(len: u32, typ: u8) -> Vec<u8> {
    let mut v = vec![3u8];
    v.extend_from_slice(&len.to_be_bytes());
    v.push(typ);
    v
}

fn gen_pph(rng: &mut Rng) -> Vec<u8> {
    let mut v = Vec::with_capacity(42);
    v.push(rng.below(4) as u8);
    let fl = match rng.below(4) { 0 => 0, 1 => 0x80, 2 => rng.u8() & 0xf0, _ => rng.u8() };
    v.push(fl);
    v.extend(rng.bytes(8));
    // IPv4 peers carry 12 zero octets + the address; IPv6 peers any 16 octets – including ::/96
    // (loopback ::1, IPv4-compatible), which must still be reported as IPv6 when the V flag is set
    if (fl & 0x80 == 0 && rng.chance(3, 4)) || (fl & 0x80 != 0 && rng.chance(1, 4)) { v.extend([0u8; 12]); v.extend(rng.bytes(4)); }
    else if rng.chance(1, 8) { let mut a = rng.bytes(16); for b in a.iter_mut().take(rng.usize(1, 15)) { *b = 0; } v.extend(a); }
    // IPv4-mapped ::ffff:a.b.c.d: sixteen octets of an IPv6 peer, never to be folded into the IPv4 address
    else if rng.chance(1, 8) { v.extend([0u8; 10]); v.extend([0xffu8, 0xff]); v.extend(rng.bytes(4)); }
    else { v.extend(rng.bytes(16)); }
    v.extend((rng.edgy(u32::MAX as u64) as u32).to_be_bytes());
    v.extend(rng.bytes(4));
    // timestamp: mostly sane, sometimes leap-second-ish or huge microseconds
    let s = match rng.below(6) { 0 => 59, 1 => 119, 2 => u32::MAX, _ => rng.u32() };
    let us = match rng.below(8) { 0 => 999_999, 1 => 1_000_000, 2 => 1_999_999, 3 => 2_000_000, 4 => 4_294_967, 5 => 4_294_968, 6 => u32::MAX, _ => rng.below(1_000_000) as u32 };
    v.extend(s.to_be_bytes());
    v.extend(us.to_be_bytes());
    v
}

/// the 16-octet local-address field of a PeerUp: IPv4 (12 zero octets + 4), IPv6, and the edges of the
/// "first 12 octets are zero" test (exactly one non-zero octet among the first 12 - the first, the last, any;
/// all 16 zero)
fn gen_local(rng: &mut Rng) -> Vec<u8> {
    match rng.below(6) {
        0 | 1 => { let mut v = vec![0u8; 12]; v.extend(rng.bytes(4)); v }
        2 => rng.bytes(16),
        3 => { let mut v = vec![0u8; 12]; v.extend(rng.bytes(4)); let i = *rng.pick(&[0usize, 11, 10, 1, 5]); v[i] = *rng.pick(&[1u8, 0x80, 0xff]); v }
        4 => vec![0u8; 16],
        _ => { let mut v = vec![0u8; 12]; v.extend(rng.bytes(4)); v[rng.usize(0, 11)] = rng.range(1, 255) as u8; v }
    }
}

fn bgp_header(len: u16, typ: u8) -> Vec<u8> {
    let mut v = vec![0xffu8; 16];
    v.extend(len.to_be_bytes());
    v.push(typ);
    v
}

/// a capability with content that `Capability::parse` accepts (mostly)
fn gen_cap(rng: &mut Rng) -> Vec<u8> {
    // near misses: a known code with a value one octet short / long, or a length that does not
    // fit the per-code rule (what the accessors rely on `Capability::parse` to have refused)
    if rng.chance(1, 10) {
        let code = *rng.pick(&[1u8, 2, 3, 5, 6, 8, 9, 64, 65, 66, 67, 68, 69, 70, 71, 73, 75, 76, 128, 130, 131]);
        let n = match rng.below(4) { 0 => 3, 1 => 5, _ => rng.usize(0, 9) };
        let mut c = vec![code, n as u8];
        c.extend(rng.bytes(n));
        if code == 69 && n >= 4 && rng.bool() { c[5] = *rng.pick(&[0u8, 1, 2, 3, 4]); }
        return c;
    }
    // ADD-PATH capabilities beyond the plain case: several tuples, a length that is not a multiple of four
    // (4k + r octets: `Capability::parse` looks at the first tuple only, `addpath_families_vec` reads
    // `chunks(4)` and must answer Err on the short last chunk), a later tuple with a direction outside 1..=3
    if rng.chance(1, 8) {
        let k = rng.usize(1, 4);
        let mut v = vec![];
        for _ in 0..k { v.extend((rng.range(1, 2) as u16).to_be_bytes()); v.push(*rng.pick(&[1u8, 2, 4, 128])); v.push(rng.range(1, 3) as u8); }
        match rng.below(4) {
            0 => {}                                                             // well-formed, k tuples
            1 => { let r = rng.usize(1, 3); v.extend(rng.bytes(r)); }      // 4k + r
            2 => { if k > 1 { let i = 4 * rng.usize(1, k - 1) + 3; v[i] = *rng.pick(&[0u8, 4, 7, 255]); } else { v[3] = 0; } }   // invalid later tuple (or direction 0 in the only one)
            _ => { let r = rng.usize(1, 3); v.extend(vec![0u8, 1, 1, 3][..r].to_vec()); }   // 4k + r, the fragment looks like the start of a tuple
        }
        let mut c = vec![69u8, v.len() as u8];
        c.extend(v);
        return c;
    }
    gen_cap_wf(rng)
}

/// a capability whose content follows its RFC (every branch is accepted by `Capability::parse`)
fn gen_cap_wf(rng: &mut Rng) -> Vec<u8> {
    let (code, val): (u8, Vec<u8>) = match rng.below(16) {
        0 => (1, { let mut v = (rng.range(1, 3) as u16).to_be_bytes().to_vec(); v.push(0); v.push(*rng.pick(&[1u8, 2, 4, 128, 133])); v }),
        1 => (2, vec![]),
        2 => (65, rng.bytes(4)),
        3 => (69, { let n = rng.usize(1, 3); let mut v = vec![]; for _ in 0..n { v.extend((rng.range(1, 2) as u16).to_be_bytes()); v.push(1); v.push(rng.range(1, 3) as u8); } v }),
        4 => (64, { let mut v = rng.bytes(2); for _ in 0..rng.usize(0, 3) { v.extend(rng.bytes(4)); } v }),
        5 => (6, vec![]),
        6 => (9, vec![rng.u8()]),
        7 => (70, vec![]),
        8 => (73, { let h = rng.usize(0, 6); let d = rng.usize(0, 6); let mut v = vec![h as u8]; v.extend(rng.bytes(h)); v.push(d as u8); v.extend(rng.bytes(d)); v }),
        9 => (75, { let l = rng.usize(0, 10); let mut v = vec![l as u8]; v.extend(rng.bytes(l)); v }),
        10 => (68, { let n = rng.usize(1, 4); rng.bytes(n) }),
        11 => (5, { let mut v = vec![]; for _ in 0..rng.usize(1, 3) { v.extend(rng.bytes(6)); } v }),
        12 => (71, { let mut v = vec![]; for _ in 0..rng.usize(1, 3) { v.extend(rng.bytes(7)); } v }),
        13 => (3, { let n = rng.usize(0, 3); let mut v = rng.bytes(4); v.push(n as u8); v.extend(rng.bytes(2 * n)); v }),
        14 => (rng.range(10, 63) as u8, { let n = rng.usize(0, 8); rng.bytes(n) }),
        _ => (128, vec![]),
    };
    let mut c = vec![code, val.len() as u8];
    c.extend(val);
    c
}

pub fn gen_open(rng: &mut Rng) -> Vec<u8> { gen_open_with(rng, gen_cap) }

/// an OPEN all of whose capabilities are well-formed
pub fn gen_open_wf(rng: &mut Rng) -> Vec<u8> { gen_open_with(rng, gen_cap_wf) }

fn gen_open_with(rng: &mut Rng, cap: fn(&mut Rng) -> Vec<u8>) -> Vec<u8> {
    let mut params: Vec<u8> = Vec::new();
    let nparams = rng.usize(0, 3);
    for _ in 0..nparams {
        if rng.chance(5, 6) {
            let mut caps = Vec::new();
            for _ in 0..rng.usize(1, 3) { caps.extend(cap(rng)); }
            if caps.len() > 200 { caps.truncate(0); }
            params.push(2); params.push(caps.len() as u8); params.extend(caps);
        } else {
            let n = rng.usize(0, 5);
            params.push(1); params.push(n as u8); params.extend(rng.bytes(n));
        }
    }
    if params.len() > 255 { params.clear(); }
    let mut v = bgp_header((29 + params.len()) as u16, 1);
    v.push(4);
    v.extend(rng.u16().to_be_bytes());
    v.extend(rng.u16().to_be_bytes());
    v.extend(rng.bytes(4));
    v.push(params.len() as u8);
    v.extend(params);
    v
}

/// exactly `l` octets (l = 0 or l >= 2) of capabilities that `Capability::parse` accepts
fn fill_caps(rng: &mut Rng, l: usize) -> Vec<u8> {
    let mut v = Vec::new();
    if l >= 2 && rng.bool() {
        // one capability of an unassigned code filling the whole parameter
        v.push(*rng.pick(&[10u8, 63, 200])); v.push((l - 2) as u8); v.extend(rng.bytes(l - 2));
        return v;
    }
    let mut left = l;
    if left % 2 == 1 && left >= 3 { v.extend([9u8, 1, rng.u8()]); left -= 3; }          // BGP Role: one octet
    while left >= 2 { v.extend(*rng.pick(&[[2u8, 0], [6, 0], [70, 0], [128, 0]])); left -= 2; }
    v
}

/// an OPEN with an optional parameter at the top of the one-octet length range (253, 254, 255 octets):
/// type 1 / an unassigned type with arbitrary value, or type 2 with a capability list filling it.  Only
/// `[t, 253, ..]` with Opt Parm Len 255 is well-formed (`wf`); the others overrun Opt Parm Len whatever it
/// says (2 + 254 > 255) - consistent and inconsistent Opt Parm Len, sometimes a second parameter behind
/// (the decoder must account in more than eight bits)
pub fn gen_open_big(rng: &mut Rng, wf: bool) -> Vec<u8> {
    let plen = if wf { 253 } else { *rng.pick(&[253usize, 254, 255, 255]) };
    let ptype = match rng.below(3) { 0 => 1u8, 1 => if wf { 1 } else { *rng.pick(&[0u8, 3, 7, 255]) }, _ => 2 };
    let mut params = vec![ptype, plen as u8];
    params.extend(if ptype == 2 { fill_caps(rng, plen) } else { rng.bytes(plen) });
    if !wf && rng.chance(1, 3) { let n = *rng.pick(&[253usize, 0, 1, 20]); params.extend([1u8, n as u8]); params.extend(rng.bytes(n)); }
    let optlen: u8 = if wf { 255 } else { match rng.below(5) { 0 | 1 => 255, 2 => (params.len() & 0xff) as u8, 3 => ((2 + plen) & 0xff) as u8, _ => rng.u8() } };
    let mut v = bgp_header((29 + params.len()) as u16, 1);
    v.push(4);
    v.extend(rng.u16().to_be_bytes());
    v.extend(rng.u16().to_be_bytes());
    v.extend(rng.bytes(4));
    v.push(optlen);
    v.extend(params);
    v
}

fn gen_tlv(rng: &mut Rng, string_only: bool) -> Vec<u8> {
    let typ: u16 = if string_only { 0 } else { *rng.pick(&[0u16, 1, 2, 3, 4, 5, 77, 65535]) };
    // rarely a TLV at the top of the u16 length range (position arithmetic must not be done in u16)
    let n = if rng.chance(1, 3000) { *rng.pick(&[65531usize, 65532, 65533, 65535]) } else { rng.usize(0, 12) };
    let mut v = typ.to_be_bytes().to_vec();
    v.extend((n as u16).to_be_bytes());
    v.extend(rng.bytes(n));
    v
}

fn gen_stat(rng: &mut Rng) -> Vec<u8> {
    let t = rng.below(22) as u16;
    let natural: usize = match t { 0..=6 | 11..=13 => 4, 7 | 8 | 14 | 15 => 8, 9 | 10 | 16 | 17 => 11, _ => rng.usize(0, 12) };
    let len = if rng.chance(1, 10) { rng.usize(0, 12) } else { natural };
    let mut v = t.to_be_bytes().to_vec();
    v.extend((len as u16).to_be_bytes());
    v.extend(rng.bytes(len));
    v
}

fn gen_update(rng: &mut Rng) -> Vec<u8> {
    // small conventional UPDATE: withdrawals, ORIGIN + AS_PATH + NEXT_HOP, announcements
    let mut wd = Vec::new();
    for _ in 0..rng.usize(0, 2) { let l = rng.usize(0, 4) * 8; wd.push(l as u8); wd.extend(rng.bytes(l / 8)); }
    let mut attrs = vec![0x40, 1, 1, rng.below(3) as u8, 0x40, 2, 6, 2, 1];
    attrs.extend(rng.bytes(4));
    attrs.extend([0x40, 3, 4]); attrs.extend(rng.bytes(4));
    let mut ann = Vec::new();
    for _ in 0..rng.usize(0, 3) { let l = rng.usize(0, 4) * 8; ann.push(l as u8); ann.extend(rng.bytes(l / 8)); }
    let total = 19 + 2 + wd.len() + 2 + attrs.len() + ann.len();
    let mut v = bgp_header(total as u16, 2);
    v.extend((wd.len() as u16).to_be_bytes()); v.extend(wd);
    v.extend((attrs.len() as u16).to_be_bytes()); v.extend(attrs);
    v.extend(ann);
    v
}

fn gen_notification(rng: &mut Rng) -> Vec<u8> {
    // one in five: Cease / Administrative Shutdown or Reset (6/2, 6/4) with a Shutdown Communication (RFC 9003: a
    // length octet and up to 255 octets of UTF-8) of 0, 1, 127, 128, 129, 200, 255 or a random number of octets; the
    // embedded NOTIFICATION is reported byte for byte whatever its data says (round-7 seed: `NotificationMessage::parse`,
    // used only for the NOTIFICATION inside a Peer Down, refused a communication above the 128 octets of RFC 8203)
    if rng.chance(1, 5) {
        let k = *rng.pick(&[0usize, 1, 127, 128, 129, 200, 255, 64]);
        let k = if k == 64 { rng.usize(0, 255) } else { k };
        let mut v = bgp_header((21 + 1 + k) as u16, 3);
        v.push(6); v.push(*rng.pick(&[2u8, 4]));
        v.push(k as u8);
        v.extend((0..k).map(|i| b'a' + (i % 26) as u8));
        return v;
    }
    let n = rng.usize(0, 8);
    let mut v = bgp_header((21 + n) as u16, 3);
    v.push(rng.below(9) as u8); v.push(rng.below(12) as u8);
    v.extend(rng.bytes(n));
    v
}

pub fn gen_valid(rng: &mut Rng, typ: u8) -> Vec<u8> {
    let mut body = Vec::new();
    match typ {
        0 => { body.extend(gen_pph(rng)); body.extend(gen_update(rng)); }
        100 => { body.extend(gen_pph(rng)); }   // RouteMonitoring whose UPDATE the caller appends
        1 => {
            body.extend(gen_pph(rng));
            let n = rng.usize(0, 6);
            body.extend((n as u32).to_be_bytes());
            for _ in 0..n { body.extend(gen_stat(rng)); }
        }
        2 => {
            body.extend(gen_pph(rng));
            let reason = rng.below(7) as u8;
            body.push(reason);
            match reason {
                1 | 3 => { if rng.chance(4, 5) { body.extend(gen_notification(rng)); } }
                2 => { body.extend(rng.bytes(2)); }
                _ => {}
            }
        }
        3 => {
            body.extend(gen_pph(rng));
            body.extend(gen_local(rng));
            body.extend(rng.bytes(4));
            // one time in six: an OPEN (sent or received) with a 253..255-octet optional parameter
            match rng.below(12) {
                0 => { body.extend(gen_open_big(rng, false)); body.extend(gen_open(rng)); }
                1 => { body.extend(gen_open(rng)); body.extend(gen_open_big(rng, false)); }
                _ => { body.extend(gen_open(rng)); body.extend(gen_open(rng)); }
            }
            for _ in 0..rng.usize(0, 3) { let so = rng.bool(); body.extend(gen_tlv(rng, so)); }
        }
        4 => { for _ in 0..rng.usize(0, 4) { body.extend(gen_tlv(rng, false)); } }
        5 => {
            for _ in 0..rng.usize(0, 3) {
                if rng.bool() { body.extend(gen_tlv(rng, true)); } else {
                    let l = if rng.chance(1, 6) { rng.usize(0, 5) } else { 2 };
                    body.extend((*rng.pick(&[1u16, 2, 3, 1, 2, 3, 4, 77, 65535])).to_be_bytes());
                    body.extend((l as u16).to_be_bytes());
                    if l == 2 { body.extend((rng.below(7) as u16).to_be_bytes()); } else { body.extend(rng.bytes(l)); }
                }
            }
        }
        _ => { body.extend(gen_pph(rng)); let n = rng.usize(0, 20); body.extend(rng.bytes(n)); }
    }
    let mut v = common((6 + body.len()) as u32, if typ == 100 { 0 } else { typ });
    v.extend(body);
    v
}

/// a WELL-FORMED message of type `typ` (0..=6), built from the reference encoders only: per-peer header with
/// a defined peer type, statistics with the length their type prescribes (unknown types: any length),
/// defined peer-down reasons with what RFC 7854 4.9 puts after them, two OPENs whose capabilities follow
/// their RFCs, Information / termination / mirroring TLVs with consistent lengths
pub fn gen_valid_wf(rng: &mut Rng, typ: u8) -> Vec<u8> {
    let mut body = Vec::new();
    match typ {
        0 => { body.extend(gen_pph(rng)); body.extend(gen_update(rng)); }
        1 => {
            body.extend(gen_pph(rng));
            let n = match rng.below(8) { 0 => 0, 1 => rng.usize(20, 40), _ => rng.usize(1, 6) };
            body.extend((n as u32).to_be_bytes());
            for _ in 0..n {
                let t = rng.below(22) as u16;
                // an unknown type may carry a value of any length - sometimes a long one
                let len: usize = match t { 0..=6 | 11..=13 => 4, 7 | 8 | 14 | 15 => 8, 9 | 10 | 16 | 17 => 11,
                    _ => if rng.chance(1, 40) { rng.usize(200, 700) } else { rng.usize(0, 12) } };
                body.extend(t.to_be_bytes()); body.extend((len as u16).to_be_bytes()); body.extend(rng.bytes(len));
            }
        }
        2 => {
            body.extend(gen_pph(rng));
            let reason = rng.below(6) as u8;
            body.push(reason);
            match reason {
                1 | 3 => { if rng.chance(4, 5) { body.extend(gen_notification(rng)); } }
                2 => { body.extend(rng.bytes(2)); }
                _ => {}
            }
        }
        3 => {
            body.extend(gen_pph(rng));
            body.extend(gen_local(rng));
            body.extend(rng.bytes(4));
            // one time in eight: the largest optional-parameter block (Opt Parm Len 255, one 253-octet parameter)
            match rng.below(16) {
                0 => { body.extend(gen_open_big(rng, true)); body.extend(gen_open_wf(rng)); }
                1 => { body.extend(gen_open_wf(rng)); body.extend(gen_open_big(rng, true)); }
                _ => { body.extend(gen_open_wf(rng)); body.extend(gen_open_wf(rng)); }
            }
            for _ in 0..rng.usize(0, 5) { let so = rng.bool(); body.extend(gen_tlv(rng, so)); }
        }
        4 => { for _ in 0..rng.usize(0, 6) { body.extend(gen_tlv(rng, false)); } }
        5 => {
            for _ in 0..rng.usize(0, 5) {
                if rng.bool() { body.extend(gen_tlv(rng, true)); } else {
                    body.extend(1u16.to_be_bytes()); body.extend(2u16.to_be_bytes());
                    body.extend((rng.below(7) as u16).to_be_bytes());
                }
            }
        }
        _ => {
            body.extend(gen_pph(rng));
            // Route Mirroring TLVs (RFC 7854 4.7): type 0 = a BGP message, type 1 = a two-octet information code
            for _ in 0..rng.usize(0, 3) {
                if rng.bool() { let u = gen_update(rng); body.extend(0u16.to_be_bytes()); body.extend((u.len() as u16).to_be_bytes()); body.extend(u); }
                else { body.extend(1u16.to_be_bytes()); body.extend(2u16.to_be_bytes()); body.extend((rng.below(2) as u16).to_be_bytes()); }
            }
        }
    }
    let mut v = common((6 + body.len()) as u32, typ);
    v.extend(body);
    v
}

/// a RouteMonitoring message around an UPDATE of any family (the C01 generator and reference
/// encoder), sometimes damaged (the C02 mutator), with the configuration to decode it under
fn gen_rm(rng: &mut Rng, i: usize) -> (Vec<u8>, String, bool) {
    use crate::props::{c01, c02};
    let (c, content) = c01::gen_case(rng, Some(i % 15), 120);
    let mut u = c01::ref_encode(&c, &content);
    let mut cfg = c01::cfg_token(&c);
    let mut clean = true;
    match rng.below(8) {
        0 | 1 => { let other = gen_update(rng); u = c02::mutate(rng, u, &other); clean = false; }
        2 => { cfg = c02::gen_cfg(rng); }                       // decoded under an unrelated configuration
        3 => { u.extend(rng.bytes(3)); clean = false; }         // octets after the UPDATE's announced length
        _ => {}
    }
    let mut v = gen_valid(rng, 100);
    v.extend(u);
    let l = v.len() as u32;
    v[1..5].copy_from_slice(&l.to_be_bytes());
    (v, cfg, clean)
}

pub fn mutate(rng: &mut Rng, v: &mut Vec<u8>) {
    if v.is_empty() { return; }
    match rng.below(9) {
        0 => { let i = rng.usize(0, v.len() - 1); v[i] ^= 1 << rng.below(8); }
        1 => { let n = rng.usize(0, v.len()); v.truncate(n); }
        2 => { let n = rng.usize(1, 6); v.extend(rng.bytes(n)); }
        3 => { // header length field disagrees with the bytes supplied
            if v.len() >= 5 { let l: u32 = match rng.below(6) { 0 => 0, 1 => 3, 2 => 5, 3 => 6, 4 => u32::MAX, _ => rng.edgy(2 * v.len() as u64) as u32 }; v[1..5].copy_from_slice(&l.to_be_bytes()); }
        }
        4 => { let i = rng.usize(0, v.len() - 1); v[i] = *rng.pick(&[0u8, 1, 2, 3, 0x7f, 0x80, 0xfe, 0xff]); }
        5 => { if v.len() > 2 { let i = rng.usize(0, v.len() - 2); v.remove(i); } }
        6 => { let i = rng.usize(0, v.len()); v.insert(i, rng.u8()); }
        7 => { if v.len() >= 6 { v[5] = rng.below(9) as u8; } }
        _ => { // length-like bytes to extremes
            let i = rng.usize(0, v.len() - 1); v[i] = if rng.bool() { v[i].wrapping_add(1) } else { v[i].wrapping_sub(1) };
        }
    }
}

/// a Route Monitoring message around a LARGE well-formed UPDATE (C01's `gen_big`: 4096, 4097, ... 65535 octets): "an
/// embedded UPDATE decodes exactly as it would on its own" has no 4096-octet limit - that limit is the BGP framing
/// layer's, and `UpdateMessage::from_octets` accepts the PDU on its own (round-6 seed: `RouteMonitoring::check`
/// refusing an embedded PDU above 4096 octets was a correspondence-only report)
fn gen_rm_big(rng: &mut Rng, kind: usize, target: usize, exact: bool) -> (Vec<u8>, String) {
    use crate::props::c01;
    let (c, content) = c01::gen_big(rng, kind, target, exact);
    let u = c01::ref_encode(&c, &content);
    let mut v = gen_valid(rng, 100);
    v.extend(u);
    let l = v.len() as u32;
    v[1..5].copy_from_slice(&l.to_be_bytes());
    (v, c01::cfg_token(&c))
}

impl Prop for C15 {
    fn gen(&self, rng: &mut Rng, tier: Tier) -> Vec<String> {
        let n = match tier { Tier::Quick => 40_000, Tier::Thorough => 1_500_000 };
        let mut out = Vec::new();
        for (k, (kind, target, exact)) in [(0usize, 4096usize, true), (1, 4097, true), (2, 9000, false), (3, 30000, false), (1, 65535, true), (4, 4443, false)].into_iter().enumerate() {
            let _ = k;
            let (v, cfg) = gen_rm_big(rng, kind, target, exact);
            out.push(format!("bmpwf {} {}", hex(&v), cfg));
        }
        for i in 0..n {
            let typ = (i % 7) as u8;
            if typ == 0 && i % 2 == 0 {
                let (mut v, cfg, mut clean) = gen_rm(rng, i / 14);
                if rng.chance(1, 8) { mutate(rng, &mut v); clean = false; }
                out.push(format!("{} {} {}", if clean { "bmpwf" } else { "bmp" }, hex(&v), cfg));
                continue;
            }
            // three in ten: a well-formed message, which must be accepted
            if i % 10 < 3 || i % 97 == 0 {
                out.push(format!("bmpwf {}", hex(&gen_valid_wf(rng, typ))));
                continue;
            }
            let mut v = gen_valid(rng, typ);
            match rng.below(10) {
                0..=4 => {}
                5..=7 => { mutate(rng, &mut v); }
                8 => { for _ in 0..rng.usize(2, 4) { mutate(rng, &mut v); } }
                _ => { let n = rng.usize(0, 80); v = rng.bytes(n); if v.len() > 5 && rng.bool() { v[0] = 3; v[5] = rng.below(8) as u8; } }
            }
            out.push(format!("bmp {}", hex(&v)));
        }
        // Message::check on buffers of every length 0..=12 around the size rules, and on random prefixes
        for l in 0..=12usize {
            for len in [0u32, 1, 4, 5, 6, 7, 8, 11, 12, 13, 0x7fff_ffff, 0x8000_0000, 0xffff_fffa, 0xffff_ffff] {
                let mut v = vec![3u8];
                v.extend_from_slice(&len.to_be_bytes());
                v.extend_from_slice(&[4, 0, 0, 0, 0, 0, 0, 0]);
                v.truncate(l);
                out.push(format!("bmpchk {}", hex(&v)));
            }
        }
        for _ in 0..(n / 100) {
            let t = rng.below(7) as u8;
            let mut v = gen_valid(rng, t);
            match rng.below(4) { 0 => {} 1 => { let k = rng.usize(0, v.len()); v.truncate(k); } 2 => { mutate(rng, &mut v); } _ => { let k = rng.usize(0, 8); v.extend(rng.bytes(k)); } }
            out.push(format!("bmpchk {}", hex(&v)));
        }
        out
    }

    fn exec(&self, line: &str) -> String {
        let w: Vec<&str> = line.split(' ').collect();
        match w.as_slice() {
            ["bmpchk", h] => match unhex(h) {
                Some(b) => {
                    let mut cur = std::io::Cursor::new(b);
                    match Message::<Vec<u8>>::check(&mut cur) {
                        Ok(l) => format!("ok:{}", l),
                        Err(MessageError::Incomplete) => "incomplete".into(),
                        Err(MessageError::IllegalSize) => "illegal".into(),
                        Err(_) => "other".into(),
                    }
                }
                None => "bad-op".into(),
            },
            ["bmp" | "bmpwf", h] => match unhex(h) { Some(b) => observe(&b, &SessionConfig::modern()), None => "bad-op".into() },
            ["bmp" | "bmpwf", h, c] => match (unhex(h), crate::props::c02::parse_cfg(c)) {
                (Some(b), Some(c)) => observe(&b, &crate::props::c02::make_cfg(&c)),
                _ => "bad-op".into(),
            },
            _ => "bad-op".into(),
        }
    }

    /// totality + the parts of faithfulness that need no model:
    /// no panic anywhere; header fields equal the bytes; embedded UPDATE decodes as on its own.
    fn oracle(&self, line: &str, reply: &str) -> Result<(), String> {
        if line.starts_with("bmpchk ") {
            if reply == "panic" { return Err("bmp::Message::check panicked".into()); }
            if reply == "bad-op" { return Ok(()); }
            // RFC 7854 section 4.1: the length field counts the whole message, common header included
            let b = unhex(line.split(' ').nth(1).unwrap_or("")).unwrap_or_default();
            let want = if b.len() < 5 { "incomplete".to_string() } else {
                let l = u32::from_be_bytes([b[1], b[2], b[3], b[4]]);
                if l <= 6 { "illegal".into() } else if (l as u64) <= b.len() as u64 { format!("ok:{}", l) } else { "incomplete".into() }
            };
            return if reply == want { Ok(()) } else { Err(format!("Message::check answered {} for a buffer of {} octets, RFC 7854 framing says {}", reply, b.len(), want)) };
        }
        if reply == "panic" { return Err("bmp::Message::from_octets panicked".into()); }
        if reply == "bad-op" { return Ok(()); }
        if reply == "err" {
            // "for every well-formed BMP message decoding succeeds"
            if line.starts_with("bmpwf ") {
                // the claim of the request line is re-examined (RFC 7854 framing): a line that lost it - e.g.
                // a candidate of the shrinker - is an ordinary `bmp` line
                let b = unhex(line.split(' ').nth(1).unwrap_or("")).unwrap_or_default();
                if ref_framing_ok(&b) {
                    return Err(format!("a well-formed BMP message (type {}) was rejected", b[5]));
                }
            }
            return Ok(());
        }
        if reply == "unspec" { return Ok(()); }   // embedded PDU of another BGP type: outside the property, nothing panicked
        proto_judge(reply)?;   // iterator protocol: the message's own iterators and those of an embedded UPDATE
        for f in reply.split(' ') {
            if f.ends_with("=panic") { return Err(format!("accessor group `{}` panicked on an accepted message", f)); }
        }
        if reply.starts_with("RM ") && !reply.contains(" same=1 ") {
            return Err("embedded UPDATE decodes differently from the same UPDATE on its own".into());
        }
        if let Some(i) = reply.find(" upd=ok ") {
            // the accessor groups of the embedded UPDATE are `name=value` items separated by ` | `
            for g in reply[i + 8..].split(" | ") {
                if g.ends_with("=panic") { return Err(format!("accessor group `{}` of the embedded UPDATE panicked", g)); }
            }
        }
        if reply.contains("pair=differs") { return Err("bgp_open_sent_rcvd differs from bgp_open_sent/bgp_open_rcvd".into()); }
        // header fields are the bytes
        let b = unhex(line.split(' ').nth(1).unwrap()).unwrap();
        let want = format!("ch={},{},{}", b[0], u32::from_be_bytes([b[1], b[2], b[3], b[4]]), b[5]);
        if !reply.contains(&want) { return Err(format!("common header reported differently from the bytes: want {}", want)); }
        // fields at their RFC 7854 offsets
        let field = |name: &str| reply.split(' ').find_map(|f| f.strip_prefix(name)).map(|s| s.to_string());
        if reply.starts_with("PD ") {
            let r = b[48].min(6);
            if field("reason=") != Some(r.to_string()) { return Err("peer-down reason differs from byte 48".into()); }
            let f = if b[48] == 2 { u16::from_be_bytes([b[49], b[50]]).to_string() } else { "none".into() };
            if field("fsm=") != Some(f.clone()) { return Err(format!("peer-down FSM code should be {}", f)); }
            // the embedded NOTIFICATION: as many bytes as its own length field says
            let n = if (b[48] == 1 || b[48] == 3) && b.len() > 49 {
                let l = u16::from_be_bytes([b[49 + 16], b[49 + 17]]) as usize;
                hex(&b[49..49 + l])
            } else { "none".into() };
            if field("notif=") != Some(n) { return Err("peer-down NOTIFICATION is not the message that follows the reason".into()); }
        }
        if reply.starts_with("SR ") {
            let c = u32::from_be_bytes([b[48], b[49], b[50], b[51]]);
            let st = field("stats=").unwrap_or_default();
            if !st.starts_with(&format!("{}:[", c)) { return Err("stats_count differs from bytes 48..52".into()); }
            let items = st[st.find('[').unwrap() + 1..st.len() - 1].split(';').filter(|x| !x.is_empty()).count();
            if items as u32 != c { return Err(format!("stats() yielded {} items for count {}", items, c)); }
        }
        // TLV lists, statistics and termination items are the encoded ones (reference walk over the bytes)
        let walk_tlvs = |from: usize| -> Option<String> {
            let mut v = Vec::new();
            let mut p = from;
            while p < b.len() {
                if p + 4 > b.len() { return None; }
                let (t, l) = (u16::from_be_bytes([b[p], b[p + 1]]), u16::from_be_bytes([b[p + 2], b[p + 3]]) as usize);
                if p + 4 + l > b.len() { return None; }
                v.push(format!("{}:{}:{}", t, l, hex(&b[p + 4..p + 4 + l])));
                p += 4 + l;
            }
            Some(format!("[{}]", v.join(";")))
        };
        if reply.starts_with("IN ") {
            if let Some(w) = walk_tlvs(6) { if field("tlvs=") != Some(w) { return Err("Initiation: information_tlvs() does not yield the encoded TLVs".into()); } }
        }
        if reply.starts_with("TM ") {
            // strings byte for byte (ASCII ones: from_utf8_lossy is the identity), two-octet reasons by value;
            // a non-string TLV of another length is malformed: no demand on that item
            let mut v: Vec<Option<String>> = Vec::new();
            let mut p = 6; let mut ok = true;
            while p < b.len() {
                if p + 4 > b.len() { ok = false; break; }
                let (t, l) = (u16::from_be_bytes([b[p], b[p + 1]]), u16::from_be_bytes([b[p + 2], b[p + 3]]) as usize);
                if p + 4 + l > b.len() { ok = false; break; }
                let val = &b[p + 4..p + 4 + l];
                v.push(if t == 0 { Some(if val.is_ascii() { format!("s:{}", hex(val)) } else { "s:*".into() }) }
                    else if l == 2 { Some(format!("r:{}", u16::from_be_bytes([val[0], val[1]]))) } else { None });
                p += 4 + l;
            }
            if ok {
                let info = field("info=").unwrap_or_default();
                let got: Vec<&str> = info.trim_start_matches('[').trim_end_matches(']').split(';').filter(|x| !x.is_empty()).collect();
                if got.len() != v.len() { return Err(format!("Termination: information() yielded {} items for {} TLVs", got.len(), v.len())); }
                for (g, w) in got.iter().zip(v.iter()) {
                    if let Some(w) = w { if g != w { return Err(format!("Termination: item `{}` reported for the encoded `{}`", g, w)); } }
                }
            }
        }
        if reply.starts_with("SR ") {
            // every statistic whose length is the one its type prescribes: type and value as encoded
            let st = field("stats=").unwrap_or_default();
            let got: Vec<&str> = st[st.find('[').map(|i| i + 1).unwrap_or(0)..st.len().saturating_sub(1)].split(';').filter(|x| !x.is_empty()).collect();
            let mut p = 52;
            for g in got {
                if p + 4 > b.len() { break; }
                let (t, l) = (u16::from_be_bytes([b[p], b[p + 1]]), u16::from_be_bytes([b[p + 2], b[p + 3]]) as usize);
                if p + 4 + l > b.len() { break; }
                let val = &b[p + 4..p + 4 + l];
                let be = |x: &[u8]| x.iter().fold(0u64, |a, c| (a << 8) | *c as u64);
                let want = match (t, l) {
                    (0..=6 | 11..=13, 4) => Some(format!("u32:{}:{}", t, be(val))),
                    (7 | 8 | 14 | 15, 8) => Some(format!("u64:{}:{}", t, be(val))),
                    (9 | 10 | 16 | 17, 11) => Some(format!("as:{}:{}:{}:{}", t, be(&val[0..2]), val[2], be(&val[3..11]))),
                    (18.., _) => Some(format!("un:{}:{}", t, l)),
                    _ => None,     // a defined type with another length: malformed, no demand
                };
                if let Some(w) = want { if g != w { return Err(format!("statistic `{}` reported for the encoded `{}`", g, w)); } }
                p += 4 + l;
            }
        }
        if reply.starts_with("PU ") {
            // local address: all 16 octets unless the first 12 are zero (then an IPv4 address in the last 4 -
            // demanded only when the per-peer header's V flag agrees: ::/96 with V set is left open)
            let lf = field("local=").unwrap_or_default();
            let la = lf.split(':').next().unwrap_or("").to_string();
            if b[48..60].iter().any(|x| *x != 0) {
                if la != hex(&b[48..64]) { return Err(format!("local address should be the 16 octets {}", hex(&b[48..64]))); }
            } else if b[7] & 0x80 == 0 {
                if la != hex(&b[60..64]) { return Err(format!("local address should be the IPv4 address {}", hex(&b[60..64]))); }
            }
            let l = field("local=").unwrap_or_default();
            let want = format!(":{}:{}", u16::from_be_bytes([b[64], b[65]]), u16::from_be_bytes([b[66], b[67]]));
            if !l.ends_with(&want) { return Err("local/remote port differ from bytes 64..68".into()); }
            let sent = field("sent=").unwrap_or_default();
            if !hex(&b[68..]).starts_with(&sent) { return Err("bgp_open_sent is not the bytes at offset 68".into()); }
            let sl = sent.len() / 2;
            let rcvd = field("rcvd=").unwrap_or_default();
            if !hex(&b[68 + sl..]).starts_with(&rcvd) { return Err("bgp_open_rcvd does not follow bgp_open_sent".into()); }
            // each OPEN is as long as its own length field says, and the Information TLVs are what follows them
            for (name, o, at) in [("sent", &sent, 68usize), ("rcvd", &rcvd, 68 + sl)] {
                if b.len() >= at + 18 && o.len() / 2 != u16::from_be_bytes([b[at + 16], b[at + 17]]) as usize {
                    return Err(format!("bgp_open_{} is not as long as the OPEN's length field says", name));
                }
            }
            if let Some(w) = walk_tlvs(68 + sl + rcvd.len() / 2) {
                if field("tlvs=") != Some(w) { return Err("PeerUp: information_tlvs() does not yield the TLVs after the two OPENs".into()); }
            }
        }
        if reply.contains(" pph=") {
            let p = field("pph=").unwrap_or_default();
            let want = format!("{}:{}:{}:", b[6], b[7], hex(&b[8..16]));
            if !p.starts_with(&want) { return Err("per-peer header type/flags/distinguisher differ from the bytes".into()); }
            // the peer address: all 16 octets when the V flag is set, the last four otherwise
            let addr = if b[7] & 0x80 != 0 { hex(&b[16..32]) } else { hex(&b[28..32]) };
            if p.split(':').nth(3) != Some(addr.as_str()) { return Err(format!("per-peer header address should be {} (V flag {})", addr, b[7] >> 7)); }
            let asn = u32::from_be_bytes([b[32], b[33], b[34], b[35]]);
            if !p.contains(&format!(":{}:{}:", asn, hex(&b[36..40]))) { return Err("per-peer header ASN / BGP id differ from the bytes".into()); }
        }
        Ok(())
    }

    fn class(&self, line: &str, reply: &str) -> String {
        let k = reply.split(' ').next().unwrap_or("");
        if line.starts_with("bmpchk ") { return format!("check:{}", k.split(':').next().unwrap_or("")); }
        // well-formed messages (claim of the line confirmed by the reference framing) are counted apart
        if line.starts_with("bmpwf ") {
            let ok = unhex(line.split(' ').nth(1).unwrap_or("")).map(|b| ref_framing_ok(&b)).unwrap_or(false);
            return format!("wf{}:{}", if ok { "" } else { "-CLAIM-NOT-CONFIRMED" }, k);
        }
        if k == "RM" {
            // the embedded UPDATE: rejected / accepted, and which NLRI it carries
            let u = if reply.contains(" upd=err") { "upd-err".to_string() } else {
                let fams = crate::props::c02::group(&reply[reply.find(" upd=").map(|i| i + 5).unwrap_or(0)..], "fams").unwrap_or("?");
                format!("upd-ok:{}", if fams == "-,-,-,-" { "no-nlri" } else if fams.ends_with(",-,-") { "conventional" } else { "mp" })
            };
            return format!("RM:{}", u);
        }
        if k == "PU" { return format!("PU:{}", reply.split(' ').find_map(|f| f.strip_prefix("cfg=")).map(|c| c.split(':').next().unwrap_or("")).unwrap_or("?")); }
        k.to_string()
    }
}
