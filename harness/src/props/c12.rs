//! C12: the negotiated parse configuration matches the capabilities both sides sent.
//!
//! Request lines
//!   neg  <localOpenHex> <peerOpenHex> <legacy 0|1>
//!        H: OpenMessage::addpath_intersection + four_octet_capable of both (the helper)
//!        B: PeerUpNotification::session_config      (sent = local, rcvd = peer)
//!        P: PeerUpNotification::pph_session_config  (4-octet from the per-peer header A flag)
//!        legacy: per-peer header flags 0 = 0x00, 1 = 0x20 (A), 2 = 0x60 (A+L), 3 = 0xd0 (V+L+O)
//!   fdm  <a.s> <dir> <a.s> <dir>      AddpathFamDir::new(..).merge(AddpathFamDir::new(..))
//!   live <fam,fam|-> <peerOpenHex>
//!        a real Session (loopback TCP, current-thread runtime) configured with ADD-PATH for the
//!        given families, state OpenSent, Event::BgpOpen(peer) injected; read through
//!        Connection::verif_session_config and by decoding two probe UPDATEs.
//!   live2 <fam,fam|-> <peerOpen1Hex> <peerOpen2Hex>
//!        ONE Session, two connections: exchange #1, connection lost, new stream through the public
//!        attach_stream, exchange #2; observed after #2 (must be what pair #2 alone gives).
//! Families under observation are fixed: 1/1 1/2 2/1 2/2 1/128 25/70 (+ whatever the OPENs mention).
//!
//! The oracle decodes both OPENs with its own decoder (below) and evaluates the property's
//! definition: rx(fam) <=> local advertises Receive|Both and peer advertises Send|Both, tx
//! symmetrically, four-octet <=> both carry capability 65 (P: <=> not legacy); the three
//! derivations must give the same answer (live lines: the helper is run on the OPEN the session
//! sent and the peer's).  For a family an OPEN names twice with different directions the property
//! does not say which entry counts: any pairing of a local with a peer entry is accepted, but the
//! derivations must still agree with each other.  OPENs whose ADD-PATH capabilities are not
//! well-formed (RFC 7911: length a non-zero multiple of 4, every direction 1..3) are outside the
//! property: any outcome but a panic is accepted (routecore's behaviour there is still mirrored by
//! the model: helper/BMP derive no ADD-PATH at all, the live session refuses the OPEN).
use crate::common::*;
use crate::props::c03::RefOpen;
use bytes::Bytes;
use routecore::bgp::fsm::session::{BgpConfig, Command, Message as SessMsg, Session};
use routecore::bgp::fsm::state_machine::{Event, State};
use routecore::bgp::message::{Message as BgpMsg, OpenMessage, SessionConfig};
use routecore::bgp::types::{AddpathDirection, AddpathFamDir, AfiSafiType};
use routecore::bmp::message::PeerUpNotification;
use std::collections::BTreeMap;

pub struct C12;

type Fam = (u16, u8);

fn fam_of(f: AfiSafiType) -> Fam { f.into() }

const WATCH: [Fam; 6] = [(1, 1), (1, 2), (2, 1), (2, 2), (1, 128), (25, 70)];

fn show_cfg(sc: &SessionConfig, fams: &[Fam]) -> String {
    // everything the configuration holds (sorted), then rx for every watched family
    let mut all: Vec<(Fam, u8)> = sc.enabled_addpaths().map(|(f, d)| (fam_of(f), u8::from(d))).collect();
    all.sort();
    let cfg = if all.is_empty() { "-".to_string() } else {
        all.iter().map(|((a, s), d)| format!("{}/{}:{}", a, s, d)).collect::<Vec<_>>().join(",")
    };
    let rx: String = fams.iter().map(|(a, s)| if sc.rx_addpath(AfiSafiType::from((*a, *s))) { '1' } else { '0' }).collect();
    format!("four={} cfg={} rx={}", sc.four_octet_enabled() as u8, cfg, rx)
}

fn watched(extra: &[Fam]) -> Vec<Fam> {
    let mut v = WATCH.to_vec();
    let mut e: Vec<Fam> = extra.to_vec();
    e.sort();
    for f in e { if !v.contains(&f) { v.push(f); } }
    v
}

/// families mentioned in ADD-PATH capabilities of an OPEN (reference decoding)
fn ref_ap(bs: &[u8]) -> Option<(bool, Vec<(Fam, u8)>)> {
    let o = crate::props::c03::ref_decode_open(bs)?;
    let caps = o.caps()?;
    let four = caps.iter().any(|(c, _)| *c == 65);
    let mut v = vec![];
    for (_, val) in caps.iter().filter(|(c, _)| *c == 69) {
        for c in val.chunks(4) { v.push(((u16::from_be_bytes([c[0], c[1]]), c[2]), c[3])); }
    }
    Some((four, v))
}

fn peer_up(sent: &[u8], rcvd: &[u8], flags: u8) -> Vec<u8> {
    let mut m = vec![3u8, 0, 0, 0, 0, 3];
    // per-peer header: type 0, flags, RD 8, address 16, AS 4, BGP id 4, ts 8
    m.push(0);
    m.push(flags);
    m.extend_from_slice(&[0; 8]);
    m.extend_from_slice(&[0, 0, 0, 0, 0, 0, 0, 0, 0, 0, 0, 0, 10, 0, 0, 2]);
    m.extend_from_slice(&[0, 0, 0xfd, 0xe8]);
    m.extend_from_slice(&[10, 0, 0, 2]);
    m.extend_from_slice(&[0; 8]);
    // local address 16, local port, remote port
    m.extend_from_slice(&[0, 0, 0, 0, 0, 0, 0, 0, 0, 0, 0, 0, 10, 0, 0, 1]);
    m.extend_from_slice(&[0, 179, 0xc0, 0x01]);
    m.extend_from_slice(sent);
    m.extend_from_slice(rcvd);
    let l = m.len() as u32;
    m[1..5].copy_from_slice(&l.to_be_bytes());
    m
}

/// per-peer header flags for the request's last field: 0 = none, 1 = A (legacy 2-octet AS_PATH
/// format, RFC 7854 4.2), 2 = A + L (post-policy), 3 = V + L + O without A
fn flags_of(g: &str) -> Option<u8> { match g { "0" => Some(0), "1" => Some(0x20), "2" => Some(0x60), "3" => Some(0xd0), _ => None } }

fn exec_neg(lo: Vec<u8>, po: Vec<u8>, flags: u8) -> String {
    let (l, p) = match (OpenMessage::from_octets(lo.clone()), OpenMessage::from_octets(po.clone())) {
        (Ok(l), Ok(p)) => (l, p),
        _ => return "err".into(),
    };
    let mut extra: Vec<Fam> = vec![];
    for m in [&l, &p] { if let Ok(v) = m.addpath_families_vec() { for (f, _) in v { extra.push(fam_of(f)); } } }
    let fams = watched(&extra);
    // the helper, used the way its documentation says
    let mut h = SessionConfig::modern();
    h.set_four_octet_asns(routecore::bgp::message::update::FourOctetAsns(l.four_octet_capable() && p.four_octet_capable()));
    for fd in l.addpath_intersection(&p) { h.add_famdir(fd); }
    let pu = match PeerUpNotification::from_octets(peer_up(&lo, &po, flags)) {
        Ok(x) => x,
        Err(_) => return format!("H {} | B err", show_cfg(&h, &fams)),
    };
    let b = pu.session_config();
    let (pc, inc) = pu.pph_session_config();
    format!("H {} | B {} | P {} incons={}", show_cfg(&h, &fams), show_cfg(&b, &fams), show_cfg(&pc, &fams), inc.is_some() as u8)
}

#[derive(Clone)]
struct Cfg { addpath: Vec<AfiSafiType> }
impl BgpConfig for Cfg {
    fn local_asn(&self) -> inetnum::asn::Asn { inetnum::asn::Asn::from_u32(65001) }
    fn bgp_id(&self) -> [u8; 4] { [10, 0, 0, 1] }
    fn remote_addr_allowed(&self, _: std::net::IpAddr) -> bool { true }
    fn remote_asn_allowed(&self, _: inetnum::asn::Asn) -> bool { true }
    fn hold_time(&self) -> Option<u16> { Some(90) }
    fn is_exact(&self) -> bool { false }
    fn protocols(&self) -> Vec<AfiSafiType> { vec![AfiSafiType::Ipv4Unicast, AfiSafiType::Ipv6Unicast] }
    fn addpath(&self) -> Vec<AfiSafiType> { self.addpath.clone() }
}

fn update_with(aspath: &[u8], nlri: &[u8]) -> Vec<u8> {
    let mut attrs = vec![0x40, 1, 1, 0]; // ORIGIN IGP
    attrs.extend_from_slice(&[0x40, 2, aspath.len() as u8]); attrs.extend_from_slice(aspath);
    attrs.extend_from_slice(&[0x40, 3, 4, 10, 0, 0, 2]);
    let mut m = vec![0xffu8; 16];
    let len = 19 + 2 + 2 + attrs.len() + nlri.len();
    m.extend_from_slice(&(len as u16).to_be_bytes()); m.push(2);
    m.extend_from_slice(&[0, 0]);
    m.extend_from_slice(&(attrs.len() as u16).to_be_bytes());
    m.extend_from_slice(&attrs);
    m.extend_from_slice(nlri);
    m
}

fn exec_live(fams_cfg: Vec<Fam>, po: Vec<u8>, delay: bool) -> String {
    let peer = match OpenMessage::from_octets(Bytes::from(po)) { Ok(p) => p, Err(_) => return "err".into() };
    let rt = tokio::runtime::Builder::new_current_thread().enable_all().build().unwrap();
    rt.block_on(async move {
        let listener = crate::retry_io!(tokio::net::TcpListener::bind("127.0.0.1:0").await);
        let addr = listener.local_addr().unwrap();
        let _client = crate::retry_io!(tokio::net::TcpStream::connect(addr).await);
        let (server, _) = crate::retry_io!(listener.accept().await);
        // closed with a reset: no TIME_WAIT entry per line (the thorough tier opens ~90 000 connections in two minutes,
        // more than the ephemeral port range can hold for 60 s each)
        let _ = _client.set_linger(Some(std::time::Duration::ZERO));
        let _ = server.set_linger(Some(std::time::Duration::ZERO));
        let (rd, _wr) = server.into_split();
        let (tx, mut rx) = tokio::sync::mpsc::channel::<SessMsg>(64);
        let (_cmd_tx, cmd_rx) = tokio::sync::mpsc::channel::<Command>(16);
        let (pdu_tx, mut pdu_rx) = tokio::sync::mpsc::channel::<BgpMsg<Bytes>>(64);
        let cfg = Cfg { addpath: fams_cfg.iter().map(|(a, s)| AfiSafiType::from((*a, *s))).collect() };
        let mut s = Session::new(cfg, rd, tx, cmd_rx, pdu_tx);
        // `delay`: the other copy of the negotiation code – the peer's OPEN arrives in Active while the
        // DelayOpenTimer runs (Event 20); the session then sends its own OPEN from that arm
        let mut open_sent: Option<OpenMessage<Bytes>> = None;
        if delay {
            s.verif_set_state(State::Active);
            s.verif_start_delay_open_timer();
        } else {
            s.verif_set_state(State::OpenSent);
            // what this session advertises
            s.send_open();
            open_sent = match pdu_rx.try_recv() { Ok(BgpMsg::Open(o)) => Some(o), _ => return "no-open-sent".to_string() };
        }
        let mut extra: Vec<Fam> = fams_cfg.clone();
        if let Ok(v) = peer.addpath_families_vec() { for (f, _) in v { extra.push(fam_of(f)); } }
        let fams = watched(&extra);
        let r = if delay { s.verif_inject_event(Event::BgpOpenWithDelayOpenTimerRunning(peer)).await }
                else { s.verif_inject_event(Event::BgpOpen(peer)).await };
        while rx.try_recv().is_ok() {}
        if delay {
            while let Ok(m) = pdu_rx.try_recv() { if let BgpMsg::Open(o) = m { open_sent = Some(o); } }
        }
        observe(&mut s, &open_sent, r.is_err(), &fams)
    })
}

/// what the session advertised, the configuration its connection decodes with, two probe UPDATEs
fn observe(s: &mut Session<Cfg>, open_sent: &Option<OpenMessage<Bytes>>, inject_err: bool, fams: &[Fam]) -> String {
        let (sent4, sentap) = match open_sent {
            Some(sent) => (sent.four_octet_capable() as u8, match sent.addpath_families_vec() {
                Ok(v) if v.is_empty() => "-".to_string(),
                Ok(v) => v.iter().map(|(f, d)| { let (a, s) = fam_of(*f); format!("{}/{}/{}", a, s, u8::from(*d)) }).collect::<Vec<_>>().join(","),
                Err(_) => "E".into(),
            }),
            None => (9, "no-open".to_string()),
        };
        if inject_err { return format!("L inject-err sent4={} sentap={}", sent4, sentap); }
        let conn = match s.verif_connection_mut() { Some(c) => c, None => return "L no-connection".to_string() };
        let cfgs = show_cfg(conn.verif_session_config(), fams);
        // probe 1: conventional IPv4 NLRI bytes 00 00 00 00 08 0a, valid both ways: with ADD-PATH one
        // NLRI (path id 0, 10.0.0.0/8), without it five (four times 0/0, then 10.0.0.0/8)
        conn.verif_push_bytes(&update_with(&[], &[0, 0, 0, 0, 8, 10]));
        let p1 = match conn.verif_parse_frame() {
            Ok(Some(BgpMsg::Update(u))) => match u.announcements() {
                Ok(it) => {
                    let v: Vec<String> = it.take(100).map(|n| match n { Ok(n) => format!("{:?}", n), Err(_) => "Err".into() }).collect();
                    if v.len() == 1 && v[0].contains("Addpath") { "pathid" }
                    else if v.len() == 5 && v.iter().all(|x| !x.contains("Addpath") && x != "Err") { "plain" }
                    else { "other" }
                }
                Err(_) => "err",
            },
            _ => "noframe",
        };
        // probe 2: AS_PATH bytes 02 02 0001 0002 0201 0003, valid both ways: four-octet = one segment
        // of 2 ASNs (65538, 33619971); two-octet = segments [1, 2] and [3]
        let conn = s.verif_connection_mut().unwrap();
        let p2 = if conn.verif_buffered() != 0 { "stuck" } else {
            conn.verif_push_bytes(&update_with(&[2, 2, 0, 1, 0, 2, 2, 1, 0, 3], &[]));
            match conn.verif_parse_frame() {
                Ok(Some(BgpMsg::Update(u))) => match u.aspath() {
                    Ok(Some(p)) => match p.hops().count() { 2 => "as4", 3 => "as2", _ => "other" },
                    _ => "err",
                },
                _ => "noframe",
            }
        };
        format!("L {} sent4={} sentap={} probe={} aspath={}", cfgs, sent4, sentap, p1, p2)
}

/// ONE Session used for two connections: OPEN exchange #1 (state OpenSent, BgpOpen(peer1)), the
/// connection is lost (TcpConnectionFails), the session is started again (state Connect) and a new
/// TCP stream is handed to it through the public `attach_stream` (which raises
/// TcpConnectionConfirmed: the session sends its OPEN and is in OpenSent), OPEN exchange #2
/// (BgpOpen(peer2)); observed after #2.  The configuration of connection #2 must be what the two
/// OPENs of connection #2 give.
fn exec_live2(fams_cfg: Vec<Fam>, po1: Vec<u8>, po2: Vec<u8>) -> String {
    let (peer1, peer2) = match (OpenMessage::from_octets(Bytes::from(po1)), OpenMessage::from_octets(Bytes::from(po2.clone()))) {
        (Ok(a), Ok(b)) => (a, b), _ => return "err".into() };
    let rt = tokio::runtime::Builder::new_current_thread().enable_all().build().unwrap();
    rt.block_on(async move {
        use tokio::io::AsyncWriteExt;
        let listener = crate::retry_io!(tokio::net::TcpListener::bind("127.0.0.1:0").await);
        let addr = listener.local_addr().unwrap();
        let _client1 = crate::retry_io!(tokio::net::TcpStream::connect(addr).await);
        let (server, _) = crate::retry_io!(listener.accept().await);
        let _ = _client1.set_linger(Some(std::time::Duration::ZERO));
        let _ = server.set_linger(Some(std::time::Duration::ZERO));
        let (rd, _wr) = server.into_split();
        let (tx, mut rx) = tokio::sync::mpsc::channel::<SessMsg>(64);
        let (_cmd_tx, cmd_rx) = tokio::sync::mpsc::channel::<Command>(16);
        let (pdu_tx, mut pdu_rx) = tokio::sync::mpsc::channel::<BgpMsg<Bytes>>(64);
        let cfg = Cfg { addpath: fams_cfg.iter().map(|(a, s)| AfiSafiType::from((*a, *s))).collect() };
        let mut s = Session::new(cfg, rd, tx, cmd_rx, pdu_tx);
        // connection #1
        s.verif_set_state(State::OpenSent);
        s.send_open();
        let r1 = s.verif_inject_event(Event::BgpOpen(peer1)).await;
        while rx.try_recv().is_ok() {}
        while pdu_rx.try_recv().is_ok() {}
        if r1.is_err() { return "L2 first-err".to_string(); }
        // connection #1 is lost; the session is started again and waits in Connect
        let _ = s.verif_inject_event(Event::TcpConnectionFails).await;
        let _ = s.verif_take_connection();
        s.verif_set_timers(false, false, false, false);
        s.verif_set_state(State::Connect);
        while rx.try_recv().is_ok() {}
        while pdu_rx.try_recv().is_ok() {}
        // connection #2: the peer connects again and sends its new OPEN; the stream goes to the same Session
        let mut client2 = crate::retry_io!(tokio::net::TcpStream::connect(addr).await);
        let (server2, _) = crate::retry_io!(listener.accept().await);
        let _ = client2.set_linger(Some(std::time::Duration::ZERO));
        let _ = server2.set_linger(Some(std::time::Duration::ZERO));
        let _ = client2.write_all(&po2).await;
        let (rd2, _wr2) = server2.into_split();
        match tokio::time::timeout(std::time::Duration::from_secs(5), s.attach_stream(rd2)).await { Ok(()) => {}, Err(_) => return "L2 attach-hang".to_string() }
        let open_sent = match pdu_rx.try_recv() { Ok(BgpMsg::Open(o)) => Some(o), _ => return format!("L2 no-open-sent state={:?}", s.state()) };
        if s.state() != State::OpenSent { return format!("L2 state={:?}", s.state()); }
        let mut extra: Vec<Fam> = fams_cfg.clone();
        if let Ok(v) = peer2.addpath_families_vec() { for (f, _) in v { extra.push(fam_of(f)); } }
        let fams = watched(&extra);
        let r2 = s.verif_inject_event(Event::BgpOpen(peer2)).await;
        while rx.try_recv().is_ok() {}
        observe(&mut s, &open_sent, r2.is_err(), &fams)
    })
}

// ---------------------------------------------------------------------------

fn parse_fams(s: &str) -> Option<Vec<Fam>> {
    if s == "-" { return Some(vec![]); }
    s.split(',').map(|e| { let (a, b) = e.split_once('.')?; Some((a.parse().ok()?, b.parse().ok()?)) }).collect()
}

/// OPEN with optional 4-octet capability and ADD-PATH capabilities (each a list of (fam, dir)),
/// laid out one capability per parameter or all in one
/// The same capabilities in another legal arrangement of Optional Parameters, chosen by the content (so that the
/// generators stay functions of their PRNG draws): an EMPTY Capabilities parameter (`02 00`, RFC 5492 allows a
/// parameter to list no capability) first / in the middle / last, or an unrelated parameter type first. The derived
/// configuration depends on the capabilities the OPEN carries, not on where they sit (round-6 seed: a hand-written
/// `capabilities()` iterator that ended at the first empty parameter).
fn vary_layout(mut params: Vec<(u8, Vec<u8>)>) -> Vec<(u8, Vec<u8>)> {
    let h: usize = params.iter().flat_map(|(_, v)| v.iter()).fold(params.len() * 7, |a, b| (a * 31 + *b as usize) % 1009);
    match h % 6 {
        0 => params.insert(0, (2, vec![])),
        1 => { let at = params.len() / 2; params.insert(at, (2, vec![])); }
        2 => params.push((2, vec![])),
        3 => params.insert(0, (1, vec![0, 1, 2])),
        _ => {}
    }
    params
}

pub fn mk_open(four: bool, aps: &[Vec<(Fam, u8)>], one_param: bool, extra_mp: bool) -> Vec<u8> {
    let mut caps: Vec<Vec<u8>> = vec![];
    if extra_mp { caps.push(vec![1, 4, 0, 1, 0, 1]); }
    if four { caps.push(vec![65, 4, 0, 0, 0xfd, 0xe8]); }
    for ap in aps {
        let mut v = vec![69, (4 * ap.len()) as u8];
        for ((a, s), d) in ap { v.extend_from_slice(&a.to_be_bytes()); v.push(*s); v.push(*d); }
        caps.push(v);
    }
    let params: Vec<(u8, Vec<u8>)> = if one_param {
        if caps.is_empty() { vec![] } else { vec![(2, caps.concat())] }
    } else { caps.into_iter().map(|c| (2, c)).collect() };
    RefOpen { ver: 4, asn2: 23456, ht: 90, id: [10, 0, 0, 9], params: vary_layout(params) }.encode()
}

/// OPEN whose ADD-PATH capabilities are given as raw values (any length, any direction octet)
pub fn mk_open_raw(four: bool, ap_vals: &[Vec<u8>], one_param: bool, extra_mp: bool) -> Vec<u8> {
    let mut caps: Vec<Vec<u8>> = vec![];
    if extra_mp { caps.push(vec![1, 4, 0, 1, 0, 1]); }
    if four { caps.push(vec![65, 4, 0, 0, 0xfd, 0xe8]); }
    for val in ap_vals { let mut v = vec![69, val.len() as u8]; v.extend_from_slice(val); caps.push(v); }
    let params: Vec<(u8, Vec<u8>)> = if one_param {
        if caps.is_empty() { vec![] } else { vec![(2, caps.concat())] }
    } else { caps.into_iter().map(|c| (2, c)).collect() };
    RefOpen { ver: 4, asn2: 23456, ht: 90, id: [10, 0, 0, 9], params: vary_layout(params) }.encode()
}

/// an ADD-PATH capability value that `from_octets` may let through although it is not well-formed
fn malformed_ap_vals(rng: &mut Rng) -> Vec<Vec<u8>> {
    let pool: [Fam; 4] = [(1, 1), (2, 1), (1, 2), (25, 70)];
    let ent = |f: Fam, d: u8| { let a = f.0.to_be_bytes(); vec![a[0], a[1], f.1, d] };
    let good = |rng: &mut Rng| { let f = *rng.pick(&pool); ent(f, rng.range(1, 3) as u8) };
    let bad_dir = |rng: &mut Rng| *rng.pick(&[0u8, 0, 4, 7, 128, 255]);
    match rng.below(7) {
        0 => { let mut v = good(rng); let f = *rng.pick(&pool); v.extend(ent(f, bad_dir(rng))); vec![v] }          // later tuple bad
        1 => { let f = *rng.pick(&pool); let mut v = ent(f, 0); if rng.bool() { v.extend(good(rng)); } vec![v] }    // first tuple direction 0
        2 => { let mut v = good(rng); let k = rng.usize(1, 3); v.extend(rng.bytes(k)); vec![v] }                    // length 4k+r
        3 => vec![good(rng), { let f = *rng.pick(&pool); ent(f, bad_dir(rng)) }],                                   // second capability bad
        4 => vec![vec![], good(rng)],                                                                               // zero-length capability first
        5 => { let mut v = good(rng); v.extend(good(rng)); let f = *rng.pick(&pool); v.extend(ent(f, bad_dir(rng))); v.extend(good(rng)); vec![v] }
        _ => { let f = *rng.pick(&pool); vec![ent(f, bad_dir(rng))] }                                              // first tuple bad (> 3: refused by from_octets)
    }
}

fn dirs_to_aps(fams: &[Fam], dirs: &[u8], split: bool) -> Vec<Vec<(Fam, u8)>> {
    let entries: Vec<(Fam, u8)> = fams.iter().zip(dirs).filter(|(_, d)| **d != 0).map(|(f, d)| (*f, *d)).collect();
    if entries.is_empty() { return vec![]; }
    if split { entries.into_iter().map(|e| vec![e]).collect() } else { vec![entries] }
}

/// `four=<0|1> cfg=<-|a/s:d,..> rx=<bits>` -> (four, stored directions, rx bits)
fn parse_cfg(part: &str) -> Option<(bool, BTreeMap<Fam, u8>, String)> {
    let mut it = part.split(' ');
    let four = match it.next()?.strip_prefix("four=")? { "1" => true, "0" => false, _ => return None };
    let cfg = it.next()?.strip_prefix("cfg=")?;
    let rx = it.next()?.strip_prefix("rx=")?.to_string();
    if it.next().is_some() { return None; }
    let mut map = BTreeMap::new();
    if cfg != "-" { for e in cfg.split(',') {
        let (f, d) = e.split_once(':')?; let (a, s) = f.split_once('/')?;
        map.insert((a.parse().ok()?, s.parse().ok()?), d.parse().ok()?);
    } }
    Some((four, map, rx))
}

fn strip_four(part: &str) -> &str { part.split_once(' ').map(|x| x.1).unwrap_or("") }

/// the property's definition for one family: what negotiation may yield given everything the two
/// OPENs say about it (one value unless an OPEN names the family twice with different directions)
fn allowed(local: &[(Fam, u8)], peer: &[(Fam, u8)], f: Fam) -> Vec<u8> {
    let dirs = |l: &[(Fam, u8)]| { let v: Vec<u8> = l.iter().filter(|(g, _)| *g == f).map(|(_, d)| *d).collect(); if v.is_empty() { vec![0] } else { v } };
    let mut out = vec![];
    for l in dirs(local) { for p in dirs(peer) {
        let rx = (l & 1 != 0) && (p & 2 != 0);
        let tx = (l & 2 != 0) && (p & 1 != 0);
        let d = (rx as u8) | ((tx as u8) << 1);
        if !out.contains(&d) { out.push(d); }
    } }
    out
}

fn judge_cfg(who: &str, part: &str, four: bool, local: &[(Fam, u8)], peer: &[(Fam, u8)], fams: &[Fam]) -> Result<(), String> {
    let (got4, map, rx) = parse_cfg(part).ok_or_else(|| format!("{}: no configuration derived: `{}`", who, part))?;
    if got4 != four { return Err(format!("{}: four-octet {} but expected {}", who, got4, four)); }
    let mut all: Vec<Fam> = fams.to_vec();
    for f in map.keys() { if !all.contains(f) { all.push(*f); } }
    for f in &all {
        let d = map.get(f).copied().unwrap_or(0);
        let ok = allowed(local, peer, *f);
        if !ok.contains(&d) {
            return Err(format!("{}: family {}/{} negotiated as {} (1 = receive, 2 = send, 3 = both, 0 = none), the OPENs give {:?}", who, f.0, f.1, d, ok));
        }
    }
    if rx.len() != fams.len() { return Err(format!("{}: rx field", who)); }
    for (i, f) in fams.iter().enumerate() {
        let d = map.get(f).copied().unwrap_or(0);
        if (rx.as_bytes()[i] == b'1') != (d & 1 != 0) { return Err(format!("{}: rx_addpath({}/{}) disagrees with the stored direction {}", who, f.0, f.1, d)); }
    }
    Ok(())
}

fn nodup(l: &[(Fam, u8)]) -> bool { (0..l.len()).all(|i| (0..i).all(|j| l[i].0 != l[j].0)) }

impl Prop for C12 {
    fn gen(&self, rng: &mut Rng, tier: Tier) -> Vec<String> {
        let mut v = vec![];
        let f4: [Fam; 4] = [(1, 1), (2, 1), (1, 2), (25, 70)];
        // exhaustive: 16 direction pairs x 4-octet on/off on both sides x legacy flag, one family
        for ld in 0..4u8 { for pd in 0..4u8 { for l4 in [false, true] { for p4 in [false, true] { for legacy in [0, 1] {
            let lo = mk_open(l4, &dirs_to_aps(&f4[..1], &[ld], false), true, true);
            let po = mk_open(p4, &dirs_to_aps(&f4[..1], &[pd], false), false, false);
            v.push(format!("neg {} {} {}", hex(&lo), hex(&po), legacy));
            // other per-peer flag octets with the same A bit (L, O, V set)
            if ld == 3 && pd == 3 { v.push(format!("neg {} {} {}", hex(&lo), hex(&po), legacy + 2)); }
        } } } } }
        // AddpathFamDir::merge, exhaustively over directions x same / different family
        for fx in [(1u16, 1u8), (2, 1), (25, 70)] { for fy in [(1u16, 1u8), (2, 1), (1, 2)] { for dx in 1..=3u8 { for dy in 1..=3u8 {
            v.push(format!("fdm {}.{} {} {}.{} {}", fx.0, fx.1, dx, fy.0, fy.1, dy));
        } } } }
        // exhaustive: all subsets of 4 families on both sides (direction SendReceive / mixed), both layouts
        for lm in 0..16u32 { for pm in 0..16u32 {
            let ld: Vec<u8> = (0..4).map(|i| if lm >> i & 1 == 1 { [3u8, 1, 2, 3][i] } else { 0 }).collect();
            let pd: Vec<u8> = (0..4).map(|i| if pm >> i & 1 == 1 { [3u8, 2, 3, 1][(i + (lm as usize)) % 4] } else { 0 }).collect();
            let split = (lm + pm) % 2 == 0;
            let lo = mk_open(true, &dirs_to_aps(&f4, &ld, split), !split, false);
            let po = mk_open(pm % 3 != 0, &dirs_to_aps(&f4, &pd, !split), split, true);
            v.push(format!("neg {} {} {}", hex(&lo), hex(&po), lm % 2));
        } }
        // live session: local = SendReceive for a subset of families; peer direction 0..3 per family
        for pd in 0..4u8 { for p4 in [false, true] { for cfgd in [false, true] {
            let po = mk_open(p4, &dirs_to_aps(&f4[..1], &[pd], false), true, true);
            v.push(format!("live {} {}", if cfgd { "1.1" } else { "-" }, hex(&po)));
            v.push(format!("live-delay {} {}", if cfgd { "1.1" } else { "-" }, hex(&po)));
        } } }
        let n = match tier { Tier::Quick => 300, Tier::Thorough => 20000 };
        for _ in 0..n {
            let lm = rng.below(16);
            let cf: Vec<String> = (0..4).filter(|i| lm >> i & 1 == 1).map(|i| format!("{}.{}", f4[i].0, f4[i].1)).collect();
            let pd: Vec<u8> = (0..4).map(|_| rng.below(4) as u8).collect();
            let po = mk_open(rng.bool(), &dirs_to_aps(&f4, &pd, rng.bool()), rng.bool(), rng.bool());
            v.push(format!("live {} {}", if cf.is_empty() { "-".into() } else { cf.join(",") }, hex(&po)));
            v.push(format!("live-delay {} {}", if cf.is_empty() { "-".into() } else { cf.join(",") }, hex(&po)));
        }
        // random: any directions, several capabilities, shuffled order, other families, duplicates sometimes
        let n = match tier { Tier::Quick => 1500, Tier::Thorough => 150000 };
        let pool: [Fam; 7] = [(1, 1), (2, 1), (1, 2), (25, 70), (1, 128), (2, 128), (16388, 71)];
        for _ in 0..n {
            let mut side = |rng: &mut Rng| {
                let k = rng.usize(0, 5);
                let mut entries: Vec<(Fam, u8)> = vec![];
                for _ in 0..k {
                    let f = *rng.pick(&pool);
                    if entries.iter().any(|(g, _)| *g == f) && !rng.chance(1, 10) { continue; }
                    entries.push((f, rng.range(1, 3) as u8));
                }
                let aps: Vec<Vec<(Fam, u8)>> = if entries.is_empty() { vec![] } else if rng.bool() { vec![entries] } else {
                    let cut = rng.usize(0, entries.len()); let (a, b) = entries.split_at(cut);
                    [a.to_vec(), b.to_vec()].into_iter().filter(|x| !x.is_empty()).collect()
                };
                mk_open(rng.chance(2, 3), &aps, rng.bool(), rng.bool())
            };
            let lo = side(rng); let po = side(rng);
            v.push(format!("neg {} {} {}", hex(&lo), hex(&po), rng.below(4)));
        }
        // live sessions whose peer names a family twice (different directions; in one capability, in
        // two, in two parameters), configured families repeated / outside the usual four
        let n = match tier { Tier::Quick => 120, Tier::Thorough => 8000 };
        for i in 0..n {
            let k = rng.usize(1, 3);
            let mut cfv: Vec<Fam> = (0..k).map(|_| *rng.pick(&pool)).collect();
            if rng.chance(1, 4) { let d = cfv[0]; cfv.push(d); }
            let mut entries: Vec<(Fam, u8)> = vec![];
            let dupf = cfv[rng.usize(0, cfv.len() - 1)];
            let d1 = rng.range(1, 3) as u8;
            let d2 = if i % 8 == 7 { d1 } else { [2u8, 3, 1][(d1 - 1) as usize] };
            entries.push((dupf, d1));
            for _ in 0..rng.usize(0, 2) { entries.push((*rng.pick(&pool), rng.range(1, 3) as u8)); }
            entries.push((dupf, d2));
            let aps: Vec<Vec<(Fam, u8)>> = if rng.bool() { vec![entries] } else {
                let cut = rng.usize(1, entries.len() - 1); let (a, b) = entries.split_at(cut); vec![a.to_vec(), b.to_vec()]
            };
            let po = mk_open(rng.chance(2, 3), &aps, rng.bool(), rng.bool());
            let cf = cfv.iter().map(|(a, s)| format!("{}.{}", a, s)).collect::<Vec<_>>().join(",");
            v.push(format!("{} {} {}", if rng.bool() { "live" } else { "live-delay" }, cf, hex(&po)));
            // the same pair through helper and BMP
            let lo = mk_open(true, &[cfv.iter().map(|f| (*f, 3u8)).collect::<Vec<_>>()], true, true);
            v.push(format!("neg {} {} {}", hex(&lo), hex(&po), rng.below(2)));
        }
        // OPENs that from_octets lets through although an ADD-PATH capability is not well-formed
        // (outside the property; the model mirrors what routecore does with them)
        let n = match tier { Tier::Quick => 150, Tier::Thorough => 10000 };
        for _ in 0..n {
            let bad = mk_open_raw(rng.chance(2, 3), &malformed_ap_vals(rng), rng.bool(), rng.bool());
            let good = mk_open(rng.chance(2, 3), &dirs_to_aps(&f4, &[rng.below(4) as u8, rng.below(4) as u8, 0, 3], rng.bool()), rng.bool(), rng.bool());
            match rng.below(4) {
                0 => v.push(format!("neg {} {} {}", hex(&bad), hex(&good), rng.below(2))),
                1 => v.push(format!("neg {} {} {}", hex(&good), hex(&bad), rng.below(2))),
                2 => v.push(format!("live {} {}", *rng.pick(&["-", "1.1", "1.1,2.1"]), hex(&bad))),
                _ => v.push(format!("live-delay {} {}", *rng.pick(&["-", "1.1", "1.1,2.1"]), hex(&bad))),
            }
        }
        // the second connection of a Session: everything the first exchange negotiated x everything
        // the second one advertises (one family), then random pairs
        for d1 in 0..4u8 { for d2 in 0..4u8 { for p4 in [false, true] {
            let po1 = mk_open(true, &dirs_to_aps(&f4[..1], &[d1], false), true, true);
            let po2 = mk_open(p4, &dirs_to_aps(&f4[..1], &[d2], false), true, true);
            v.push(format!("live2 1.1 {} {}", hex(&po1), hex(&po2)));
        } } }
        let n = match tier { Tier::Quick => 60, Tier::Thorough => 4000 };
        for _ in 0..n {
            let lm = rng.range(1, 15) as u32;
            let cf: Vec<String> = (0..4).filter(|i| lm >> i & 1 == 1).map(|i| format!("{}.{}", f4[i].0, f4[i].1)).collect();
            let pd1: Vec<u8> = (0..4).map(|_| rng.below(4) as u8).collect();
            let pd2: Vec<u8> = (0..4).map(|_| rng.below(4) as u8).collect();
            let po1 = mk_open(rng.bool(), &dirs_to_aps(&f4, &pd1, rng.bool()), rng.bool(), rng.bool());
            let po2 = mk_open(rng.bool(), &dirs_to_aps(&f4, &pd2, rng.bool()), rng.bool(), rng.bool());
            v.push(format!("live2 {} {} {}", cf.join(","), hex(&po1), hex(&po2)));
        }
        // many configured families: the OPEN the session sends approaches the one-octet limits of
        // OpenBuilder::finish (58 families fit; 59 is known finding K4, in the corpus)
        for nf in [20usize, 57, 58] {
            let cf = (1..=nf).map(|i| format!("1.{}", i)).collect::<Vec<_>>().join(",");
            let po = mk_open(true, &[vec![((1, 1), 3), ((1, 58), 2), ((1, 59), 1)]], true, true);
            v.push(format!("live {} {}", cf, hex(&po)));
            v.push(format!("live-delay {} {}", cf, hex(&po)));
        }
        v
    }

    fn exec(&self, line: &str) -> String {
        let w: Vec<&str> = line.split(' ').collect();
        match w.as_slice() {
            ["neg", l, p, g] => match (unhex(l), unhex(p), flags_of(g)) {
                (Some(l), Some(p), Some(fl)) => exec_neg(l, p, fl),
                _ => "bad-op".into(),
            },
            ["fdm", x, dx, y, dy] => match (parse_fams(x), dx.parse::<u8>(), parse_fams(y), dy.parse::<u8>()) {
                (Some(fx), Ok(dx), Some(fy), Ok(dy)) if fx.len() == 1 && fy.len() == 1 => {
                    let (Ok(dx), Ok(dy)) = (AddpathDirection::try_from(dx), AddpathDirection::try_from(dy)) else { return "bad-op".into() };
                    let a = AddpathFamDir::new(AfiSafiType::from(fx[0]), dx);
                    let b = AddpathFamDir::new(AfiSafiType::from(fy[0]), dy);
                    match a.merge(b) { None => "none".into(), Some(m) => { let (af, sf) = fam_of(m.fam()); format!("{}/{}:{}", af, sf, u8::from(m.dir())) } }
                }
                _ => "bad-op".into(),
            },
            ["live", f, p] => match (parse_fams(f), unhex(p)) {
                (Some(f), Some(p)) => exec_live(f, p, false),
                _ => "bad-op".into(),
            },
            ["live-delay", f, p] => match (parse_fams(f), unhex(p)) {
                (Some(f), Some(p)) => exec_live(f, p, true),
                _ => "bad-op".into(),
            },
            ["live2", f, p1, p2] => match (parse_fams(f), unhex(p1), unhex(p2)) {
                (Some(f), Some(p1), Some(p2)) => exec_live2(f, p1, p2),
                _ => "bad-op".into(),
            },
            _ => "bad-op".into(),
        }
    }

    fn oracle(&self, line: &str, reply: &str) -> Result<(), String> {
        let w: Vec<&str> = line.split(' ').collect();
        if reply == "panic" { return Err("negotiation panicked".into()); }
        match w.as_slice() {
            ["fdm", x, dx, y, dy] => {
                // AddpathFamDir::merge: same family -> the per-family definition; different families -> nothing
                let (fx, fy) = (parse_fams(x).ok_or("fam")?, parse_fams(y).ok_or("fam")?);
                let (dx, dy): (u8, u8) = (dx.parse().map_err(|_| "dir")?, dy.parse().map_err(|_| "dir")?);
                if fx.len() != 1 || fy.len() != 1 || !(1..=3).contains(&dx) || !(1..=3).contains(&dy) { return Ok(()); }
                let d = (((dx & 1 != 0) && (dy & 2 != 0)) as u8) | ((((dx & 2 != 0) && (dy & 1 != 0)) as u8) << 1);
                let want = if fx[0] != fy[0] || d == 0 { "none".to_string() } else { format!("{}/{}:{}", fx[0].0, fx[0].1, d) };
                if reply != want { return Err(format!("AddpathFamDir::merge: expected `{}`", want)); }
                Ok(())
            }
            ["neg", l, p, g] => {
                let (lo, po) = (unhex(l).ok_or("hex")?, unhex(p).ok_or("hex")?);
                let flags = flags_of(g).ok_or("flags")?;
                let modern = flags & 0x20 == 0; // RFC 7854: A flag clear = 4-octet AS_PATH format
                // ref_ap is Some only for well-formed OPENs (every ADD-PATH capability RFC 7911-shaped)
                let (Some((l4, lap)), Some((p4, pap))) = (ref_ap(&lo), ref_ap(&po)) else { return Ok(()) };
                let mut extra: Vec<Fam> = lap.iter().map(|(f, _)| *f).collect(); extra.extend(pap.iter().map(|(f, _)| *f));
                let fams = watched(&extra);
                let parts: Vec<&str> = reply.split(" | ").collect();
                if parts.len() != 3 || !parts[0].starts_with("H ") || !parts[1].starts_with("B ") || !parts[2].starts_with("P ") {
                    return Err(format!("a well-formed OPEN pair was not negotiated by all three derivations: `{}`", reply));
                }
                let (h, b) = (&parts[0][2..], &parts[1][2..]);
                let (pc, inc) = parts[2][2..].rsplit_once(" incons=").ok_or("P part")?;
                judge_cfg("helper", h, l4 && p4, &lap, &pap, &fams)?;
                judge_cfg("BMP session_config", b, l4 && p4, &lap, &pap, &fams)?;
                judge_cfg("BMP pph_session_config", pc, modern, &lap, &pap, &fams)?;
                if inc != (((l4 && p4) != modern) as u8).to_string() { return Err(format!("pph_session_config: inconsistency flag {} for OPENs four-octet={} and per-peer flags {:#04x}", inc, l4 && p4, flags)); }
                // identically: the same family table from all three
                if h != b { return Err(format!("helper and BMP session_config differ: `{}` vs `{}`", h, b)); }
                if strip_four(h) != strip_four(pc) { return Err(format!("helper and BMP pph_session_config differ in ADD-PATH: `{}` vs `{}`", h, pc)); }
                // swap: exchanging the OPENs exchanges send and receive
                let sw = catch(|| exec_neg(po.clone(), lo.clone(), flags));
                let swp: Vec<&str> = sw.split(" | ").collect();
                if swp.len() != 3 { return Err(format!("swapped OPENs: got `{}`", sw)); }
                judge_cfg("helper, OPENs swapped", &swp[0][2..], l4 && p4, &pap, &lap, &fams)?;
                judge_cfg("BMP session_config, OPENs swapped", &swp[1][2..], l4 && p4, &pap, &lap, &fams)?;
                judge_cfg("BMP pph_session_config, OPENs swapped", swp[2][2..].rsplit_once(" incons=").ok_or("P part")?.0, modern, &pap, &lap, &fams)?;
                if nodup(&lap) && nodup(&pap) {
                    // rx of one side = tx of the other, family by family
                    let (_, m1, _) = parse_cfg(h).ok_or("cfg")?; let (_, m2, _) = parse_cfg(&swp[0][2..]).ok_or("cfg")?;
                    for f in &fams {
                        let (d1, d2) = (m1.get(f).copied().unwrap_or(0), m2.get(f).copied().unwrap_or(0));
                        if (d1 & 1 != 0) != (d2 & 2 != 0) || (d1 & 2 != 0) != (d2 & 1 != 0) { return Err(format!("swapping the OPENs does not swap send and receive for {}/{}", f.0, f.1)); }
                    }
                }
                Ok(())
            }
            ["live", f, p] | ["live-delay", f, p] | ["live2", f, _, p] => {
                // live2: the pair is (the OPEN sent on connection #2, the peer's OPEN on connection #2);
                // what was negotiated on the first connection must not matter
                if w[0] == "live2" {
                    if reply == "err" || reply == "L2 first-err" { return Ok(()); } // first OPEN not usable: nothing to judge
                    if reply.starts_with("L2 ") { return Err(format!("second connection of the session: {}", reply)); }
                }
                let cf = parse_fams(f).ok_or("fams")?;
                let po = unhex(p).ok_or("hex")?;
                let Some((p4, pap)) = ref_ap(&po) else { return Ok(()) };
                // L <four= cfg= rx=> sent4=<0|1> sentap=<list> probe=<..> aspath=<..>
                let rest = reply.strip_prefix("L ").ok_or_else(|| format!("a well-formed OPEN was not negotiated: `{}`", reply))?;
                let fld = |k: &str| rest.split(' ').find_map(|x| x.strip_prefix(k));
                let (Some(sent4), Some(sentap), Some(probe), Some(aspath)) = (fld("sent4="), fld("sentap="), fld("probe="), fld("aspath=")) else {
                    return Err(format!("a well-formed OPEN was not negotiated: `{}`", reply));
                };
                // the local OPEN of the pair is the one the session sent
                let l4 = match sent4 { "1" => true, "0" => false, _ => return Err("the session sent no OPEN".into()) };
                let mut lap: Vec<(Fam, u8)> = vec![];
                if sentap != "-" { for e in sentap.split(',') {
                    let x: Vec<&str> = e.split('/').collect();
                    if x.len() != 3 { return Err(format!("the session's own OPEN has an unreadable ADD-PATH capability: {}", sentap)); }
                    lap.push(((x[0].parse().map_err(|_| "sentap")?, x[1].parse().map_err(|_| "sentap")?), x[2].parse().map_err(|_| "sentap")?));
                } }
                let mut extra: Vec<Fam> = cf.clone(); extra.extend(pap.iter().map(|(f, _)| *f));
                let fams = watched(&extra);
                let cfg_part = rest.split(" sent4=").next().unwrap_or("");
                judge_cfg("live session", cfg_part, l4 && p4, &lap, &pap, &fams)?;
                let (four, map, _) = parse_cfg(cfg_part).ok_or("cfg")?;
                // how the session really decodes: path ids on 1/1 iff reception negotiated, AS width
                let rx11 = map.get(&(1, 1)).map(|d| d & 1 != 0).unwrap_or(false);
                if probe != if rx11 { "pathid" } else { "plain" } { return Err(format!("probe UPDATE decoded as `{}` although ADD-PATH reception for 1/1 is {}", probe, rx11)); }
                if aspath != if four { "as4" } else { "as2" } { return Err(format!("AS_PATH probe decoded as `{}` although four-octet is {}", aspath, four)); }
                // identically: helper and BMP on (the OPEN sent, the peer's OPEN) give the same table
                // (families the session advertised and the peer named: the same set the reply shows)
                let mut lfams: Vec<Fam> = vec![]; for (f, _) in &lap { if !lfams.contains(f) { lfams.push(*f); } }
                let same_keys = { let mut a = lfams.clone(); a.sort(); let mut b = cf.clone(); b.sort(); b.dedup(); a == b };
                if same_keys {
                    let lo = mk_open(l4, &if lap.is_empty() { vec![] } else { vec![lap.clone()] }, true, false);
                    let hb = catch(|| exec_neg(lo.clone(), po.clone(), 0));
                    let hp: Vec<&str> = hb.split(" | ").collect();
                    if hp.len() != 3 { return Err(format!("helper/BMP on the session's OPEN and the peer's: `{}`", hb)); }
                    if &hp[0][2..] != cfg_part { return Err(format!("live session and intersection helper differ: `{}` vs `{}`", cfg_part, &hp[0][2..])); }
                    if &hp[1][2..] != cfg_part { return Err(format!("live session and BMP session_config differ: `{}` vs `{}`", cfg_part, &hp[1][2..])); }
                }
                Ok(())
            }
            _ => Ok(()),
        }
    }

    fn nontrivial(&self, _line: &str, reply: &str) -> bool {
        // some family ended up with ADD-PATH, or four-octet got switched off
        reply.contains("/") && (reply.contains(":1") || reply.contains(":2") || reply.contains(":3")) || reply.contains("four=0")
    }

    fn class(&self, line: &str, reply: &str) -> String {
        let op = line.split(' ').next().unwrap_or("");
        let first = reply.split(" | ").next().unwrap_or("");
        let four = if first.contains("four=1") { "four" } else if first.contains("four=0") { "two" } else { "?" };
        let n = first.split(' ').find(|f| f.starts_with("cfg=")).map(|c| if c == "cfg=-" { 0 } else { c.matches(',').count() + 1 }).unwrap_or(0);
        format!("{}:{}:addpath-fams={}", op, four, n.min(4))
    }

    fn watchdog_s(&self) -> u64 { 20 }
}
