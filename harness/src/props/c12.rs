//! C12: the negotiated parse configuration matches the capabilities both sides sent.
//!
//! Request lines
//!   neg  <localOpenHex> <peerOpenHex> <legacy 0|1>
//!        H: OpenMessage::addpath_intersection + four_octet_capable of both (the helper)
//!        B: PeerUpNotification::session_config      (sent = local, rcvd = peer)
//!        P: PeerUpNotification::pph_session_config  (4-octet from the per-peer header A flag)
//!   live <fam,fam|-> <peerOpenHex>
//!        a real Session (loopback TCP, current-thread runtime) configured with ADD-PATH for the
//!        given families, state OpenSent, Event::BgpOpen(peer) injected; read through
//!        Connection::verif_session_config and by decoding two probe UPDATEs.
//! Families under observation are fixed: 1/1 1/2 2/1 2/2 1/128 25/70 (+ whatever the OPENs mention).
//!
//! The oracle decodes both OPENs with its own decoder (below) and evaluates the property's
//! definition: rx(fam) <=> local advertises Receive|Both and peer advertises Send|Both, tx
//! symmetrically, four-octet <=> both carry capability 65 (P: <=> not legacy).
use crate::common::*;
use crate::props::c03::RefOpen;
use bytes::Bytes;
use routecore::bgp::fsm::session::{BgpConfig, Command, Message as SessMsg, Session};
use routecore::bgp::fsm::state_machine::{Event, State};
use routecore::bgp::message::{Message as BgpMsg, OpenMessage, SessionConfig};
use routecore::bgp::types::{AddpathDirection, AfiSafiType};
use routecore::bmp::message::PeerUpNotification;
use std::collections::BTreeMap;

pub struct C12;

type Fam = (u16, u8);

fn fam_of(f: AfiSafiType) -> Fam { f.into() }

const WATCH: [Fam; 6] = [(1, 1), (1, 2), (2, 1), (2, 2), (1, 128), (25, 70)];

fn show_cfg(sc: &SessionConfig, fams: &[Fam]) -> String {
    // everything the configuration holds (sorted), then rx for every watched family
    let mut all: Vec<(Fam, u8)> = sc.enabled_addpaths().map(|(f, d)| (fam_of(f), u8::from(d))).collect();
    all.sort();
    let cfg = if all.is_empty() { "-".to_string() } else {
        all.iter().map(|((a, s), d)| format!("{}/{}:{}", a, s, d)).collect::<Vec<_>>().join(",")
    };
    let rx: String = fams.iter().map(|(a, s)| if sc.rx_addpath(AfiSafiType::from((*a, *s))) { '1' } else { '0' }).collect();
    format!("four={} cfg={} rx={}", sc.four_octet_enabled() as u8, cfg, rx)
}

fn watched(extra: &[Fam]) -> Vec<Fam> {
    let mut v = WATCH.to_vec();
    let mut e: Vec<Fam> = extra.to_vec();
    e.sort();
    for f in e { if !v.contains(&f) { v.push(f); } }
    v
}

/// families mentioned in ADD-PATH capabilities of an OPEN (reference decoding)
fn ref_ap(bs: &[u8]) -> Option<(bool, Vec<(Fam, u8)>)> {
    let o = crate::props::c03::ref_decode_open(bs)?;
    let caps = o.caps()?;
    let four = caps.iter().any(|(c, _)| *c == 65);
    let mut v = vec![];
    for (_, val) in caps.iter().filter(|(c, _)| *c == 69) {
        for c in val.chunks(4) { v.push(((u16::from_be_bytes([c[0], c[1]]), c[2]), c[3])); }
    }
    Some((four, v))
}

fn peer_up(sent: &[u8], rcvd: &[u8], legacy: bool) -> Vec<u8> {
    let mut m = vec![3u8, 0, 0, 0, 0, 3];
    // per-peer header: type 0, flags, RD 8, address 16, AS 4, BGP id 4, ts 8
    m.push(0);
    m.push(if legacy { 0x20 } else { 0 });
    m.extend_from_slice(&[0; 8]);
    m.extend_from_slice(&[0, 0, 0, 0, 0, 0, 0, 0, 0, 0, 0, 0, 10, 0, 0, 2]);
    m.extend_from_slice(&[0, 0, 0xfd, 0xe8]);
    m.extend_from_slice(&[10, 0, 0, 2]);
    m.extend_from_slice(&[0; 8]);
    // local address 16, local port, remote port
    m.extend_from_slice(&[0, 0, 0, 0, 0, 0, 0, 0, 0, 0, 0, 0, 10, 0, 0, 1]);
    m.extend_from_slice(&[0, 179, 0xc0, 0x01]);
    m.extend_from_slice(sent);
    m.extend_from_slice(rcvd);
    let l = m.len() as u32;
    m[1..5].copy_from_slice(&l.to_be_bytes());
    m
}

fn exec_neg(lo: Vec<u8>, po: Vec<u8>, legacy: bool) -> String {
    let (l, p) = match (OpenMessage::from_octets(lo.clone()), OpenMessage::from_octets(po.clone())) {
        (Ok(l), Ok(p)) => (l, p),
        _ => return "err".into(),
    };
    let mut extra: Vec<Fam> = vec![];
    for m in [&l, &p] { if let Ok(v) = m.addpath_families_vec() { for (f, _) in v { extra.push(fam_of(f)); } } }
    let fams = watched(&extra);
    // the helper, used the way its documentation says
    let mut h = SessionConfig::modern();
    h.set_four_octet_asns(routecore::bgp::message::update::FourOctetAsns(l.four_octet_capable() && p.four_octet_capable()));
    for fd in l.addpath_intersection(&p) { h.add_famdir(fd); }
    let pu = match PeerUpNotification::from_octets(peer_up(&lo, &po, legacy)) {
        Ok(x) => x,
        Err(_) => return format!("H {} | B err", show_cfg(&h, &fams)),
    };
    let b = pu.session_config();
    let (pc, inc) = pu.pph_session_config();
    format!("H {} | B {} | P {} incons={}", show_cfg(&h, &fams), show_cfg(&b, &fams), show_cfg(&pc, &fams), inc.is_some() as u8)
}

#[derive(Clone)]
struct Cfg { addpath: Vec<AfiSafiType> }
impl BgpConfig for Cfg {
    fn local_asn(&self) -> inetnum::asn::Asn { inetnum::asn::Asn::from_u32(65001) }
    fn bgp_id(&self) -> [u8; 4] { [10, 0, 0, 1] }
    fn remote_addr_allowed(&self, _: std::net::IpAddr) -> bool { true }
    fn remote_asn_allowed(&self, _: inetnum::asn::Asn) -> bool { true }
    fn hold_time(&self) -> Option<u16> { Some(90) }
    fn is_exact(&self) -> bool { false }
    fn protocols(&self) -> Vec<AfiSafiType> { vec![AfiSafiType::Ipv4Unicast, AfiSafiType::Ipv6Unicast] }
    fn addpath(&self) -> Vec<AfiSafiType> { self.addpath.clone() }
}

fn update_with(aspath: &[u8], nlri: &[u8]) -> Vec<u8> {
    let mut attrs = vec![0x40, 1, 1, 0]; // ORIGIN IGP
    attrs.extend_from_slice(&[0x40, 2, aspath.len() as u8]); attrs.extend_from_slice(aspath);
    attrs.extend_from_slice(&[0x40, 3, 4, 10, 0, 0, 2]);
    let mut m = vec![0xffu8; 16];
    let len = 19 + 2 + 2 + attrs.len() + nlri.len();
    m.extend_from_slice(&(len as u16).to_be_bytes()); m.push(2);
    m.extend_from_slice(&[0, 0]);
    m.extend_from_slice(&(attrs.len() as u16).to_be_bytes());
    m.extend_from_slice(&attrs);
    m.extend_from_slice(nlri);
    m
}

fn exec_live(fams_cfg: Vec<Fam>, po: Vec<u8>, delay: bool) -> String {
    let peer = match OpenMessage::from_octets(Bytes::from(po)) { Ok(p) => p, Err(_) => return "err".into() };
    let rt = tokio::runtime::Builder::new_current_thread().enable_all().build().unwrap();
    rt.block_on(async move {
        let listener = tokio::net::TcpListener::bind("127.0.0.1:0").await.unwrap();
        let addr = listener.local_addr().unwrap();
        let _client = tokio::net::TcpStream::connect(addr).await.unwrap();
        let (server, _) = listener.accept().await.unwrap();
        let (rd, _wr) = server.into_split();
        let (tx, mut rx) = tokio::sync::mpsc::channel::<SessMsg>(64);
        let (_cmd_tx, cmd_rx) = tokio::sync::mpsc::channel::<Command>(16);
        let (pdu_tx, mut pdu_rx) = tokio::sync::mpsc::channel::<BgpMsg<Bytes>>(64);
        let cfg = Cfg { addpath: fams_cfg.iter().map(|(a, s)| AfiSafiType::from((*a, *s))).collect() };
        let mut s = Session::new(cfg, rd, tx, cmd_rx, pdu_tx);
        // `delay`: the other copy of the negotiation code – the peer's OPEN arrives in Active while the
        // DelayOpenTimer runs (Event 20); the session then sends its own OPEN from that arm
        let mut open_sent: Option<OpenMessage<Bytes>> = None;
        if delay {
            s.verif_set_state(State::Active);
            s.verif_start_delay_open_timer();
        } else {
            s.verif_set_state(State::OpenSent);
            // what this session advertises
            s.send_open();
            open_sent = match pdu_rx.try_recv() { Ok(BgpMsg::Open(o)) => Some(o), _ => return "no-open-sent".to_string() };
        }
        let mut extra: Vec<Fam> = fams_cfg.clone();
        if let Ok(v) = peer.addpath_families_vec() { for (f, _) in v { extra.push(fam_of(f)); } }
        let fams = watched(&extra);
        let r = if delay { s.verif_inject_event(Event::BgpOpenWithDelayOpenTimerRunning(peer)).await }
                else { s.verif_inject_event(Event::BgpOpen(peer)).await };
        while rx.try_recv().is_ok() {}
        if delay {
            while let Ok(m) = pdu_rx.try_recv() { if let BgpMsg::Open(o) = m { open_sent = Some(o); } }
        }
        let (sent4, sentap) = match &open_sent {
            Some(sent) => (sent.four_octet_capable() as u8, match sent.addpath_families_vec() {
                Ok(v) if v.is_empty() => "-".to_string(),
                Ok(v) => v.iter().map(|(f, d)| { let (a, s) = fam_of(*f); format!("{}/{}/{}", a, s, u8::from(*d)) }).collect::<Vec<_>>().join(","),
                Err(_) => "E".into(),
            }),
            None => (9, "no-open".to_string()),
        };
        if r.is_err() { return format!("L inject-err sent4={} sentap={}", sent4, sentap); }
        let conn = match s.verif_connection_mut() { Some(c) => c, None => return "L no-connection".to_string() };
        let cfgs = show_cfg(conn.verif_session_config(), &fams);
        // probe 1: conventional IPv4 NLRI bytes 00 00 00 00 08 0a, valid both ways: with ADD-PATH one
        // NLRI (path id 0, 10.0.0.0/8), without it five (four times 0/0, then 10.0.0.0/8)
        conn.verif_push_bytes(&update_with(&[], &[0, 0, 0, 0, 8, 10]));
        let p1 = match conn.verif_parse_frame() {
            Ok(Some(BgpMsg::Update(u))) => match u.announcements() {
                Ok(it) => {
                    let v: Vec<String> = it.take(100).map(|n| match n { Ok(n) => format!("{:?}", n), Err(_) => "Err".into() }).collect();
                    if v.len() == 1 && v[0].contains("Addpath") { "pathid" }
                    else if v.len() == 5 && v.iter().all(|x| !x.contains("Addpath") && x != "Err") { "plain" }
                    else { "other" }
                }
                Err(_) => "err",
            },
            _ => "noframe",
        };
        // probe 2: AS_PATH bytes 02 02 0001 0002 0201 0003, valid both ways: four-octet = one segment
        // of 2 ASNs (65538, 33619971); two-octet = segments [1, 2] and [3]
        let conn = s.verif_connection_mut().unwrap();
        let p2 = if conn.verif_buffered() != 0 { "stuck" } else {
            conn.verif_push_bytes(&update_with(&[2, 2, 0, 1, 0, 2, 2, 1, 0, 3], &[]));
            match conn.verif_parse_frame() {
                Ok(Some(BgpMsg::Update(u))) => match u.aspath() {
                    Ok(Some(p)) => match p.hops().count() { 2 => "as4", 3 => "as2", _ => "other" },
                    _ => "err",
                },
                _ => "noframe",
            }
        };
        format!("L {} sent4={} sentap={} probe={} aspath={}", cfgs, sent4, sentap, p1, p2)
    })
}

// ---------------------------------------------------------------------------

fn parse_fams(s: &str) -> Option<Vec<Fam>> {
    if s == "-" { return Some(vec![]); }
    s.split(',').map(|e| { let (a, b) = e.split_once('.')?; Some((a.parse().ok()?, b.parse().ok()?)) }).collect()
}

/// OPEN with optional 4-octet capability and ADD-PATH capabilities (each a list of (fam, dir)),
/// laid out one capability per parameter or all in one
pub fn mk_open(four: bool, aps: &[Vec<(Fam, u8)>], one_param: bool, extra_mp: bool) -> Vec<u8> {
    let mut caps: Vec<Vec<u8>> = vec![];
    if extra_mp { caps.push(vec![1, 4, 0, 1, 0, 1]); }
    if four { caps.push(vec![65, 4, 0, 0, 0xfd, 0xe8]); }
    for ap in aps {
        let mut v = vec![69, (4 * ap.len()) as u8];
        for ((a, s), d) in ap { v.extend_from_slice(&a.to_be_bytes()); v.push(*s); v.push(*d); }
        caps.push(v);
    }
    let params: Vec<(u8, Vec<u8>)> = if one_param {
        if caps.is_empty() { vec![] } else { vec![(2, caps.concat())] }
    } else { caps.into_iter().map(|c| (2, c)).collect() };
    RefOpen { ver: 4, asn2: 23456, ht: 90, id: [10, 0, 0, 9], params }.encode()
}

fn dirs_to_aps(fams: &[Fam], dirs: &[u8], split: bool) -> Vec<Vec<(Fam, u8)>> {
    let entries: Vec<(Fam, u8)> = fams.iter().zip(dirs).filter(|(_, d)| **d != 0).map(|(f, d)| (*f, *d)).collect();
    if entries.is_empty() { return vec![]; }
    if split { entries.into_iter().map(|e| vec![e]).collect() } else { vec![entries] }
}

fn expect_cfg(four: bool, local: &[(Fam, u8)], peer: &[(Fam, u8)], fams: &[Fam]) -> String {
    // the property's definition, per family (first entry per family on each side)
    let first = |l: &[(Fam, u8)], f: Fam| l.iter().find(|(g, _)| *g == f).map(|(_, d)| *d);
    let mut map: BTreeMap<Fam, u8> = BTreeMap::new();
    let mut all: Vec<Fam> = local.iter().map(|(f, _)| *f).collect();
    all.extend(peer.iter().map(|(f, _)| *f));
    for f in all {
        let (l, p) = (first(local, f).unwrap_or(0), first(peer, f).unwrap_or(0));
        let rx = (l & 1 != 0) && (p & 2 != 0);
        let tx = (l & 2 != 0) && (p & 1 != 0);
        let d = (rx as u8) | ((tx as u8) << 1);
        if d != 0 { map.insert(f, d); }
    }
    let cfg = if map.is_empty() { "-".to_string() } else { map.iter().map(|((a, s), d)| format!("{}/{}:{}", a, s, d)).collect::<Vec<_>>().join(",") };
    let rx: String = fams.iter().map(|f| if map.get(f).map(|d| d & 1 != 0).unwrap_or(false) { '1' } else { '0' }).collect();
    format!("four={} cfg={} rx={}", four as u8, cfg, rx)
}

fn nodup(l: &[(Fam, u8)]) -> bool { (0..l.len()).all(|i| (0..i).all(|j| l[i].0 != l[j].0)) }

impl Prop for C12 {
    fn gen(&self, rng: &mut Rng, tier: Tier) -> Vec<String> {
        let mut v = vec![];
        let f4: [Fam; 4] = [(1, 1), (2, 1), (1, 2), (25, 70)];
        // exhaustive: 16 direction pairs x 4-octet on/off on both sides x legacy flag, one family
        for ld in 0..4u8 { for pd in 0..4u8 { for l4 in [false, true] { for p4 in [false, true] { for legacy in [0, 1] {
            let lo = mk_open(l4, &dirs_to_aps(&f4[..1], &[ld], false), true, true);
            let po = mk_open(p4, &dirs_to_aps(&f4[..1], &[pd], false), false, false);
            v.push(format!("neg {} {} {}", hex(&lo), hex(&po), legacy));
        } } } } }
        // exhaustive: all subsets of 4 families on both sides (direction SendReceive / mixed), both layouts
        for lm in 0..16u32 { for pm in 0..16u32 {
            let ld: Vec<u8> = (0..4).map(|i| if lm >> i & 1 == 1 { [3u8, 1, 2, 3][i] } else { 0 }).collect();
            let pd: Vec<u8> = (0..4).map(|i| if pm >> i & 1 == 1 { [3u8, 2, 3, 1][(i + (lm as usize)) % 4] } else { 0 }).collect();
            let split = (lm + pm) % 2 == 0;
            let lo = mk_open(true, &dirs_to_aps(&f4, &ld, split), !split, false);
            let po = mk_open(pm % 3 != 0, &dirs_to_aps(&f4, &pd, !split), split, true);
            v.push(format!("neg {} {} {}", hex(&lo), hex(&po), lm % 2));
        } }
        // live session: local = SendReceive for a subset of families; peer direction 0..3 per family
        for pd in 0..4u8 { for p4 in [false, true] { for cfgd in [false, true] {
            let po = mk_open(p4, &dirs_to_aps(&f4[..1], &[pd], false), true, true);
            v.push(format!("live {} {}", if cfgd { "1.1" } else { "-" }, hex(&po)));
            v.push(format!("live-delay {} {}", if cfgd { "1.1" } else { "-" }, hex(&po)));
        } } }
        let n = match tier { Tier::Quick => 300, Tier::Thorough => 20000 };
        for _ in 0..n {
            let lm = rng.below(16);
            let cf: Vec<String> = (0..4).filter(|i| lm >> i & 1 == 1).map(|i| format!("{}.{}", f4[i].0, f4[i].1)).collect();
            let pd: Vec<u8> = (0..4).map(|_| rng.below(4) as u8).collect();
            let po = mk_open(rng.bool(), &dirs_to_aps(&f4, &pd, rng.bool()), rng.bool(), rng.bool());
            v.push(format!("live {} {}", if cf.is_empty() { "-".into() } else { cf.join(",") }, hex(&po)));
            v.push(format!("live-delay {} {}", if cf.is_empty() { "-".into() } else { cf.join(",") }, hex(&po)));
        }
        // random: any directions, several capabilities, shuffled order, other families, duplicates sometimes
        let n = match tier { Tier::Quick => 1500, Tier::Thorough => 150000 };
        let pool: [Fam; 7] = [(1, 1), (2, 1), (1, 2), (25, 70), (1, 128), (2, 128), (16388, 71)];
        for _ in 0..n {
            let mut side = |rng: &mut Rng| {
                let k = rng.usize(0, 5);
                let mut entries: Vec<(Fam, u8)> = vec![];
                for _ in 0..k {
                    let f = *rng.pick(&pool);
                    if entries.iter().any(|(g, _)| *g == f) && !rng.chance(1, 10) { continue; }
                    entries.push((f, rng.range(1, 3) as u8));
                }
                let aps: Vec<Vec<(Fam, u8)>> = if entries.is_empty() { vec![] } else if rng.bool() { vec![entries] } else {
                    let cut = rng.usize(0, entries.len()); let (a, b) = entries.split_at(cut);
                    [a.to_vec(), b.to_vec()].into_iter().filter(|x| !x.is_empty()).collect()
                };
                mk_open(rng.chance(2, 3), &aps, rng.bool(), rng.bool())
            };
            let lo = side(rng); let po = side(rng);
            v.push(format!("neg {} {} {}", hex(&lo), hex(&po), rng.below(2)));
        }
        v
    }

    fn exec(&self, line: &str) -> String {
        let w: Vec<&str> = line.split(' ').collect();
        match w.as_slice() {
            ["neg", l, p, g] => match (unhex(l), unhex(p), *g) {
                (Some(l), Some(p), "0") => exec_neg(l, p, false),
                (Some(l), Some(p), "1") => exec_neg(l, p, true),
                _ => "bad-op".into(),
            },
            ["live", f, p] => match (parse_fams(f), unhex(p)) {
                (Some(f), Some(p)) => exec_live(f, p, false),
                _ => "bad-op".into(),
            },
            ["live-delay", f, p] => match (parse_fams(f), unhex(p)) {
                (Some(f), Some(p)) => exec_live(f, p, true),
                _ => "bad-op".into(),
            },
            _ => "bad-op".into(),
        }
    }

    fn oracle(&self, line: &str, reply: &str) -> Result<(), String> {
        let w: Vec<&str> = line.split(' ').collect();
        if reply == "panic" { return Err("negotiation panicked".into()); }
        match w.as_slice() {
            ["neg", l, p, g] => {
                let (lo, po) = (unhex(l).ok_or("hex")?, unhex(p).ok_or("hex")?);
                let (Some((l4, lap)), Some((p4, pap))) = (ref_ap(&lo), ref_ap(&po)) else { return Ok(()) };
                let dirs_ok = lap.iter().chain(pap.iter()).all(|(_, d)| (1..=3).contains(d));
                if !dirs_ok { return Ok(()); }
                if !nodup(&lap) || !nodup(&pap) { return Ok(()); } // first-match rule: judged by the model only
                let mut extra: Vec<Fam> = lap.iter().map(|(f, _)| *f).collect(); extra.extend(pap.iter().map(|(f, _)| *f));
                let fams = watched(&extra);
                let want_h = expect_cfg(l4 && p4, &lap, &pap, &fams);
                let want_p = expect_cfg(*g == "0", &lap, &pap, &fams);
                let want = format!("H {} | B {} | P {} incons={}", want_h, want_h, want_p, ((l4 && p4) != (*g == "0")) as u8);
                if reply != want { return Err(format!("expected `{}`", want)); }
                // swap: exchanging the OPENs exchanges send and receive
                let sw = catch(|| exec_neg(po.clone(), lo.clone(), *g == "1"));
                let want_sw = expect_cfg(l4 && p4, &pap, &lap, &fams);
                if !sw.starts_with(&format!("H {} | B {} |", want_sw, want_sw)) { return Err(format!("swapped OPENs: got `{}`, expected H/B `{}`", sw, want_sw)); }
                Ok(())
            }
            ["live", f, p] | ["live-delay", f, p] => {
                let cf = parse_fams(f).ok_or("fams")?;
                let po = unhex(p).ok_or("hex")?;
                let Some((p4, pap)) = ref_ap(&po) else { return Ok(()) };
                if !nodup(&pap) { return Ok(()); }
                let lap: Vec<(Fam, u8)> = cf.iter().map(|f| (*f, 3u8)).collect();
                let mut extra: Vec<Fam> = cf.clone(); extra.extend(pap.iter().map(|(f, _)| *f));
                let fams = watched(&extra);
                let sentap = if lap.is_empty() { "-".to_string() } else { lap.iter().map(|((a, s), d)| format!("{}/{}/{}", a, s, d)).collect::<Vec<_>>().join(",") };
                let want_cfg = expect_cfg(p4, &lap, &pap, &fams);
                let rx11 = lap.iter().any(|(f, _)| *f == (1, 1)) && pap.iter().any(|(f, d)| *f == (1, 1) && d & 2 != 0);
                let want = format!("L {} sent4=1 sentap={} probe={} aspath={}", want_cfg, sentap,
                    if rx11 { "pathid" } else { "plain" }, if p4 { "as4" } else { "as2" });
                if reply != want { return Err(format!("expected `{}`", want)); }
                Ok(())
            }
            _ => Ok(()),
        }
    }

    fn nontrivial(&self, _line: &str, reply: &str) -> bool {
        // some family ended up with ADD-PATH, or four-octet got switched off
        reply.contains("/") && (reply.contains(":1") || reply.contains(":2") || reply.contains(":3")) || reply.contains("four=0")
    }

    fn class(&self, line: &str, reply: &str) -> String {
        let op = line.split(' ').next().unwrap_or("");
        let first = reply.split(" | ").next().unwrap_or("");
        let four = if first.contains("four=1") { "four" } else if first.contains("four=0") { "two" } else { "?" };
        let n = first.split(' ').find(|f| f.starts_with("cfg=")).map(|c| if c == "cfg=-" { 0 } else { c.matches(',').count() + 1 }).unwrap_or(0);
        format!("{}:{}:addpath-fams={}", op, four, n.min(4))
    }

    fn watchdog_s(&self) -> u64 { 20 }
}
