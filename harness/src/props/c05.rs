//! C05: every NLRI family (13 AFI/SAFI x {plain, ADD-PATH}) round-trips through
//! compose/parse, consumes exactly its bytes, compose_len equals the bytes
//! written, concatenations decode to the original sequence.
//!
//! Ops (see lean/Rc/Drv/C05.lean for the model side):
//!   dec V HEX            one NlriParse::parse
//!   rt  V HEX            parse -> compose / compose_len -> parse
//!   val V TOKENS bits=B  value given field by field, built through serde
//!                        (the only public way to build most of these types
//!                        other than by parsing), composed and parsed back
//!   cat V N HEX          NlriIter over a concatenation, every item composed,
//!                        the result iterated again
//!
//! The oracle judges with reference encoders and a reference decoder written
//! from the RFCs (4271/4760 prefixes, 8277 labels, 4364 VPN, 4684 route target,
//! 8955 FlowSpec, 4761 VPLS, 7432 EVPN, 7911 path id); it never calls a
//! routecore composer or parser. It demands what the property states and no
//! more: compose_len = octets written; the octets written are AN encoding of
//! the value (as `ref_dec` reads them - not byte equality with `ref_enc`);
//! routecore decodes them to the value and consumes exactly them; a
//! concatenation decodes to exactly the encoded sequence.
//!
//! Three classes of values (see `ref_wf`, `ref_tolerated`, `ref_denorm`):
//!  * well formed = RFC-defined and carried by the wire format: judged strictly.
//!    `gen_val` (used by C01/C06/C07/C14/C15/C17 too) draws from this class only;
//!  * tolerated = outside the RFC-defined space although the unchanged parsers
//!    accept them (route targets of 1..=3 / 13..=32 octets): a rejection OR a
//!    faithful round trip is accepted;
//!  * K10 = values only serde builds that hold a field the wire image does not
//!    carry as given (EvpnRouteType::Unimplemented(1..=5) written t = 256 + code,
//!    a foreign afi inside IpvNFlowSpecNlri): recorded known finding.
use crate::common::*;
use octseq::Parser;
use routecore::bgp::nlri::afisafi::*;
use serde_json::Value;

pub struct C05;

/// the public constructors of the prefix families against the octets `enc` that the serde-built value composed to
fn pfx_ctors(var: &Var, enc: &[u8]) -> Option<String> {
    use inetnum::addr::Prefix;
    use routecore::bgp::types::PathId;
    use std::net::{Ipv4Addr, Ipv6Addr};
    use std::str::FromStr;
    let (pid, rest) = if var.ap { if enc.len() < 5 { return None; } (Some(u32::from_be_bytes([enc[0], enc[1], enc[2], enc[3]])), &enc[4..]) } else { (None, enc) };
    let len = *rest.first()?;
    let nb = (len as usize + 7) / 8;
    if rest.len() != 1 + nb || nb > 16 { return None; }
    let mut a = [0u8; 16];
    a[..nb].copy_from_slice(&rest[1..]);
    let (pfx, other) = if var.v6 {
        (Prefix::new_v6(Ipv6Addr::from(a), len).ok()?, Prefix::new_v4(Ipv4Addr::new(10, 0, 0, 0), 8).unwrap())
    } else {
        if nb > 4 { return None; }
        (Prefix::new_v4(Ipv4Addr::new(a[0], a[1], a[2], a[3]), len).ok()?, Prefix::new_v6(Ipv6Addr::from([0x20, 1, 0xd, 0xb8, 0, 0, 0, 0, 0, 0, 0, 0, 0, 0, 0, 0]), 32).unwrap())
    };
    macro_rules! go {
        ($t:ty, $tap:ty) => {{
            if <$t>::try_from(other).is_ok() { return Some("TryFrom<Prefix> accepts a prefix of the other IP version".into()); }
            if <$tap>::try_from((other, PathId(1))).is_ok() { return Some("TryFrom<(Prefix, PathId)> accepts a prefix of the other IP version".into()); }
            if <$t>::from_str(&other.to_string()).is_ok() { return Some("FromStr accepts a prefix of the other IP version".into()); }
            let (Ok(p), Ok(q)) = (<$t>::try_from(pfx), <$t>::from_str(&pfx.to_string())) else { return Some(format!("TryFrom<Prefix> / FromStr refuse {}", pfx)); };
            if p != q { return Some(format!("TryFrom<Prefix> and FromStr differ on {}", pfx)); }
            let mut out: Vec<u8> = Vec::new();
            match pid {
                None => { p.compose(&mut out).unwrap(); }
                Some(id) => {
                    let Ok(ap) = <$tap>::try_from((pfx, PathId(id))) else { return Some(format!("TryFrom<(Prefix, PathId)> refuses {}", pfx)); };
                    ap.compose(&mut out).unwrap();
                }
            }
            if out != enc { return Some(format!("the constructors build {} where serde built {}", hex(&out), hex(enc))); }
            None
        }};
    }
    match var.name.trim_end_matches("Addpath") {
        "Ipv4Unicast" => go!(Ipv4UnicastNlri, Ipv4UnicastAddpathNlri),
        "Ipv4Multicast" => go!(Ipv4MulticastNlri, Ipv4MulticastAddpathNlri),
        "Ipv6Unicast" => go!(Ipv6UnicastNlri, Ipv6UnicastAddpathNlri),
        "Ipv6Multicast" => go!(Ipv6MulticastNlri, Ipv6MulticastAddpathNlri),
        _ => None,
    }
}

#[derive(Clone, Copy, PartialEq, Eq, Debug)]
pub enum Shape { Pfx, Mpls, Vpn, Rt, Fs, Vpls, Evpn }

/// one NLRI value, all shapes in one record (unused fields stay empty)
#[derive(Clone, PartialEq, Eq, Debug, Default)]
pub struct Val {
    pub pid: Option<u64>,
    pub plen: u64,
    pub addr: Vec<u8>,
    pub labels: Vec<u8>,
    pub rd: Vec<u8>,
    pub raw: Vec<u8>,
    pub afi: u64,
    pub ve: [u64; 3],
    pub lb: u64,
    pub t: u64,
}

pub struct Var {
    pub name: &'static str,
    pub shape: Shape,
    pub v6: bool,
    pub ap: bool,
    run: fn(&Var, &str, &[&str]) -> String,
}

//------------ value <-> tokens ------------------------------------------------

fn kv<'a>(k: &str, tok: &'a str) -> Option<&'a str> {
    tok.strip_prefix(k).and_then(|r| r.strip_prefix('='))
}
fn kv_nat(k: &str, tok: &str) -> Option<u64> {
    let s = kv(k, tok)?;
    if s.is_empty() || !s.bytes().all(|c| c.is_ascii_digit()) || s.len() > 18 { return None; }
    s.parse().ok()
}
fn kv_hex(k: &str, tok: &str) -> Option<Vec<u8>> { unhex_strict(kv(k, tok)?) }

/// hex as the model reads it: `-` or an even number of hex digits
pub fn unhex_strict(s: &str) -> Option<Vec<u8>> {
    if s == "-" { return Some(vec![]); }
    if s.is_empty() || !s.bytes().all(|c| c.is_ascii_hexdigit()) { return None; }
    unhex(s)
}

fn read_pfx(tok: &str, v: &mut Val) -> Option<()> {
    let s = kv("p", tok)?;
    let (l, h) = s.split_once('/')?;
    if h.contains('/') { return None; }
    if l.is_empty() || !l.bytes().all(|c| c.is_ascii_digit()) || l.len() > 18 { return None; }
    v.plen = l.parse().ok()?;
    v.addr = unhex_strict(h)?;
    if v.addr.len() != 4 && v.addr.len() != 16 { return None; }
    Some(())
}

pub fn show(shape: Shape, v: &Val) -> String {
    let body = match shape {
        Shape::Pfx => format!("p={}/{}", v.plen, hex(&v.addr)),
        Shape::Mpls => format!("p={}/{} l={}", v.plen, hex(&v.addr), hex(&v.labels)),
        Shape::Vpn => format!("p={}/{} l={} rd={}", v.plen, hex(&v.addr), hex(&v.labels), hex(&v.rd)),
        Shape::Rt => format!("raw={}", hex(&v.raw)),
        Shape::Fs => format!("afi={} raw={}", v.afi, hex(&v.raw)),
        Shape::Vpls => format!("rd={} ve={} off={} size={} lb={}", hex(&v.rd), v.ve[0], v.ve[1], v.ve[2], v.lb),
        Shape::Evpn => format!("t={} raw={}", v.t, hex(&v.raw)),
    };
    match v.pid { Some(p) => format!("pid={} {}", p, body), None => body }
}

pub fn read(shape: Shape, ap: bool, toks: &[&str]) -> Option<Val> {
    let mut v = Val::default();
    let mut t = toks;
    if ap {
        v.pid = Some(kv_nat("pid", t.first()?)?);
        t = &t[1..];
    }
    match (shape, t) {
        (Shape::Pfx, [a]) => { read_pfx(a, &mut v)?; }
        (Shape::Mpls, [a, b]) => { read_pfx(a, &mut v)?; v.labels = kv_hex("l", b)?; }
        (Shape::Vpn, [a, b, c]) => { read_pfx(a, &mut v)?; v.labels = kv_hex("l", b)?; v.rd = kv_hex("rd", c)?; }
        (Shape::Rt, [a]) => { v.raw = kv_hex("raw", a)?; }
        (Shape::Fs, [a, b]) => { v.afi = kv_nat("afi", a)?; v.raw = kv_hex("raw", b)?; }
        (Shape::Vpls, [a, b, c, d, e]) => {
            v.rd = kv_hex("rd", a)?; v.ve = [kv_nat("ve", b)?, kv_nat("off", c)?, kv_nat("size", d)?]; v.lb = kv_nat("lb", e)?;
        }
        (Shape::Evpn, [a, b]) => { v.t = kv_nat("t", a)?; v.raw = kv_hex("raw", b)?; }
        _ => return None,
    }
    Some(v)
}

//------------ reference side (RFCs) --------------------------------------------

/// RFC 4271 4.3: trailing bits of the prefix field are zero (routecore rejects others)
pub fn host_zero(plen: u64, addr: &[u8]) -> bool {
    for (i, b) in addr.iter().enumerate() {
        let lo = 8 * i as u64;
        if plen >= lo + 8 { continue; }
        let keep = plen.saturating_sub(lo); // significant bits in this octet
        let mask: u8 = if keep == 0 { 0xff } else { 0xffu8 >> keep };
        if b & mask != 0 { return false; }
    }
    true
}
fn pfx_ok(v6: bool, v: &Val) -> bool {
    let n = if v6 { 16 } else { 4 };
    v.addr.len() == n && v.plen <= 8 * n as u64 && host_zero(v.plen, &v.addr)
}
fn pfx_bytes(v: &Val) -> Vec<u8> { v.addr[..((v.plen as usize + 7) / 8).min(v.addr.len())].to_vec() }

/// label stack as RFC 8277 / the withdraw compatibility values describe it:
/// non-empty 3-octet groups, exactly the last one is bottom-of-stack (or 0x800000 / 0x000000)
fn labels_ok(l: &[u8]) -> bool {
    if l.is_empty() || l.len() % 3 != 0 { return false; }
    let n = l.len() / 3;
    for i in 0..n {
        let g = &l[3 * i..3 * i + 3];
        let stop = g[2] & 1 == 1 || g == [0x80, 0, 0] || g == [0, 0, 0];
        if stop != (i == n - 1) { return false; }
    }
    true
}

/// RFC 8955 4.2: a sequence of components ending exactly at the end (IPv4)
fn fs_components_ok(raw: &[u8]) -> bool {
    let mut i = 0usize;
    while i < raw.len() {
        let t = raw[i]; i += 1;
        match t {
            1 | 2 => {
                if i >= raw.len() { return false; }
                let bits = raw[i] as usize; i += 1;
                let nb = (bits + 7) / 8;
                if nb > 4 || i + nb > raw.len() { return false; }
                let mut a = [0u8; 4];
                a[..nb].copy_from_slice(&raw[i..i + nb]);
                if !host_zero(bits as u64, &a) { return false; }
                i += nb;
            }
            3..=12 => loop {
                if i >= raw.len() { return false; }
                let op = raw[i]; i += 1;
                let n = 1usize << ((op >> 4) & 3);
                if i + n > raw.len() { return false; }
                i += n;
                if op & 0x80 != 0 { break; }
            },
            _ => return false,
        }
    }
    true
}

/// RFC 4684 4: a route-target membership NLRI is a prefix of 0 or 32..=96 bits, i.e. no octets or
/// 4..=12 octets (origin AS, then up to 8 octets of route target)
pub fn rt_len_defined(n: usize) -> bool { n == 0 || (4..=12).contains(&n) }

/// is the value inside the domain the property quantifies over: a value the RFCs define and the wire
/// format can carry? (The generators of C01/C06/C07/C14/C15/C17 draw from this space only.)
pub fn ref_wf(shape: Shape, v6: bool, v: &Val) -> bool {
    let pid_ok = v.pid.map_or(true, |p| p <= u32::MAX as u64);
    pid_ok && match shape {
        Shape::Pfx => pfx_ok(v6, v),
        Shape::Mpls => pfx_ok(v6, v) && labels_ok(&v.labels) && 8 * v.labels.len() as u64 + v.plen <= 255,
        Shape::Vpn => pfx_ok(v6, v) && labels_ok(&v.labels) && v.rd.len() == 8
            && 8 * (8 + v.labels.len() as u64) + v.plen <= 255,
        Shape::Rt => rt_len_defined(v.raw.len()),
        Shape::Fs => v.afi == if v6 { 2 } else { 1 } && v.raw.len() <= 4095 && (v6 || fs_components_ok(&v.raw)),
        Shape::Vpls => v.rd.len() == 8 && v.ve.iter().all(|x| *x < 65536) && v.lb < (1 << 24),
        Shape::Evpn => v.t < 256 && v.raw.len() <= 255,
    }
}

/// Values outside the RFC-defined space that the wire format can nevertheless carry and that the
/// parsers of the unchanged code accept: route targets of 1..=3 or 13..=32 octets. The property
/// cannot demand that they be accepted: on these the oracle accepts a rejection OR a faithful
/// round trip (the model mirrors what the code does).
pub fn ref_tolerated(shape: Shape, _v6: bool, v: &Val) -> bool {
    v.pid.map_or(true, |p| p <= u32::MAX as u64) && shape == Shape::Rt && !rt_len_defined(v.raw.len()) && v.raw.len() <= 32
}

/// Values of the Rust types that hold a field the wire format does not carry in the state given
/// (K10): `EvpnRouteType::Unimplemented(1..=5)` (t = 256 + code; the wire carries the code, which
/// decodes to the named variant) and an `afi` other than the family's inside `IpvNFlowSpecNlri`
/// (the wire carries no AFI). Only serde Deserialize builds them. Returns the value the wire image
/// denotes (what decoding yields) if `v` is such a value and otherwise well formed.
pub fn ref_denorm(shape: Shape, v6: bool, v: &Val) -> Option<Val> {
    let mut n = v.clone();
    match shape {
        Shape::Evpn if (257..=261).contains(&v.t) => n.t = v.t - 256,
        Shape::Fs if v.afi != (if v6 { 2 } else { 1 }) && v.afi < 65536 => n.afi = if v6 { 2 } else { 1 },
        _ => return None,
    }
    if ref_wf(shape, v6, &n) { Some(n) } else { None }
}

/// Is the wire form of one NLRI (`item` starts at its first octet, path id included if `ap`) outside
/// what the RFCs define although the unchanged parsers read it: a route-target bit count other than
/// 0 / 32..=96 (RFC 4684 4), a VPLS length field other than 17 (RFC 4761 3.2.2)? An implementation
/// may reject these; reference decoders of other properties stop judging a list at such an item.
pub fn wire_tolerated(shape: Shape, ap: bool, item: &[u8]) -> bool {
    let k = if ap { 4 } else { 0 };
    match shape {
        Shape::Rt => item.len() > k && !(item[k] == 0 || (32..=96).contains(&item[k])),
        Shape::Vpls => item.len() >= k + 2 && (item[k], item[k + 1]) != (0, 17),
        _ => false,
    }
}

/// reference encoder; only meaningful when `ref_wf`
pub fn ref_enc(shape: Shape, v: &Val) -> Vec<u8> {
    let mut o = Vec::new();
    if let Some(p) = v.pid { o.extend_from_slice(&(p as u32).to_be_bytes()); }
    match shape {
        Shape::Pfx => { o.push(v.plen as u8); o.extend(pfx_bytes(v)); }
        Shape::Mpls => { o.push((8 * v.labels.len() as u64 + v.plen) as u8); o.extend(&v.labels); o.extend(pfx_bytes(v)); }
        Shape::Vpn => {
            o.push((8 * v.labels.len() as u64 + 64 + v.plen) as u8);
            o.extend(&v.labels); o.extend(&v.rd); o.extend(pfx_bytes(v));
        }
        Shape::Rt => { o.push((8 * v.raw.len()) as u8); o.extend(&v.raw); }
        Shape::Fs => {
            let n = v.raw.len();
            if n < 240 { o.push(n as u8); } else { o.push(0xf0 | (n >> 8) as u8); o.push(n as u8); }
            o.extend(&v.raw);
        }
        Shape::Vpls => {
            o.extend_from_slice(&[0, 17]); o.extend(&v.rd);
            for x in v.ve { o.extend_from_slice(&(x as u16).to_be_bytes()); }
            o.extend_from_slice(&(v.lb as u32).to_be_bytes()[1..]);
        }
        Shape::Evpn => { o.push(v.t as u8); o.push(v.raw.len() as u8); o.extend(&v.raw); }
    }
    o
}

/// total bit length an MPLS-style length octet would have to carry
pub fn bits(shape: Shape, v: &Val) -> u64 {
    match shape {
        Shape::Mpls => 8 * v.labels.len() as u64 + v.plen,
        Shape::Vpn => 8 * (8 + v.labels.len() as u64) + v.plen,
        _ => 0,
    }
}

/// Reference decoder, written from the RFCs (4271 4.3 prefixes, 8277 labels and the withdraw
/// compatibility values, 4364 route distinguisher, 4684, 8955 4.1 length rule – either length form
/// is legal for a body below 240 octets –, 4761 3.2.2, 7432 7, 7911 path id); shares no code with
/// routecore's parsers. One NLRI off the head of `b`: the value and the octets consumed. The VPLS
/// length field is skipped (`wire_tolerated` says whether it was 17). Values are returned as read;
/// whether they are well formed is `ref_wf`'s business.
pub fn ref_dec(shape: Shape, v6: bool, ap: bool, b: &[u8]) -> Option<(Val, usize)> {
    let mut v = Val::default();
    let mut i = 0usize;
    let need = |i: usize, n: usize| -> Option<()> { if b.len() >= i + n { Some(()) } else { None } };
    if ap { need(0, 4)?; v.pid = Some(u32::from_be_bytes([b[0], b[1], b[2], b[3]]) as u64); i = 4; }
    let alen = if v6 { 16 } else { 4 };
    let pfx = |v: &mut Val, i: &mut usize, nbits: usize| -> Option<()> {
        if nbits > 8 * alen { return None; }
        let nb = (nbits + 7) / 8;
        need(*i, nb)?;
        let mut a = vec![0u8; alen];
        a[..nb].copy_from_slice(&b[*i..*i + nb]);
        v.plen = nbits as u64; v.addr = a; *i += nb;
        Some(())
    };
    match shape {
        Shape::Pfx => { need(i, 1)?; let n = b[i] as usize; i += 1; pfx(&mut v, &mut i, n)?; }
        Shape::Mpls | Shape::Vpn => {
            need(i, 1)?; let total = b[i] as usize; i += 1;
            loop {
                need(i, 3)?;
                let g = [b[i], b[i + 1], b[i + 2]];
                v.labels.extend_from_slice(&g); i += 3;
                if g[2] & 1 == 1 || g == [0x80, 0, 0] || g == [0, 0, 0] { break; }
            }
            let mut used = 8 * v.labels.len();
            if shape == Shape::Vpn { used += 64; }
            if used > total { return None; }
            if shape == Shape::Vpn { need(i, 8)?; v.rd = b[i..i + 8].to_vec(); i += 8; }
            pfx(&mut v, &mut i, total - used)?;
        }
        Shape::Rt => { need(i, 1)?; let nb = (b[i] as usize + 7) / 8; i += 1; need(i, nb)?; v.raw = b[i..i + nb].to_vec(); i += nb; }
        Shape::Fs => {
            need(i, 1)?; let l1 = b[i] as usize; i += 1;
            let n = if l1 >= 0xf0 { need(i, 1)?; let n = ((l1 & 0x0f) << 8) | b[i] as usize; i += 1; n } else { l1 };
            need(i, n)?;
            v.afi = if v6 { 2 } else { 1 }; v.raw = b[i..i + n].to_vec(); i += n;
        }
        Shape::Vpls => {
            need(i, 19)?;
            let x = &b[i + 2..i + 19];
            v.rd = x[..8].to_vec();
            v.ve = [u16::from_be_bytes([x[8], x[9]]) as u64, u16::from_be_bytes([x[10], x[11]]) as u64, u16::from_be_bytes([x[12], x[13]]) as u64];
            v.lb = ((x[14] as u64) << 16) | ((x[15] as u64) << 8) | x[16] as u64;
            i += 19;
        }
        Shape::Evpn => { need(i, 2)?; v.t = b[i] as u64; let n = b[i + 1] as usize; i += 2; need(i, n)?; v.raw = b[i..i + n].to_vec(); i += n; }
    }
    Some((v, i))
}

/// the octets are exactly one encoding of `v`, as the reference decoder reads them
fn ref_encodes(shape: Shape, v6: bool, enc: &[u8], v: &Val) -> bool {
    matches!(ref_dec(shape, v6, v.pid.is_some(), enc), Some((d, n)) if n == enc.len() && d == *v)
}

/// can the value be built at all (through serde)?
pub fn buildable(shape: Shape, v6: bool, v: &Val) -> bool {
    v.pid.map_or(true, |p| p <= u32::MAX as u64) && match shape {
        Shape::Pfx | Shape::Mpls => pfx_ok(v6, v),
        Shape::Vpn => pfx_ok(v6, v) && v.rd.len() == 8,
        Shape::Rt => true,
        // `Afi` deserialises from any u16 (serde(from = "u16")), whatever the family
        Shape::Fs => v.afi < 65536,
        Shape::Vpls => v.rd.len() == 8 && v.ve.iter().all(|x| *x < 65536) && v.lb < (1 << 24),
        // t < 256: EvpnRouteType::from(t); 256 + c (c in 1..=5): the non-normalised Unimplemented(c)
        Shape::Evpn => v.t < 256 || (257..=261).contains(&v.t),
    }
}

//------------ value <-> serde_json ---------------------------------------------

fn json_bytes(b: &[u8]) -> String {
    format!("[{}]", b.iter().map(|x| x.to_string()).collect::<Vec<_>>().join(","))
}
fn json_pfx(v: &Val) -> String {
    if v.addr.len() == 4 {
        let a: [u8; 4] = v.addr.clone().try_into().unwrap();
        format!("\"{}/{}\"", std::net::Ipv4Addr::from(a), v.plen)
    } else {
        let a: [u8; 16] = v.addr.clone().try_into().unwrap();
        format!("\"{}/{}\"", std::net::Ipv6Addr::from(a), v.plen)
    }
}
const EVPN_NAMES: [&str; 5] = ["EthernetAutoDiscovery", "MacIpAdvertisement", "InclusiveMulticastEthernetTag", "EthernetSegment", "IpPrefix"];

pub fn to_json(shape: Shape, v: &Val) -> String {
    let body = match shape {
        Shape::Pfx => json_pfx(v),
        Shape::Mpls => format!("{{\"prefix\":{},\"labels\":{{\"octets\":{}}}}}", json_pfx(v), json_bytes(&v.labels)),
        Shape::Vpn => format!("{{\"prefix\":{},\"labels\":{{\"octets\":{}}},\"rd\":{{\"bytes\":{}}}}}",
            json_pfx(v), json_bytes(&v.labels), json_bytes(&v.rd)),
        Shape::Rt => format!("{{\"raw\":{}}}", json_bytes(&v.raw)),
        Shape::Fs => format!("{{\"afi\":{},\"raw\":{}}}", v.afi, json_bytes(&v.raw)),
        Shape::Vpls => format!("{{\"rd\":{{\"bytes\":{}}},\"ve_id\":{},\"ve_block_offset\":{},\"ve_block_size\":{},\"raw_label_base\":{}}}",
            json_bytes(&v.rd), v.ve[0], v.ve[1], v.ve[2], v.lb),
        Shape::Evpn => {
            let rt = if (1..=5).contains(&v.t) { format!("\"{}\"", EVPN_NAMES[v.t as usize - 1]) } else { format!("{{\"Unimplemented\":{}}}", v.t % 256) };
            format!("{{\"route_type\":{},\"raw\":{}}}", rt, json_bytes(&v.raw))
        }
    };
    match v.pid { Some(p) => format!("[{},{}]", p, body), None => body }
}

fn jbytes(j: &Value) -> Vec<u8> { j.as_array().unwrap().iter().map(|x| x.as_u64().unwrap() as u8).collect() }
fn jpfx(j: &Value, v: &mut Val) {
    let s = j.as_str().unwrap();
    let (a, l) = s.rsplit_once('/').unwrap();
    v.plen = l.parse().unwrap();
    v.addr = match a.parse::<std::net::IpAddr>().unwrap() {
        std::net::IpAddr::V4(a) => a.octets().to_vec(),
        std::net::IpAddr::V6(a) => a.octets().to_vec(),
    };
}

/// canonical value of whatever routecore built, read back through Serialize
pub fn from_json(shape: Shape, ap: bool, j: &Value) -> Val {
    let mut v = Val::default();
    let b = if ap { v.pid = Some(j[0].as_u64().unwrap()); &j[1] } else { j };
    match shape {
        Shape::Pfx => jpfx(b, &mut v),
        Shape::Mpls => { jpfx(&b["prefix"], &mut v); v.labels = jbytes(&b["labels"]["octets"]); }
        Shape::Vpn => { jpfx(&b["prefix"], &mut v); v.labels = jbytes(&b["labels"]["octets"]); v.rd = jbytes(&b["rd"]["bytes"]); }
        Shape::Rt => v.raw = jbytes(&b["raw"]),
        Shape::Fs => {
            v.afi = match &b["afi"] { Value::String(s) if s == "Ipv4" => 1, Value::String(s) if s == "Ipv6" => 2,
                Value::String(s) if s == "L2Vpn" => 25, o => o["Unimplemented"].as_u64().unwrap() };
            v.raw = jbytes(&b["raw"]);
        }
        Shape::Vpls => {
            v.rd = jbytes(&b["rd"]["bytes"]);
            v.ve = [b["ve_id"].as_u64().unwrap(), b["ve_block_offset"].as_u64().unwrap(), b["ve_block_size"].as_u64().unwrap()];
            v.lb = b["raw_label_base"].as_u64().unwrap();
        }
        Shape::Evpn => {
            v.t = match &b["route_type"] {
                Value::String(s) => EVPN_NAMES.iter().position(|n| n == s).unwrap() as u64 + 1,
                // a non-normalised Unimplemented(1..=5) is not the named variant (see `buildable`)
                o => { let c = o["Unimplemented"].as_u64().unwrap(); if (1..=5).contains(&c) { 256 + c } else { c } }
            };
            v.raw = jbytes(&b["raw"]);
        }
    }
    v
}

//------------ the 26 variants ----------------------------------------------------

macro_rules! variant {
    ($name:literal, $shape:expr, $v6:expr, $ap:expr, $iter:ident, [$($t:tt)+], [$($owned:tt)+]) => {
        Var { name: $name, shape: $shape, v6: $v6, ap: $ap, run: |var, op, args| {
            let sh = |v: &dyn Fn() -> Value| show(var.shape, &from_json(var.shape, var.ap, &v()));
            match (op, args) {
                ("dec", [h]) => {
                    let Some(raw) = unhex_strict(h) else { return "bad-op".into() };
                    let mut p = Parser::from_ref(&raw);
                    match $($t)+::parse(&mut p) {
                        Ok(v) => format!("ok used={} {}", p.pos(), sh(&|| serde_json::to_value(&v).unwrap())),
                        Err(_) => "err".into(),
                    }
                }
                ("rt", [h]) => {
                    let Some(raw) = unhex_strict(h) else { return "bad-op".into() };
                    let mut p = Parser::from_ref(&raw);
                    match $($t)+::parse(&mut p) {
                        Err(_) => "err".into(),
                        Ok(v) => {
                            let mut e: Vec<u8> = Vec::new();
                            v.compose(&mut e).unwrap();
                            let clen = v.compose_len();
                            let mut p2 = Parser::from_ref(&e);
                            let re = match $($t)+::parse(&mut p2) {
                                Ok(v2) => {
                                    let s1 = sh(&|| serde_json::to_value(&v).unwrap());
                                    let s2 = sh(&|| serde_json::to_value(&v2).unwrap());
                                    // `==` of the real types must agree with field-wise equality
                                    let tag = if (v == v2) == (s1 == s2) { "" } else { " EQ-MISMATCH" };
                                    format!("re=ok used={} {}{}", p2.pos(), s2, tag)
                                }
                                Err(_) => "re=err".into(),
                            };
                            format!("ok {} | enc={} clen={} | {}", sh(&|| serde_json::to_value(&v).unwrap()), hex(&e), clen, re)
                        }
                    }
                }
                ("val", toks) if !toks.is_empty() => {
                    let (tb, rest) = toks.split_last().unwrap();
                    let (Some(val), Some(b)) = (read(var.shape, var.ap, rest), kv_nat("bits", tb)) else { return "bad-op".into() };
                    if !buildable(var.shape, var.v6, &val) || b != bits(var.shape, &val) { return "bad-op".into(); }
                    let v: $($owned)+ = serde_json::from_str(&to_json(var.shape, &val)).expect("serde build");
                    let mut e: Vec<u8> = Vec::new();
                    v.compose(&mut e).unwrap();
                    let clen = v.compose_len();
                    let mut p2 = Parser::from_ref(&e);
                    let re = match $($t)+::parse(&mut p2) {
                        Ok(v2) => format!("re=ok used={} {}", p2.pos(), sh(&|| serde_json::to_value(&v2).unwrap())),
                        Err(_) => "re=err".into(),
                    };
                    format!("ok enc={} clen={} | {}", hex(&e), clen, re)
                }
                ("cat", [_, h]) => {
                    let Some(raw) = unhex_strict(h) else { return "bad-op".into() };
                    let mut items = Vec::new();
                    let mut end = true;
                    for r in NlriIter::$iter(Parser::from_ref(&raw)).take(100_000) {
                        match r { Ok(v) => items.push(v), Err(_) => { end = false; break; } }
                    }
                    let mut out: Vec<u8> = Vec::new();
                    let mut clen = 0usize;
                    for v in &items { v.compose(&mut out).unwrap(); clen += v.compose_len(); }
                    let mut again = Vec::new();
                    let mut end2 = true;
                    for r in NlriIter::$iter(Parser::from_ref(&out)).take(100_000) {
                        match r { Ok(v) => again.push(v), Err(_) => { end2 = false; break; } }
                    }
                    let s1: Vec<String> = items.iter().map(|v| sh(&|| serde_json::to_value(v).unwrap())).collect();
                    let s2: Vec<String> = again.iter().map(|v| sh(&|| serde_json::to_value(v).unwrap())).collect();
                    let same = end2 && s1 == s2 && items.len() == again.len() && items.iter().zip(again.iter()).all(|(a, b)| a == b);
                    // how NlriIter is consumed must not matter (common::iter_protocol), on the request's octets
                    let mut pr = Proto::new();
                    pr.it("NlriIter", || NlriIter::$iter(Parser::from_ref(&raw)), |r| match r { Ok(v) => sh(&|| serde_json::to_value(v).unwrap()).replace(' ', ","), Err(_) => "E".to_string() }, raw.len() + 1);
                    format!("ok n={} end={} vals={} | enc={} clen={} | re={} {}", items.len(), end,
                        if s1.is_empty() { "-".to_string() } else { s1.join(";") }, hex(&out), clen, if same { "same" } else { "diff" }, pr.token())
                }
                _ => "bad-op".into(),
            }
        } }
    };
}

macro_rules! fam {
    ($name:literal, $apname:literal, $shape:expr, $v6:expr, $iter:ident, $iterap:ident, plain $t:ident $tap:ident) => {
        [variant!($name, $shape, $v6, false, $iter, [$t], [$t]), variant!($apname, $shape, $v6, true, $iterap, [$tap], [$tap])]
    };
    ($name:literal, $apname:literal, $shape:expr, $v6:expr, $iter:ident, $iterap:ident, generic $t:ident $tap:ident) => {
        [variant!($name, $shape, $v6, false, $iter, [$t], [$t<Vec<u8>>]), variant!($apname, $shape, $v6, true, $iterap, [$tap], [$tap<Vec<u8>>])]
    };
}

pub static VARIANTS: [[Var; 2]; 13] = [
    fam!("Ipv4Unicast", "Ipv4UnicastAddpath", Shape::Pfx, false, ipv4_unicast, ipv4_unicast_addpath, plain Ipv4UnicastNlri Ipv4UnicastAddpathNlri),
    fam!("Ipv4Multicast", "Ipv4MulticastAddpath", Shape::Pfx, false, ipv4_multicast, ipv4_multicast_addpath, plain Ipv4MulticastNlri Ipv4MulticastAddpathNlri),
    fam!("Ipv4MplsUnicast", "Ipv4MplsUnicastAddpath", Shape::Mpls, false, ipv4_mplsunicast, ipv4_mplsunicast_addpath, generic Ipv4MplsUnicastNlri Ipv4MplsUnicastAddpathNlri),
    fam!("Ipv4MplsVpnUnicast", "Ipv4MplsVpnUnicastAddpath", Shape::Vpn, false, ipv4_mplsvpnunicast, ipv4_mplsvpnunicast_addpath, generic Ipv4MplsVpnUnicastNlri Ipv4MplsVpnUnicastAddpathNlri),
    fam!("Ipv4RouteTarget", "Ipv4RouteTargetAddpath", Shape::Rt, false, ipv4_routetarget, ipv4_routetarget_addpath, generic Ipv4RouteTargetNlri Ipv4RouteTargetAddpathNlri),
    fam!("Ipv4FlowSpec", "Ipv4FlowSpecAddpath", Shape::Fs, false, ipv4_flowspec, ipv4_flowspec_addpath, generic Ipv4FlowSpecNlri Ipv4FlowSpecAddpathNlri),
    fam!("Ipv6Unicast", "Ipv6UnicastAddpath", Shape::Pfx, true, ipv6_unicast, ipv6_unicast_addpath, plain Ipv6UnicastNlri Ipv6UnicastAddpathNlri),
    fam!("Ipv6Multicast", "Ipv6MulticastAddpath", Shape::Pfx, true, ipv6_multicast, ipv6_multicast_addpath, plain Ipv6MulticastNlri Ipv6MulticastAddpathNlri),
    fam!("Ipv6MplsUnicast", "Ipv6MplsUnicastAddpath", Shape::Mpls, true, ipv6_mplsunicast, ipv6_mplsunicast_addpath, generic Ipv6MplsUnicastNlri Ipv6MplsUnicastAddpathNlri),
    fam!("Ipv6MplsVpnUnicast", "Ipv6MplsVpnUnicastAddpath", Shape::Vpn, true, ipv6_mplsvpnunicast, ipv6_mplsvpnunicast_addpath, generic Ipv6MplsVpnUnicastNlri Ipv6MplsVpnUnicastAddpathNlri),
    fam!("Ipv6FlowSpec", "Ipv6FlowSpecAddpath", Shape::Fs, true, ipv6_flowspec, ipv6_flowspec_addpath, generic Ipv6FlowSpecNlri Ipv6FlowSpecAddpathNlri),
    fam!("L2VpnVpls", "L2VpnVplsAddpath", Shape::Vpls, false, l2vpn_vpls, l2vpn_vpls_addpath, plain L2VpnVplsNlri L2VpnVplsAddpathNlri),
    fam!("L2VpnEvpn", "L2VpnEvpnAddpath", Shape::Evpn, false, l2vpn_evpn, l2vpn_evpn_addpath, generic L2VpnEvpnNlri L2VpnEvpnAddpathNlri),
];

pub fn variant(name: &str) -> Option<&'static Var> {
    VARIANTS.iter().flatten().find(|v| v.name == name)
}

//------------ generators ---------------------------------------------------------

pub fn gen_addr(rng: &mut Rng, v6: bool, plen: u64, pattern: u64) -> Vec<u8> {
    let n = if v6 { 16 } else { 4 };
    let mut a = match pattern {
        0 => vec![0u8; n],
        1 => vec![0xffu8; n],
        2 => { let mut a = vec![0u8; n]; if plen > 0 { let i = (plen - 1) as usize; a[i / 8] |= 0x80 >> (i % 8); } a }
        3 => { let mut a = vec![0u8; n]; if plen > 0 { a[0] |= 0x80; } a }
        _ => rng.bytes(n),
    };
    // clear host bits
    for i in 0..n {
        let lo = 8 * i as u64;
        if plen >= lo + 8 { continue; }
        let keep = plen.saturating_sub(lo);
        a[i] &= if keep == 0 { 0 } else { !(0xffu8 >> keep) };
    }
    a
}

pub fn gen_labels(rng: &mut Rng, depth: usize) -> Vec<u8> {
    let mut l = Vec::new();
    for i in 0..depth {
        let last = i + 1 == depth;
        loop {
            let mut g = [rng.u8(), rng.u8(), rng.u8() & 0xfe];
            if rng.chance(1, 6) { g[0] = 0; g[1] = 0; g[2] &= 0xf0; }
            // label VALUE 0 (Explicit NULL) or 0x80000 with a non-zero traffic class: these differ from the
            // withdraw compatibility octets 000000 / 800000 only in the TC bits and must not end the stack
            else if rng.chance(1, 5) { g[0] = if rng.bool() { 0 } else { 0x80 }; g[1] = 0; g[2] = (rng.range(1, 7) as u8) << 1; }
            if last { g[2] |= 1; }
            let stop = g[2] & 1 == 1 || g == [0x80, 0, 0] || g == [0, 0, 0];
            if stop == last { l.extend_from_slice(&g); break; }
        }
    }
    l
}

/// a valid IPv4 FlowSpec component sequence of exactly `n` octets (n != 1)
pub fn gen_fs_components(rng: &mut Rng, n: usize) -> Vec<u8> {
    let mut o = Vec::new();
    while o.len() < n {
        let left = n - o.len();
        if left == 2 { o.extend_from_slice(&[1 + rng.below(2) as u8, 0]); continue; }
        if left == 3 { o.extend_from_slice(&[3 + rng.below(10) as u8, 0x81 | (rng.u8() & 0x4f), rng.u8()]); continue; }
        if left == 4 { o.extend_from_slice(&[1, 0, 2, 0]); continue; }
        match rng.below(3) {
            0 => { // prefix component
                let bits = rng.below(33); let nb = (bits as usize + 7) / 8;
                if 2 + nb + 2 > left && 2 + nb != left { continue; }
                o.push(1 + rng.below(2) as u8); o.push(bits as u8);
                o.extend(&gen_addr(rng, false, bits, 9)[..nb]);
            }
            _ => { // operator list
                let t = 3 + rng.below(10) as u8;
                let mut c = vec![t];
                let k = 1 + rng.below(4);
                for j in 0..k {
                    let lenbits = rng.below(4) as u8;
                    let mut op = (lenbits << 4) | (rng.u8() & 0x4f);
                    if j + 1 == k { op |= 0x80; }
                    c.push(op);
                    c.extend(rng.bytes(1 << lenbits));
                }
                if c.len() + 2 > left && c.len() != left { continue; }
                o.extend(c);
            }
        }
    }
    o
}

pub fn gen_val(rng: &mut Rng, var: &Var) -> Val {
    let mut v = Val::default();
    if var.ap { v.pid = Some(match rng.below(5) { 0 => 0, 1 => u32::MAX as u64, _ => rng.u32() as u64 }); }
    let maxlen: u64 = if var.v6 { 128 } else { 32 };
    match var.shape {
        Shape::Pfx => { v.plen = rng.edgy(maxlen); let pat = 4 + rng.below(4); v.addr = gen_addr(rng, var.v6, v.plen, pat); }
        Shape::Mpls => {
            let depth = 1 + rng.below(8) as usize;
            v.labels = if rng.chance(1, 8) { if rng.bool() { vec![0x80, 0, 0] } else { vec![0, 0, 0] } } else { gen_labels(rng, depth) };
            let room = 255 - 8 * v.labels.len() as u64;
            v.plen = rng.edgy(maxlen.min(room)); v.addr = gen_addr(rng, var.v6, v.plen, 4);
        }
        Shape::Vpn => {
            let depth = 1 + rng.below(7) as usize;
            v.labels = if rng.chance(1, 8) { if rng.bool() { vec![0x80, 0, 0] } else { vec![0, 0, 0] } } else { gen_labels(rng, depth) };
            let room = 255 - 8 * (8 + v.labels.len() as u64);
            v.plen = rng.edgy(maxlen.min(room)); v.addr = gen_addr(rng, var.v6, v.plen, 4);
            v.rd = rng.bytes(8);
            if rng.chance(1, 3) { v.rd[0] = 0; v.rd[1] = rng.below(3) as u8; }
        }
        // RFC 4684: default (0 bits), origin AS only (32), anything up to origin AS + route target (96)
        Shape::Rt => { let n = *rng.pick(&[0usize, 4, 12, 12, 12, 5, 8, 11, 7]); v.raw = rng.bytes(n); }
        Shape::Fs => {
            v.afi = if var.v6 { 2 } else { 1 };
            let n = match rng.below(10) { 0 => 0, 1 => 239, 2 => 240, 3 => 241, 4 => 4095, 5 => 4094, _ => 2 + rng.below(60) as usize };
            v.raw = if var.v6 { rng.bytes(n) } else { gen_fs_components(rng, if n == 1 { 2 } else { n }) };
        }
        Shape::Vpls => {
            v.rd = rng.bytes(8);
            v.ve = [rng.edgy(65535), rng.edgy(65535), rng.edgy(65535)];
            v.lb = rng.edgy((1 << 24) - 1);
        }
        Shape::Evpn => { v.t = *rng.pick(&[0u64, 1, 2, 3, 4, 5, 6, 255]); let n = rng.edgy(255) as usize; v.raw = rng.bytes(n); }
    }
    v
}

fn val_line(var: &Var, v: &Val) -> String { format!("val {} {} bits={}", var.name, show(var.shape, v), bits(var.shape, v)) }

fn mutate(rng: &mut Rng, mut b: Vec<u8>) -> Vec<u8> {
    match rng.below(6) {
        0 => { if !b.is_empty() { let i = rng.usize(0, b.len() - 1); b[i] ^= 1 << rng.below(8); } }
        1 => { let k = rng.usize(0, b.len()); b.truncate(k); }
        2 => { let n = rng.usize(1, 6); b.extend(rng.bytes(n)); }
        3 => { if !b.is_empty() { let i = rng.usize(0, b.len().min(6) - 1); b[i] = *rng.pick(&[0u8, 1, 0xff, 0xf0, 0xef, 0x80]); } }
        4 => { if !b.is_empty() { let i = rng.usize(0, b.len().min(6) - 1); b[i] = b[i].wrapping_add(if rng.bool() { 1 } else { 0xff }); } }
        _ => { if b.len() > 1 { let i = rng.usize(0, b.len() - 2); b.remove(i); } }
    }
    b
}

impl Prop for C05 {
    fn gen(&self, rng: &mut Rng, tier: Tier) -> Vec<String> {
        let mut out = Vec::new();
        let scale = if tier == Tier::Thorough { 100 } else { 1 };
        for var in VARIANTS.iter().flatten() {
            let maxlen: u64 = if var.v6 { 128 } else { 32 };
            let pid = |rng: &mut Rng| if var.ap { Some(rng.u32() as u64) } else { None };
            match var.shape {
                // exhaustive prefix lengths with boundary bit patterns
                Shape::Pfx => for plen in 0..=maxlen { for pat in 0..5 {
                    let v = Val { pid: pid(rng), plen, addr: gen_addr(rng, var.v6, plen, pat), ..Default::default() };
                    out.push(val_line(var, &v));
                    out.push(format!("rt {} {}", var.name, hex(&ref_enc(var.shape, &v))));
                    if pat == 1 && plen < maxlen { // a host bit set: must be rejected
                        let mut e = ref_enc(var.shape, &v);
                        let nb = (plen as usize + 7) / 8;
                        if nb > 0 && plen % 8 != 0 { let l = e.len(); e[l - 1] |= 1; out.push(format!("dec {} {}", var.name, hex(&e))); }
                    }
                } },
                // label depth 1..=8 (10 for plain MPLS), both compatibility labels, all prefix lengths at the edges
                Shape::Mpls | Shape::Vpn => {
                    // (depth 12: eleven labels = 33 octets = 264 bits, the `unwrap_or(u8::MAX)` saturation of compose)
                    for depth in 0..=12usize { for plen in [0, 1, 7, 8, 9, 15, 24, 31, 32, 33, 64, 127, 128] {
                        if plen > maxlen { continue; }
                        let labels = match depth { 0 => vec![0x80, 0, 0], 11 => vec![0, 0, 0], 12 => gen_labels(rng, 11), d => gen_labels(rng, d) };
                        let mut v = Val { pid: pid(rng), plen, addr: gen_addr(rng, var.v6, plen, 4), labels, ..Default::default() };
                        if var.shape == Shape::Vpn { v.rd = rng.bytes(8); }
                        out.push(val_line(var, &v));
                        if ref_wf(var.shape, var.v6, &v) { out.push(format!("rt {} {}", var.name, hex(&ref_enc(var.shape, &v)))); }
                    } }
                }
                Shape::Rt => for n in 0..=34usize {
                    let v = Val { pid: pid(rng), raw: rng.bytes(n), ..Default::default() };
                    out.push(val_line(var, &v));
                    if n <= 31 { out.push(format!("rt {} {}", var.name, hex(&ref_enc(var.shape, &v)))); }
                    // every bit count that maps to this octet count
                    if n > 0 { let mut e = ref_enc(var.shape, &v); let k = if var.ap { 4 } else { 0 };
                        if n <= 31 { e[k] = (8 * n - rng.usize(0, 7)) as u8; out.push(format!("rt {} {}", var.name, hex(&e))); } }
                },
                Shape::Evpn => for n in 0..=257usize {
                    let v = Val { pid: pid(rng), t: *rng.pick(&[0u64, 1, 2, 3, 4, 5, 6, 255]), raw: rng.bytes(n), ..Default::default() };
                    out.push(val_line(var, &v));
                    if n <= 255 { out.push(format!("rt {} {}", var.name, hex(&ref_enc(var.shape, &v)))); }
                    // K10: the non-normalised route types Unimplemented(1..=5), which only serde builds
                    if n < 10 { out.push(val_line(var, &Val { t: 257 + (n as u64 % 5), ..v.clone() })); }
                },
                Shape::Fs => for n in [0usize, 2, 3, 4, 5, 17, 238, 239, 240, 241, 255, 256, 4094, 4095, 4096, 5000] {
                    let raw = if var.v6 { rng.bytes(n) } else { gen_fs_components(rng, n) };
                    let v = Val { pid: pid(rng), afi: if var.v6 { 2 } else { 1 }, raw, ..Default::default() };
                    out.push(val_line(var, &v));
                    if n <= 4095 { out.push(format!("rt {} {}", var.name, hex(&ref_enc(var.shape, &v)))); }
                    // K10: an afi that is not the family's (serde accepts any u16)
                    if n <= 17 { out.push(val_line(var, &Val { afi: *rng.pick(&[if var.v6 { 1u64 } else { 2 }, 25, 0, 65535]), ..v.clone() })); }
                },
                Shape::Vpls => for i in 0..40u64 {
                    let e = |rng: &mut Rng, m: u64| if i < 8 { if i & 1 == 0 { 0 } else { m } } else { rng.edgy(m) };
                    let v = Val { pid: pid(rng), rd: rng.bytes(8), ve: [e(rng, 65535), e(rng, 65535), e(rng, 65535)], lb: e(rng, (1 << 24) - 1), ..Default::default() };
                    out.push(val_line(var, &v));
                    let mut enc = ref_enc(var.shape, &v);
                    out.push(format!("rt {} {}", var.name, hex(&enc)));
                    // the length field is not interpreted by the parser
                    let k = if var.ap { 4 } else { 0 };
                    enc[k] = rng.u8(); enc[k + 1] = rng.u8();
                    out.push(format!("rt {} {}", var.name, hex(&enc)));
                },
            }
            // random well-formed values: val + rt
            for _ in 0..(60 * scale) {
                let v = gen_val(rng, var);
                out.push(val_line(var, &v));
                out.push(format!("rt {} {}", var.name, hex(&ref_enc(var.shape, &v))));
            }
            // concatenations of well-formed values
            for i in 0..(30 * scale) {
                let k = if i == 0 { 0 } else { rng.usize(1, 12) };
                let mut cat = Vec::new();
                for _ in 0..k {
                    let mut v = gen_val(rng, var);
                    if var.shape == Shape::Fs && v.raw.len() > 300 && rng.chance(3, 4) { v.raw = if var.v6 { rng.bytes(7) } else { gen_fs_components(rng, 7) }; }
                    cat.extend(ref_enc(var.shape, &v));
                }
                out.push(format!("cat {} {} {}", var.name, k, hex(&cat)));
                if i % 3 == 1 { out.push(format!("cat {} - {}", var.name, hex(&mutate(rng, cat)))); }
            }
            // malformed stream
            for _ in 0..(60 * scale) {
                let v = gen_val(rng, var);
                let e = mutate(rng, ref_enc(var.shape, &v));
                out.push(format!("{} {} {}", if rng.bool() { "dec" } else { "rt" }, var.name, hex(&e)));
            }
            for _ in 0..(30 * scale) {
                let n = rng.usize(0, 40);
                let mut e = rng.bytes(n);
                if rng.bool() && !e.is_empty() { let k = if var.ap && e.len() > 4 { 4 } else { 0 }; e[k] = rng.below(64) as u8; }
                out.push(format!("dec {} {}", var.name, hex(&e)));
            }
        }
        // request lines nobody should accept
        out.push("dec Ipv4Unicast zz".into());
        out.push("dec Ipv5Unicast 00".into());
        out.push("val Ipv4Unicast p=24/01020304 bits=0".into());
        out.push("val Ipv4Unicast p=24/01020300 bits=1".into());
        out.push("val Ipv4UnicastAddpath pid=4294967296 p=24/01020300 bits=0".into());
        out.push("val Ipv6Unicast p=24/01020300 bits=0".into());
        out
    }

    fn exec(&self, line: &str) -> String {
        let w: Vec<&str> = line.split(' ').collect();
        if w.len() < 3 { return "bad-op".into(); }
        match variant(w[1]) {
            Some(var) => {
                let mut reply = (var.run)(var, w[0], &w[2..]);
                // (tie coverage) the four prefix families have public constructors next to serde and the parsers:
                // TryFrom<Prefix>, FromStr, TryFrom<(Prefix, PathId)>.  The value they build from the same prefix
                // composes to the same octets, and they refuse a prefix of the other IP version.
                if w[0] == "val" && var.shape == Shape::Pfx {
                    if let Some(enc) = reply.strip_prefix("ok enc=").and_then(|r| r.split(' ').next()).and_then(unhex_strict) {
                        if let Some(why) = pfx_ctors(var, &enc) { reply.push_str(&format!(" CTOR-BAD:{}", why.replace(' ', "_"))); }
                    }
                }
                reply
            }
            None => "bad-op".into(),
        }
    }

    fn oracle(&self, line: &str, reply: &str) -> Result<(), String> {
        let w: Vec<&str> = line.split(' ').collect();
        if w.len() < 3 || reply == "bad-op" { return Ok(()); }
        // the iterator-protocol verdict on NlriIter (last token of a `cat` reply)
        proto_judge(reply)?;
        let reply = reply.strip_suffix(" proto=ok").unwrap_or(reply);
        if let Some(i) = reply.find(" CTOR-BAD:") { return Err(format!("the public constructors of the family disagree with the value: {}", &reply[i + 10..])); }
        let Some(var) = variant(w[1]) else { return Ok(()) };
        let parts: Vec<&str> = reply.split(" | ").collect();
        let rd = |s: &str| -> Option<Val> { read(var.shape, var.ap, &s.split(' ').collect::<Vec<_>>()) };
        // `enc=HEX clen=N`
        let enc_clen = |s: &str| -> Option<(Vec<u8>, usize)> {
            let (a, b) = s.split_once(' ')?;
            Some((kv_hex("enc", a)?, kv_nat("clen", b)? as usize))
        };
        // judge one value against its composed bytes and the re-parse. What is demanded is what the
        // property states: compose_len = octets written; the octets written are AN encoding of the
        // value (read by the independent reference decoder – not necessarily the reference ENcoding:
        // e.g. either FlowSpec length form, any VPLS length field); decoding them yields the value
        // and consumes exactly them.
        let judge = |val: &Val, enc: &[u8], clen: usize, re: &str| -> Result<(), String> {
            if clen != enc.len() { return Err(format!("compose_len() = {} but compose wrote {} octets", clen, enc.len())); }
            let wf = ref_wf(var.shape, var.v6, val);
            let tolerated = ref_tolerated(var.shape, var.v6, val);
            let denorm = ref_denorm(var.shape, var.v6, val);
            if !wf && !tolerated && denorm.is_none() { return Ok(()); } // not encodable at all: outside the property's domain
            // the value the wire image denotes
            let wire_val = denorm.clone().unwrap_or_else(|| val.clone());
            let saturated_rt = var.shape == Shape::Rt && val.raw.len() == 32; // 8 * 32 does not fit the length octet
            if !saturated_rt && !ref_encodes(var.shape, var.v6, enc, &wire_val) {
                return Err(format!("composed {}, which the reference decoder does not read as the value (its reference encoding is {})",
                    hex(enc), hex(&ref_enc(var.shape, &wire_val))));
            }
            let exp = format!("re=ok used={} {}", enc.len(), show(var.shape, val));
            if re == exp { return Ok(()); }
            // a value outside the RFC-defined space may be refused by the parser
            if tolerated && re == "re=err" { return Ok(()); }
            if denorm.is_some() && re == format!("re=ok used={} {}", enc.len(), show(var.shape, &wire_val)) {
                return Err(format!("K10 the round trip does not return an equal value: `{}` decodes to `{}`, which is != the original \
                    (the field is compared by == but not carried by the wire image as given)", show(var.shape, val), show(var.shape, &wire_val)));
            }
            Err(format!("decoding the composed bytes gave `{}`, expected `{}`", re, exp))
        };
        // all NLRI in `b`, as the reference decoder reads them (None: `b` is not a sequence of NLRI)
        let ref_all = |b: &[u8]| -> Option<Vec<Val>> {
            let mut out = Vec::new();
            let mut i = 0;
            while i < b.len() {
                let (v, n) = ref_dec(var.shape, var.v6, var.ap, &b[i..])?;
                out.push(v); i += n;
            }
            Some(out)
        };
        match w[0] {
            "dec" => {
                if reply == "panic" { return Ok(()); } // totality of parsing is C02's subject
                Ok(())
            }
            "rt" => {
                if reply == "err" { return Ok(()); }
                if reply == "panic" {
                    // a panic of the *parser* on these bytes is C02's subject (F2); only a panic
                    // after a successful parse concerns the round trip
                    let d = catch(|| self.exec(&format!("dec {} {}", w[1], w[2])));
                    if d == "panic" { return Ok(()); }
                    return Err("parse accepted the bytes but compose / re-parse panicked".into());
                }
                if parts.len() != 3 { return Err("malformed reply".into()); }
                let val = rd(parts[0].strip_prefix("ok ").ok_or("malformed reply")?).ok_or("unreadable value")?;
                let (enc, clen) = enc_clen(parts[1]).ok_or("malformed reply")?;
                // whatever the FlowSpec parser returns must be a complete component list (F28)
                if var.shape == Shape::Fs && !ref_wf(var.shape, var.v6, &val) {
                    return Err(format!("parse returned the FlowSpec NLRI `{}` whose components do not end at its length; `{}`",
                        show(var.shape, &val), parts[2]));
                }
                // an accepted input was read as the value the reference decoder reads
                let raw = unhex_strict(w[2]).ok_or("bad hex")?;
                if let Some((rv, _)) = ref_dec(var.shape, var.v6, var.ap, &raw) {
                    if (ref_wf(var.shape, var.v6, &rv) || ref_tolerated(var.shape, var.v6, &rv)) && rv != val {
                        return Err(format!("parse returned `{}` where the reference decoder reads `{}`", show(var.shape, &val), show(var.shape, &rv)));
                    }
                }
                judge(&val, &enc, clen, parts[2])
            }
            "val" => {
                let (tb, rest) = w[2..].split_last().unwrap();
                let _ = tb;
                let val = read(var.shape, var.ap, rest).ok_or("unreadable value")?;
                if reply == "panic" {
                    // K3 is the overflow of the u8 sum `try_from(label/RD bits).unwrap_or(255) + prefix length`; a panic
                    // on a value for which that sum fits is something else and must not be taken for it
                    let fixed = match var.shape { Shape::Mpls => Some(0u64), Shape::Vpn => Some(64), _ => None };
                    let overflows = fixed.map_or(false, |f| (f + 8 * val.labels.len() as u64).min(255) + val.plen > 255);
                    return Err(if overflows { format!("compose panicked on a value of {} ({} bits): the length octet overflows", var.name, bits(var.shape, &val)) }
                        else { format!("composing or re-parsing a value of {} panicked although its length octet does not overflow", var.name) });
                }
                if parts.len() != 2 { return Err("malformed reply".into()); }
                let (enc, clen) = enc_clen(parts[0].strip_prefix("ok ").ok_or("malformed reply")?).ok_or("malformed reply")?;
                judge(&val, &enc, clen, parts[1])
            }
            "cat" => {
                if reply == "panic" { return Ok(()); } // a parser panic on malformed input: C02
                if parts.len() != 3 { return Err("malformed reply".into()); }
                let head: Vec<&str> = parts[0].splitn(4, ' ').collect();
                if head.len() != 4 { return Err("malformed reply".into()); }
                let n = kv_nat("n", head[1]).ok_or("malformed reply")? as usize;
                let end = head[2] == "end=true";
                let vals_s = kv("vals", head[3]).ok_or("malformed reply")?;
                let vals: Vec<Val> = if vals_s == "-" { vec![] } else {
                    vals_s.split(';').map(|s| rd(s)).collect::<Option<Vec<_>>>().ok_or("unreadable value")? };
                let (enc, clen) = enc_clen(parts[1]).ok_or("malformed reply")?;
                if clen != enc.len() { return Err(format!("sum of compose_len() = {} but {} octets were written", clen, enc.len())); }
                if vals.iter().all(|v| ref_wf(var.shape, var.v6, v)) {
                    // the items written are encodings of the items read, in order (any legal encoding)
                    if ref_all(&enc).as_ref() != Some(&vals) {
                        let want: Vec<u8> = vals.iter().flat_map(|v| ref_enc(var.shape, v)).collect();
                        return Err(format!("composed {}, which the reference decoder does not read as the sequence of values (reference encoding {})", hex(&enc), hex(&want)));
                    }
                    if parts[2] != "re=same" { return Err("the concatenation of the composed items does not decode to the same sequence".into()); }
                }
                if let Ok(k) = w[2].parse::<usize>() {
                    // the request is a concatenation of k reference-encoded well-formed values: it decodes
                    // to exactly that sequence, in order, up to the end
                    let raw = unhex_strict(w[3]).unwrap();
                    if n != k || !end { return Err(format!("{} well-formed NLRI concatenated, {} decoded (end={})", k, n, end)); }
                    if ref_all(&raw).as_ref() != Some(&vals) { return Err("the decoded sequence is not the sequence that was encoded".into()); }
                }
                Ok(())
            }
            _ => Ok(()),
        }
    }

    fn nontrivial(&self, _line: &str, reply: &str) -> bool { reply.starts_with("ok") || reply == "panic" }

    fn class(&self, line: &str, reply: &str) -> String {
        let mut w = line.split(' ');
        let op = w.next().unwrap_or("");
        let var = w.next().unwrap_or("");
        let r = reply.split(' ').next().unwrap_or("");
        format!("{}:{}:{}", var, op, r)
    }
}
