//! C08: the RFC 4271 session FSM, driven on a real `Session` over a loopback
//! TCP pair (current-thread tokio runtime, paused clock).
//!
//! Request line:  `h <cfg> <init> <step> <step> ...`
//!   cfg   `d<0|1>n<0|1>p<0|1>x<0|1>a<0|1>h<hold>`  DelayOpen, SendNOTIFICATIONwithoutOPEN,
//!         PassiveTcpEstablishment, config.is_exact(), config.addpath()=[Ipv4Unicast], local hold time
//!   init  `-` (fresh session: Idle, no timer running, connection attached) or
//!         `<state 1..6>:<crt><hold><ka><dop><conn>` forced through the hooks
//!   step  `e<k>` inject Event number k (order of the `Event` enum, 0..20);
//!         `e12:<asn>:<hold>:<ap>` / `e20:...` carry a real parsed OPEN;
//!         `mO:<asn>:<hold>:<ap>` `mK` `mU:<n>` `mN:<code>:<sub>` `mR` a real PDU through handle_msg;
//!         `aS` Session::manual_start(), `aC` Session::connection_established(),
//!         `aA` a new TCP stream is attached through the hook (no FSM event)
//!         `T` (`h` lines, not after `aA`) `Session::tick()` with no command and no bytes pending, on the paused clock:
//!         tokio advances the clock to the next timer, so the call returns when the first of the keepalive / hold /
//!         delay-open timers the session really started fires and `tick` has raised its event; reply `idle` when it
//!         would never return (no such timer), `tie` when two timers were due at the same instant (both end the history)
//!         the record of a `T` step ends with ` @<seconds on the paused clock since the session was created>`
//!         `W<d>` (`h` lines; 1..60) the paused clock moves `d` seconds while the session is NOT polled (its timers' tasks
//!         go on: a tick that falls due is queued); record = the unchanged state + ` @<clock>`.  A line whose `W`s add up
//!         to two local hold times or more is refused (the hold timer would collect two un-awaited ticks, see timers.rs).
//!         With `T` / `W` on the line, `aA` takes a stream that was connected before the clock ran (connecting waits).
//!         `pB:<hex>` (`h` lines; 1..64 octets) the peer writes RAW octets that do not make a whole frame (the octets written
//!         by all `pB` steps of the line must leave `parse_frame` undecided: fewer than 18, or a length field >= 19 that
//!         announces more than is there; with `aA` on the line: at most 17 in all), then `Session::tick()` is polled - never
//!         letting the paused clock move - until it has read them and is pending again (`read_frame` waits for the rest of
//!         the frame): record = the unchanged state + ` @<clock>`; if a timer tick was already queued (after `W`), `tick()`
//!         returns with that timer's event as for `T`.  A `T` / `W` after it finds the session with a PARTIAL FRAME in its
//!         receive buffer: the timer branches of `tick()` must not care.
//!         `q<room>` from now on the application's outgoing PDU queue (`pdu_out`, 64 slots) has only <room> free slots
//!         at the start of every step (the application is slow in writing to the socket); `send_pdu` is a `try_send`
//!   OPEN  `<asn>:<hold>:<ap>`: the peer's AS in both widths (two-octet field = asn, or AS_TRANS plus the four-octet
//!         capability when it does not fit), or `<asn>:<hold>:<ap>:f<field>`: the four-octet AS capability (RFC 6793) carries
//!         <asn>, the two-octet My-AS field carries <field> – the capability is what says who the peer is
//!   ap    `-` no ADD-PATH capability, else pairs `<4|6><dir 0..3>` (Ipv4/Ipv6 unicast; direction 0 is
//!         undefined: the OPEN parses, `addpath_families_vec()` fails)
//! Request line:  `t <cfg> <step> ...`  a fresh session on a wall-clock runtime; besides the steps above
//!   step  `wO:..` `wK` `wU:<n>` `wN:<code>:<sub>` `wR` the PDU's bytes are written to the loopback socket and
//!         `Session::tick()` is called (read_frame -> parse -> handle_msg); `c` the peer closes, then `tick()`;
//!         `wX` a malformed frame (length field 5) is written, then `tick()`; `cM` the peer writes half a header and
//!         closes, then `tick()`: `read_frame` fails in both cases
//!         `cDr` `cDc` `cDd` `cDh` `cDo` Command::Disconnect(ConnectionRejected / Reconfiguration / Deconfigured / HoldTimerExpired / Other),
//!         `cD` Command::Disconnect(Shutdown) / `cK` Command::ForcedKeepalive on the command channel, then `tick()`
//!   reply additionally `noconn` (no connection attached: nothing to read; ends the history), `hang`
//! Request line:  `s <cfg> <init> <stream hex> <lens> <c|->`  the whole receive path: a session forced into <init> (as on
//!   `h` lines) on the wall-clock runtime; the peer writes <stream> in the chunks <lens> (`a,b,c`, each >= 1, summing to
//!   the length of the stream); after every chunk `Session::tick()` is called until it stays pending for 8 ms (the
//!   pending tick - `read_frame` inside `select!` - is then dropped); `c`: the peer closes after the last chunk and
//!   `tick()` is called once more.  Reply: one record per `tick()` that returned (= per frame handed to `handle_msg`,
//!   plus a failed read / the close), then ` ## same=<0|1>`: 1 iff the same stream written in ONE piece gives the same
//!   records.  Model side: `Rc.Session.feedAll` with the concrete decoders (Rc/Model/Session.lean), i.e. the function
//!   `session_chunking_invariant` / `session_end_to_end` (Rc/Thm/C09.lean) are about.
//! Reply: one record per step joined by ` ; `:
//!   `<State> <ok|err> <crt><hold><ka><dop> <retry counter> <conn> <negotiated> <pdus out> <to app>`
//!   or `todo` (the arm is `todo!()`) / `panic` (any other panic); both end the history.
use crate::common::*;
use bytes::Bytes;
use routecore::bgp::fsm::session::{BgpConfig, Command, Message, Session};
use routecore::bgp::fsm::state_machine::{Event, State};
use routecore::bgp::message::{Message as BgpMsg, OpenMessage, SessionConfig};
use routecore::bgp::types::AfiSafiType;
use inetnum::asn::Asn;
use std::cell::RefCell;
use std::collections::{BTreeSet, VecDeque};
use std::net::IpAddr;
use std::panic::{catch_unwind, AssertUnwindSafe};
use tokio::sync::mpsc;

pub struct C08;

pub const ALLOWED_ASNS: [u32; 2] = [65001, 4_200_000_001];

#[derive(Clone, Copy, Debug, PartialEq, Eq)]
pub struct Cfg { d: bool, n: bool, p: bool, x: bool, a: bool, h: u16 }

impl Cfg {
    fn parse(s: &str) -> Option<Cfg> {
        let b = s.as_bytes();
        if b.len() < 12 || b[0] != b'd' || b[2] != b'n' || b[4] != b'p' || b[6] != b'x' || b[8] != b'a' || b[10] != b'h' { return None; }
        let bit = |c: u8| match c { b'0' => Some(false), b'1' => Some(true), _ => None };
        let hs = &s[11..];
        if hs.is_empty() || hs.len() > 5 || !hs.bytes().all(|c| c.is_ascii_digit()) || (hs.len() > 1 && hs.starts_with('0')) { return None; }
        let h: u32 = hs.parse().ok()?;
        if h > 65535 { return None; }
        Some(Cfg { d: bit(b[1])?, n: bit(b[3])?, p: bit(b[5])?, x: bit(b[7])?, a: bit(b[9])?, h: h as u16 })
    }
    fn show(&self) -> String {
        format!("d{}n{}p{}x{}a{}h{}", self.d as u8, self.n as u8, self.p as u8, self.x as u8, self.a as u8, self.h)
    }
}

#[derive(Clone, Debug)]
struct VCfg(Cfg);
impl BgpConfig for VCfg {
    fn local_asn(&self) -> Asn { Asn::from_u32(65000) }
    fn bgp_id(&self) -> [u8; 4] { [10, 0, 0, 1] }
    fn remote_addr_allowed(&self, _a: IpAddr) -> bool { true }
    fn remote_asn_allowed(&self, a: Asn) -> bool { ALLOWED_ASNS.contains(&a.into_u32()) }
    fn hold_time(&self) -> Option<u16> { Some(self.0.h) }
    fn is_exact(&self) -> bool { self.0.x }
    fn protocols(&self) -> Vec<AfiSafiType> { vec![AfiSafiType::Ipv4Unicast, AfiSafiType::Ipv6Unicast] }
    fn addpath(&self) -> Vec<AfiSafiType> { if self.0.a { vec![AfiSafiType::Ipv4Unicast] } else { vec![] } }
}

#[derive(Clone, Copy, Debug, PartialEq, Eq)]
pub struct Init { st: u8, crt: bool, hold: bool, ka: bool, dop: bool, conn: bool }
const FRESH: Init = Init { st: 1, crt: false, hold: false, ka: false, dop: false, conn: true };

impl Init {
    fn parse(s: &str) -> Option<Init> {
        if s == "-" { return Some(FRESH); }
        let b = s.as_bytes();
        if b.len() != 7 || b[1] != b':' || !(b'1'..=b'6').contains(&b[0]) { return None; }
        let bit = |c: u8| match c { b'0' => Some(false), b'1' => Some(true), _ => None };
        Some(Init { st: b[0] - b'0', crt: bit(b[2])?, hold: bit(b[3])?, ka: bit(b[4])?, dop: bit(b[5])?, conn: bit(b[6])? })
    }
    fn show(&self) -> String {
        if *self == FRESH { return "-".into(); }
        format!("{}:{}{}{}{}{}", self.st, self.crt as u8, self.hold as u8, self.ka as u8, self.dop as u8, self.conn as u8)
    }
}

#[derive(Clone, Debug, PartialEq, Eq)]
pub struct OpenP { asn: u32, hold: u16, ap: Vec<(u8, u8)>, field: Option<u16> }

#[derive(Clone, Debug, PartialEq, Eq)]
pub enum Step {
    Ev(u8, Option<OpenP>),
    MOpen(OpenP), MKeep, MUpd(u8), MNotif(u8, u8), MRefresh,
    AStart, AConn,
    /// a fresh TCP stream is attached through the hook (no FSM event)
    Attach,
    /// the application's `pdu_out` queue has only this many free slots at the start of every following step
    Room(u8),
    /// `h` lines only: `Session::tick()` with nothing pending but the session's own timers (paused clock)
    Timer,
    /// `h` lines only: the paused clock moves this many seconds, the session is not polled
    Wait(u8),
    /// `h` lines only: the peer writes octets that are not a whole frame; `tick()` is polled until it has read them
    Raw(Vec<u8>),
    /// `t` lines only: the PDU is written to the socket and `Session::tick()` is called
    Wire(Box<Step>),
    /// `t` lines only: the peer closes the connection and `Session::tick()` is called
    Close,
    /// `t` lines only: `read_frame` fails - a malformed frame (`false`) / the peer closes in the middle of a frame (`true`)
    ReadErr(bool),
    /// `t` lines only: `Command::Disconnect(DisconnectReason::Shutdown)` is sent, then `tick()`
    CmdDisconnect,
    /// `t` lines only: `Command::Disconnect(reason)` with one of the other reasons: `r` ConnectionRejected,
    /// `c` Reconfiguration, `d` Deconfigured, `h` HoldTimerExpired, `o` Other (tokens cDr cDc cDd cDh cDo)
    CmdDisconnectWith(char),
    /// `t` lines only: `Command::ForcedKeepalive` is sent, then `tick()`
    CmdKeepalive,
    /// `t` lines only: the peer writes `k` UPDATEs (of `n` withdrawals each) back to back and `tick()` is
    /// called once per UPDATE while the application is NOT reading its channel (capacity APP_CAP); it
    /// starts reading 20 ms later.  One record for the whole burst.
    Burst(u8, u8),
}

/// capacity of the application channel on `t` lines (small, so that a burst fills it)
const APP_CAP: usize = 4;
/// capacity of the outgoing PDU queue the harness (= the application) gives the session
const PDU_CAP: usize = 64;

fn parse_num(s: &str, max: u64) -> Option<u64> {
    if s.is_empty() || s.len() > 10 || !s.bytes().all(|c| c.is_ascii_digit()) || (s.len() > 1 && s.starts_with('0')) { return None; }
    let v: u64 = s.parse().ok()?;
    if v > max { None } else { Some(v) }
}

fn parse_open(parts: &[&str]) -> Option<OpenP> {
    if parts.len() != 3 && parts.len() != 4 { return None; }
    let field = if parts.len() == 4 { Some(parse_num(parts[3].strip_prefix('f')?, 65535)? as u16) } else { None };
    let asn = parse_num(parts[0], u32::MAX as u64)? as u32;
    let hold = parse_num(parts[1], 65535)? as u16;
    let mut ap = Vec::new();
    if parts[2] != "-" {
        let b = parts[2].as_bytes();
        if b.is_empty() || b.len() % 2 != 0 || b.len() > 16 { return None; }
        for c in b.chunks(2) {
            if (c[0] != b'4' && c[0] != b'6') || !(b'0'..=b'3').contains(&c[1]) { return None; }
            ap.push((c[0] - b'0', c[1] - b'0'));
        }
    }
    Some(OpenP { asn, hold, ap, field })
}

fn show_open(o: &OpenP) -> String {
    let ap = if o.ap.is_empty() { "-".to_string() } else { o.ap.iter().map(|(f, d)| format!("{}{}", f, d)).collect::<String>() };
    match o.field { None => format!("{}:{}:{}", o.asn, o.hold, ap), Some(f) => format!("{}:{}:{}:f{}", o.asn, o.hold, ap, f) }
}

impl Step {
    fn parse(s: &str) -> Option<Step> {
        let parts: Vec<&str> = s.split(':').collect();
        let head = parts[0];
        if let Some(k) = head.strip_prefix('e') {
            let k = parse_num(k, 20)? as u8;
            if k == 12 || k == 20 { return Some(Step::Ev(k, Some(parse_open(&parts[1..])?))); }
            if parts.len() != 1 { return None; }
            return Some(Step::Ev(k, None));
        }
        match head {
            "mO" => Some(Step::MOpen(parse_open(&parts[1..])?)),
            "mK" if parts.len() == 1 => Some(Step::MKeep),
            "mU" if parts.len() == 2 => Some(Step::MUpd(parse_num(parts[1], 200)? as u8)),
            "mN" if parts.len() == 3 => Some(Step::MNotif(parse_num(parts[1], 255)? as u8, parse_num(parts[2], 255)? as u8)),
            "mR" if parts.len() == 1 => Some(Step::MRefresh),
            "aS" if parts.len() == 1 => Some(Step::AStart),
            "aC" if parts.len() == 1 => Some(Step::AConn),
            "aA" if parts.len() == 1 => Some(Step::Attach),
            "T" if parts.len() == 1 => Some(Step::Timer),
            "pB" if parts.len() == 2 => { let b = unhex(parts[1])?; if b.is_empty() || b.len() > 64 || parts[1] == "-" { None } else { Some(Step::Raw(b)) } }
            _ if head.starts_with('W') && parts.len() == 1 => { let d = parse_num(&head[1..], 60)? as u8; if d == 0 { None } else { Some(Step::Wait(d)) } }
            _ if head.starts_with('q') && parts.len() == 1 => Some(Step::Room(parse_num(&head[1..], PDU_CAP as u64)? as u8)),
            _ => None,
        }
    }
    fn show(&self) -> String {
        match self {
            Step::Ev(k, None) => format!("e{}", k),
            Step::Ev(k, Some(o)) => format!("e{}:{}", k, show_open(o)),
            Step::MOpen(o) => format!("mO:{}", show_open(o)),
            Step::MKeep => "mK".into(),
            Step::MUpd(n) => format!("mU:{}", n),
            Step::MNotif(c, s) => format!("mN:{}:{}", c, s),
            Step::MRefresh => "mR".into(),
            Step::AStart => "aS".into(),
            Step::AConn => "aC".into(),
            Step::Attach => "aA".into(),
            Step::Room(n) => format!("q{}", n),
            Step::Timer => "T".into(),
            Step::Wait(d) => format!("W{}", d),
            Step::Raw(b) => format!("pB:{}", hex(b)),
            Step::Wire(inner) => format!("w{}", &inner.show()[1..]),
            Step::Close => "c".into(),
            Step::ReadErr(mid) => if *mid { "cM".into() } else { "wX".into() },
            Step::CmdDisconnect => "cD".into(),
            Step::CmdDisconnectWith(c) => format!("cD{}", c),
            Step::CmdKeepalive => "cK".into(),
            Step::Burst(k, n) => format!("bU:{}:{}", k, n),
        }
    }
}

// ---- PDUs, written from RFC 4271 / 5492 / 6793 / 7911 (no routecore composer) ----

fn header(len: usize, typ: u8) -> Vec<u8> {
    let mut v = vec![0xffu8; 16];
    v.extend_from_slice(&(len as u16).to_be_bytes());
    v.push(typ);
    v
}

pub fn open_bytes(o: &OpenP) -> Vec<u8> {
    let mut caps: Vec<Vec<u8>> = vec![vec![1, 4, 0, 1, 0, 1]];
    if o.asn > 65535 || o.field.is_some() {
        let mut c = vec![65, 4];
        c.extend_from_slice(&o.asn.to_be_bytes());
        caps.push(c);
    }
    if !o.ap.is_empty() {
        let mut c = vec![69, (o.ap.len() * 4) as u8];
        for (f, d) in &o.ap {
            c.extend_from_slice(&[0, if *f == 4 { 1 } else { 2 }, 1, *d]);
        }
        caps.push(c);
    }
    let mut params = Vec::new();
    for c in caps { params.push(2u8); params.push(c.len() as u8); params.extend_from_slice(&c); }
    let len = 19 + 10 + params.len();
    let mut v = header(len, 1);
    v.push(4);
    let as2: u16 = match o.field { Some(f) => f, None => if o.asn > 65535 { 23456 } else { o.asn as u16 } };
    v.extend_from_slice(&as2.to_be_bytes());
    v.extend_from_slice(&o.hold.to_be_bytes());
    v.extend_from_slice(&[10, 0, 0, 2]);
    v.push(params.len() as u8);
    v.extend_from_slice(&params);
    v
}

pub fn update_bytes(n: u8) -> Vec<u8> {
    let len = 23 + 4 * n as usize;
    let mut v = header(len, 2);
    v.extend_from_slice(&((4 * n as u16).to_be_bytes()));
    for i in 0..n { v.extend_from_slice(&[24, 10, 1, i]); }
    v.extend_from_slice(&[0, 0]);
    v
}

pub fn notif_bytes(c: u8, s: u8) -> Vec<u8> { let mut v = header(21, 3); v.push(c); v.push(s); v }
pub fn keepalive_bytes() -> Vec<u8> { header(19, 4) }
pub fn refresh_bytes() -> Vec<u8> { let mut v = header(23, 5); v.extend_from_slice(&[0, 1, 0, 1]); v }

fn parse_open_msg(o: &OpenP) -> Option<OpenMessage<Bytes>> {
    OpenMessage::from_octets(Bytes::from(open_bytes(o))).ok()
}

fn parse_msg(v: Vec<u8>) -> Option<BgpMsg<Bytes>> {
    BgpMsg::from_octets(Bytes::from(v), Some(&SessionConfig::modern())).ok()
}

// ---- a live session ----

struct Rt { rt: tokio::runtime::Runtime, listener: tokio::net::TcpListener, addr: std::net::SocketAddr }

thread_local! {
    static RT: RefCell<Option<Rt>> = const { RefCell::new(None) };
    static RT_REAL: RefCell<Option<Rt>> = const { RefCell::new(None) };
}

/// `real == false`: the paused-clock runtime (hook-driven steps never wait);
/// `real == true`: wall-clock runtime for the `tick()`-driven steps, which wait for the socket
/// (with a paused clock tokio would jump to the next timer instead of waiting for the bytes).
fn with_rt_of<R>(real: bool, f: impl FnOnce(&Rt) -> R) -> R {
    let key = if real { &RT_REAL } else { &RT };
    key.with(|c| {
        let mut c = c.borrow_mut();
        if c.is_none() {
            let rt = tokio::runtime::Builder::new_current_thread().enable_all().start_paused(!real).build().unwrap();
            let listener = rt.block_on(async { crate::retry_io!(tokio::net::TcpListener::bind("127.0.0.1:0").await) });
            let addr = listener.local_addr().unwrap();
            *c = Some(Rt { rt, listener, addr });
        }
        f(c.as_ref().unwrap())
    })
}

fn with_rt<R>(f: impl FnOnce(&Rt) -> R) -> R { with_rt_of(false, f) }

pub struct Live {
    s: Option<Session<VCfg>>,
    app: mpsc::Receiver<Message>,
    pdus: mpsc::Receiver<BgpMsg<Bytes>>,
    cmd: mpsc::Sender<Command>,
    _wr: tokio::net::tcp::OwnedWriteHalf,
    peer: tokio::net::TcpStream,
    /// sockets of earlier connections, kept open
    old: Vec<(tokio::net::tcp::OwnedWriteHalf, tokio::net::TcpStream)>,
    dead: bool,
    real: bool,
    /// application messages taken off the channel while a burst was being processed
    side: Vec<Message>,
    /// the application's end of `pdu_out` (to occupy slots) and the free slots it leaves per step (`q<room>`)
    pdu_tx: mpsc::Sender<BgpMsg<Bytes>>,
    room: usize,
    /// the configured (local) hold time: every timer interval is at most max(this, 10) seconds
    hold_secs: u64,
    /// placeholders put into `pdu_out` before the current step
    filled: usize,
    /// the paused clock when the session was created
    base: tokio::time::Instant,
    /// streams connected before the clock ran, for `aA` on lines with `T` / `W`
    spares: Vec<(tokio::net::tcp::OwnedReadHalf, tokio::net::tcp::OwnedWriteHalf, tokio::net::TcpStream)>,
}

#[derive(Clone, Debug, PartialEq, Eq, PartialOrd, Ord)]
pub struct Rec {
    st: u8, ok: bool, crt: bool, hold: bool, ka: bool, dop: bool, cnt: usize, conn: bool,
    neg: String, outs: Vec<String>, app: Vec<String>,
    /// `T` / `W` steps: seconds on the paused clock since the session was created
    at: Option<u64>,
}

#[derive(Clone, Debug, PartialEq, Eq)]
pub enum Out { Rec(Rec), Todo, Panic, Unparsable, NoConn, Hang, Idle, Tie }

pub const STATE_NAMES: [&str; 7] = ["?", "Idle", "Connect", "Active", "OpenSent", "OpenConfirm", "Established"];

fn state_of(n: u8) -> State {
    match n { 1 => State::Idle, 2 => State::Connect, 3 => State::Active, 4 => State::OpenSent, 5 => State::OpenConfirm, _ => State::Established }
}
fn state_no(s: State) -> u8 {
    match s { State::Idle => 1, State::Connect => 2, State::Active => 3, State::OpenSent => 4, State::OpenConfirm => 5, State::Established => 6, _ => 0 }
}

impl Rec {
    fn show(&self) -> String {
        let j = |v: &Vec<String>| if v.is_empty() { "-".to_string() } else { v.join(",") };
        format!("{} {} {}{}{}{} {} {} {} {} {}{}", STATE_NAMES[self.st as usize], if self.ok { "ok" } else { "err" },
            self.crt as u8, self.hold as u8, self.ka as u8, self.dop as u8, self.cnt, self.conn as u8, self.neg, j(&self.outs), j(&self.app),
            match self.at { Some(t) => format!(" @{}", t), None => String::new() })
    }
    fn parse(s: &str) -> Option<Rec> {
        let w: Vec<&str> = s.split(' ').collect();
        if w.len() != 8 && w.len() != 9 { return None; }
        let at = if w.len() == 9 { Some(w[8].strip_prefix('@')?.parse().ok()?) } else { None };
        let st = STATE_NAMES.iter().position(|n| *n == w[0])? as u8;
        let t = w[2].as_bytes();
        if t.len() != 4 { return None; }
        let l = |x: &str| if x == "-" { vec![] } else { x.split(',').map(|y| y.to_string()).collect() };
        Some(Rec { st, ok: w[1] == "ok", crt: t[0] == b'1', hold: t[1] == b'1', ka: t[2] == b'1', dop: t[3] == b'1',
            cnt: w[3].parse().ok()?, conn: w[4] == "1", neg: w[5].to_string(), outs: l(w[6]), app: l(w[7]), at })
    }
}

fn fam_no(f: &AfiSafiType) -> u8 { match f { AfiSafiType::Ipv4Unicast => 4, AfiSafiType::Ipv6Unicast => 6, _ => 0 } }

/// `NegotiatedConfig` exposes only two getters; the rest is read off its Debug form.
fn show_neg(n: &routecore::bgp::fsm::session::NegotiatedConfig) -> String {
    let d = format!("{:?}", n);
    let hold = d.split("hold_time: ").nth(1).and_then(|r| r.split(',').next()).unwrap_or("?").to_string();
    let ap_part = d.split("addpath: [").nth(1).unwrap_or("");
    let mut ap = String::new();
    for item in ap_part.split("AddpathFamDir").skip(1) {
        let fam = if item.contains("Ipv4Unicast") { 4 } else if item.contains("Ipv6Unicast") { 6 } else { 0 };
        let dir = if item.contains("SendReceive") { 3 } else if item.contains("Send") { 2 } else if item.contains("Receive") { 1 } else { 0 };
        ap.push_str(&format!("{}{}", fam, dir));
    }
    let _ = fam_no;
    format!("h{}/as{}/ap{}", hold, n.remote_asn().into_u32(), if ap.is_empty() { "-".to_string() } else { ap })
}

/// `Session::tick()` under a wall-clock guard
async fn tick_guarded(s: &mut Session<VCfg>) -> Option<bool> {
    match tokio::time::timeout(std::time::Duration::from_secs(5), s.tick()).await { Ok(r) => Some(r.is_ok()), Err(_) => None }
}

impl Live {
    pub fn new(cfg: Cfg, init: Init) -> Live { Live::new_on(cfg, init, false) }

    pub fn new_on(cfg: Cfg, init: Init, real: bool) -> Live { Live::new_with(cfg, init, real, 0) }

    pub fn new_with(cfg: Cfg, init: Init, real: bool, n_spares: usize) -> Live {
        with_rt_of(real, |r| {
            r.rt.block_on(async {
                let mut spares = Vec::new();
                for _ in 0..n_spares {
                    let peer = crate::retry_io!(tokio::net::TcpStream::connect(r.addr).await);
                    let (sock, _) = crate::retry_io!(r.listener.accept().await);
                    let (rd, wr) = sock.into_split();
                    spares.push((rd, wr, peer));
                }
                let peer = crate::retry_io!(tokio::net::TcpStream::connect(r.addr).await);
                let (sock, _) = crate::retry_io!(r.listener.accept().await);
                let (rd, wr) = sock.into_split();
                let (app_tx, app_rx) = mpsc::channel(if real { APP_CAP } else { 256 });
                let (cmd_tx, cmd_rx) = mpsc::channel(16);
                let (pdu_tx, pdu_rx) = mpsc::channel(PDU_CAP);
                let mut s = Session::new(VCfg(cfg), rd, app_tx, cmd_rx, pdu_tx.clone());
                s.verif_attributes_mut().verif_set_flags(cfg.d, cfg.p, cfg.n);
                if init != FRESH {
                    s.verif_set_state(state_of(init.st));
                    s.verif_set_timers(init.crt, init.hold, init.ka, init.dop);
                    if !init.conn { let _ = s.verif_take_connection(); }
                }
                Live { s: Some(s), app: app_rx, pdus: pdu_rx, cmd: cmd_tx, _wr: wr, peer, old: Vec::new(), dead: false, real, side: Vec::new(), pdu_tx, room: PDU_CAP, hold_secs: cfg.h as u64, filled: 0,
                       base: tokio::time::Instant::now(), spares }
            })
        })
    }

    pub fn state(&self) -> u8 { self.s.as_ref().map(|s| state_no(s.state())).unwrap_or(0) }
    pub fn has_conn(&self) -> bool { self.s.as_ref().map(|s| s.verif_snapshot().has_connection).unwrap_or(false) }
    pub fn dop_running(&self) -> bool { self.s.as_ref().map(|s| s.verif_snapshot().delay_open_timer_running).unwrap_or(false) }

    /// what the step emitted and the state it left
    fn record(&mut self, ok: bool) -> Out {
        let mut outs = Vec::new();
        // the placeholders that occupied the queue during the step come out first
        for _ in 0..std::mem::take(&mut self.filled) { let _ = self.pdus.try_recv(); }
        while let Ok(p) = self.pdus.try_recv() {
            outs.push(match p {
                BgpMsg::Open(m) => format!("O{}", m.holdtime()),
                BgpMsg::Keepalive(_) => "K".to_string(),
                BgpMsg::Notification(m) => { let b: &[u8] = m.as_ref(); format!("N{}.{}", b[19], b[20]) }
                BgpMsg::Update(_) => "U".to_string(),
                BgpMsg::RouteRefresh(_) => "R".to_string(),
            });
        }
        let mut app = Vec::new();
        let mut msgs: Vec<Message> = std::mem::take(&mut self.side);
        while let Ok(m) = self.app.try_recv() { msgs.push(m); }
        for m in msgs {
            app.push(match m {
                Message::UpdateMessage(u) => format!("U{}", u.as_ref().len()),
                Message::NotificationMessage(n) => { let b: &[u8] = n.as_ref(); format!("N{}.{}", b[19], b[20]) }
                Message::Attributes(_) => "A".to_string(),
                Message::SessionNegotiated(n) => format!("G{}", show_neg(&n).replace('/', "_")),
                Message::ConnectionLost(_) => "L".to_string(),
            });
        }
        let s = self.s.as_ref().unwrap();
        let sn = s.verif_snapshot();
        Out::Rec(Rec {
            st: state_no(s.state()), ok, crt: sn.connect_retry_timer_running, hold: sn.hold_timer_running,
            ka: sn.keepalive_timer_running, dop: sn.delay_open_timer_running, cnt: sn.connect_retry_counter,
            conn: sn.has_connection, neg: s.negotiated().map(show_neg).unwrap_or_else(|| "-".into()), outs, app, at: None,
        })
    }

    pub fn step(&mut self, st: &Step) -> Out {
        if self.dead { return Out::Panic; }
        enum Act { Ev(Event), Msg(BgpMsg<Bytes>), Start, Conn, Wire(Vec<u8>), Close, Attach, Cmd(Command), Burst(Vec<u8>, u8), Timer, CloseMid, Wait(u8), Raw(Vec<u8>) }
        let act = match st {
            Step::Ev(k, o) => {
                let ev = match (*k, o) {
                    (0, _) => Event::ManualStart, (1, _) => Event::ManualStop, (2, _) => Event::AutomaticStart,
                    (3, _) => Event::ManualStartWithPassiveTcpEstablishment,
                    (4, _) => Event::AutomaticStartWithPassiveTcpEstablishment,
                    (5, _) => Event::ConnectRetryTimerExpires, (6, _) => Event::HoldTimerExpires,
                    (7, _) => Event::KeepaliveTimerExpires, (8, _) => Event::DelayOpenTimerExpires,
                    (9, _) => Event::TcpCrAcked, (10, _) => Event::TcpConnectionConfirmed, (11, _) => Event::TcpConnectionFails,
                    (13, _) => Event::BgpHeaderErr, (14, _) => Event::BgpOpenMsgErr, (15, _) => Event::NotifMsgVerErr,
                    (16, _) => Event::NotifMsg, (17, _) => Event::KeepaliveMsg, (18, _) => Event::UpdateMsg, (19, _) => Event::UpdateMsgErr,
                    (12, Some(o)) => match parse_open_msg(o) { Some(m) => Event::BgpOpen(m), None => return Out::Unparsable },
                    (20, Some(o)) => match parse_open_msg(o) { Some(m) => Event::BgpOpenWithDelayOpenTimerRunning(m), None => return Out::Unparsable },
                    _ => return Out::Unparsable,
                };
                Act::Ev(ev)
            }
            Step::MOpen(o) => match parse_msg(open_bytes(o)) { Some(m) => Act::Msg(m), None => return Out::Unparsable },
            Step::MKeep => match parse_msg(keepalive_bytes()) { Some(m) => Act::Msg(m), None => return Out::Unparsable },
            Step::MUpd(n) => match parse_msg(update_bytes(*n)) { Some(m) => Act::Msg(m), None => return Out::Unparsable },
            Step::MNotif(c, s) => match parse_msg(notif_bytes(*c, *s)) { Some(m) => Act::Msg(m), None => return Out::Unparsable },
            // Message::from_octets answers Unsupported for ROUTE-REFRESH; the handle_msg arm is reached
            // with a directly parsed RouteRefreshMessage
            Step::MRefresh => match routecore::bgp::message::routerefresh::RouteRefreshMessage::from_octets(Bytes::from(refresh_bytes())) {
                Ok(m) => Act::Msg(BgpMsg::RouteRefresh(m)), Err(_) => return Out::Unparsable },
            Step::AStart => Act::Start,
            Step::AConn => Act::Conn,
            Step::Attach => Act::Attach,
            Step::Room(n) => { self.room = *n as usize; return self.record(true); }
            Step::Timer => { if self.real { return Out::Unparsable; } Act::Timer }
            Step::Wait(d) => { if self.real { return Out::Unparsable; } Act::Wait(*d) }
            Step::Raw(b) => { if self.real { return Out::Unparsable; } Act::Raw(b.clone()) }
            Step::Wire(inner) => {
                if !self.has_conn() { return Out::NoConn; }
                Act::Wire(match &**inner {
                    Step::MOpen(o) => open_bytes(o), Step::MKeep => keepalive_bytes(), Step::MUpd(n) => update_bytes(*n),
                    Step::MNotif(c, s) => notif_bytes(*c, *s), Step::MRefresh => refresh_bytes(), _ => return Out::Unparsable })
            }
            Step::Close => { if !self.has_conn() { return Out::NoConn; } Act::Close }
            Step::ReadErr(mid) => {
                if !self.has_conn() { return Out::NoConn; }
                if *mid { Act::CloseMid } else { let mut b = header(5, 4); b.push(0); Act::Wire(b) }
            }
            Step::CmdDisconnect => Act::Cmd(Command::Disconnect(routecore::bgp::fsm::session::DisconnectReason::Shutdown)),
            Step::CmdDisconnectWith(c) => {
                use routecore::bgp::fsm::session::DisconnectReason as R;
                Act::Cmd(Command::Disconnect(match c { 'r' => R::ConnectionRejected, 'c' => R::Reconfiguration, 'd' => R::Deconfigured,
                    'h' => R::HoldTimerExpired, _ => R::Other }))
            }
            Step::CmdKeepalive => Act::Cmd(Command::ForcedKeepalive),
            Step::Burst(k, n) => {
                if !self.has_conn() { return Out::NoConn; }
                let mut b = Vec::new();
                for _ in 0..*k { b.extend(update_bytes(*n)); }
                Act::Burst(b, *k)
            }
        };
        if matches!(act, Act::Wire(_) | Act::Close | Act::CloseMid | Act::Cmd(_) | Act::Burst(..)) && !self.real { return Out::Unparsable; }
        // occupy all but `room` slots of the (empty) outgoing queue for the duration of the step
        if self.room < PDU_CAP {
            if let Some(ph) = parse_msg(keepalive_bytes()) {
                for _ in 0..(PDU_CAP - self.room) { if self.pdu_tx.try_send(ph.clone()).is_ok() { self.filled += 1; } }
            }
        }
        if matches!(act, Act::Attach) {
            let (rd, wr, peer) = if let Some(t) = self.spares.pop() { t } else { with_rt_of(self.real, |r| r.rt.block_on(async {
                let peer = crate::retry_io!(tokio::net::TcpStream::connect(r.addr).await);
                let (sock, _) = crate::retry_io!(r.listener.accept().await);
                let (rd, wr) = sock.into_split();
                (rd, wr, peer)
            })) };
            let old_wr = std::mem::replace(&mut self._wr, wr);
            let old_peer = std::mem::replace(&mut self.peer, peer);
            self.old.push((old_wr, old_peer));
            let _g = with_rt_of(self.real, |r| { let _e = r.rt.enter(); self.s.as_mut().unwrap().verif_attach_connection(rd); });
            return self.record(true);
        }
        let s = self.s.as_mut().unwrap();
        let peer = &mut self.peer;
        let cmd = &self.cmd;
        let (app, side) = (&mut self.app, &mut self.side);
        let special = std::cell::Cell::new(0u8);
        let hold_secs = self.hold_secs;
        let timed = matches!(act, Act::Timer | Act::Wait(_) | Act::Raw(_));
        let base = self.base;
        let r = with_rt_of(self.real, |r| catch_unwind(AssertUnwindSafe(|| r.rt.block_on(async {
            use tokio::io::AsyncWriteExt;
            match act {
                Act::Ev(e) => Some(s.verif_inject_event(e).await.is_ok()),
                Act::Msg(m) => Some(s.verif_handle_msg(m).await.is_ok()),
                Act::Start => { s.manual_start().await; Some(true) }
                Act::Conn => { s.connection_established().await; Some(true) }
                // the bytes go over the loopback socket; `tick()` reads, frames, parses and handles them
                Act::Wire(b) => { peer.write_all(&b).await.unwrap(); peer.flush().await.unwrap(); tick_guarded(s).await }
                Act::Close => { let _ = peer.shutdown().await; tick_guarded(s).await }
                Act::CloseMid => { peer.write_all(&[0xffu8; 10]).await.unwrap(); peer.flush().await.unwrap(); let _ = peer.shutdown().await; tick_guarded(s).await }
                // the command goes through the command channel; `tick()` takes it
                Act::Cmd(c) => { cmd.send(c).await.unwrap(); tick_guarded(s).await }
                // one tick per UPDATE; the application starts reading only after 20 ms, and reads until the
                // ticks are done
                Act::Burst(b, k) => {
                    peer.write_all(&b).await.unwrap(); peer.flush().await.unwrap();
                    let done = std::cell::Cell::new(false);
                    let ticks = async {
                        let mut res = Some(true);
                        for _ in 0..k {
                            res = tick_guarded(s).await;
                            if res != Some(true) || !s.verif_snapshot().has_connection { break; }
                        }
                        done.set(true);
                        res
                    };
                    let reader = async {
                        tokio::time::sleep(std::time::Duration::from_millis(20)).await;
                        loop {
                            tokio::select! {
                                m = app.recv() => match m { Some(m) => side.push(m), None => break },
                                _ = tokio::time::sleep(std::time::Duration::from_millis(2)) => if done.get() { break },
                            }
                        }
                    };
                    let (res, _) = tokio::join!(ticks, reader);
                    res
                }
                Act::Attach => unreachable!(),
                // nothing is pending for `tick()` but the session's timers.  The paused clock is advanced second by
                // second (every timer interval is a whole number of seconds) WITHOUT polling the session, until a
                // timer task has queued a tick: two at the same instant are a tie (`select!` would pick at random
                // and the first event may stop the other timer); exactly one: `tick()` takes it.
                Act::Timer => {
                    let sn = s.verif_snapshot();
                    let any = sn.keepalive_timer_running || sn.hold_timer_running || sn.delay_open_timer_running;
                    let limit = if any { hold_secs.max(10) + 2 } else { 0 };
                    for _ in 0..8 { tokio::task::yield_now().await; }
                    // a tick may be waiting already (it fell due while the session was not polled: `W`)
                    let mut pending = s.verif_timer_ticks_pending();
                    for _ in 0..limit {
                        if pending.iter().any(|p| *p) { break; }
                        tokio::time::sleep(std::time::Duration::from_secs(1)).await;
                        for _ in 0..8 { tokio::task::yield_now().await; }
                        pending = s.verif_timer_ticks_pending();
                        if pending.iter().any(|p| *p) { break; }
                    }
                    match pending.iter().filter(|p| **p).count() {
                        0 => { special.set(1); Some(true) }
                        1 => match tokio::time::timeout(std::time::Duration::from_millis(1), s.tick()).await {
                            Ok(r) => Some(r.is_ok()),
                            Err(_) => None,   // a tick is queued but `tick()` does not take it
                        },
                        _ => { special.set(2); Some(true) }
                    }
                }
                // the octets go to the socket; `tick()` is polled, with yields only (a yield lets the IO driver deliver the
                // readiness event and never moves the paused clock), until `read_frame` has appended them to the connection's
                // buffer and waits for more.  `tick()` returning means a timer tick was queued already: its event is handled.
                Act::Raw(b) => {
                    let _ = peer.write_all(&b).await; let _ = peer.flush().await;
                    for _ in 0..8 { tokio::task::yield_now().await; }
                    match s.verif_timer_ticks_pending().iter().filter(|p| **p).count() {
                        0 => tokio::select! { biased;
                            r = s.tick() => Some(r.is_ok()),
                            _ = async { for _ in 0..48 { tokio::task::yield_now().await; } } => Some(true),
                        },
                        1 => match tokio::time::timeout(std::time::Duration::from_millis(1), s.tick()).await { Ok(r) => Some(r.is_ok()), Err(_) => None },
                        _ => { special.set(2); Some(true) }
                    }
                }
                Act::Wait(d) => {
                    for _ in 0..8 { tokio::task::yield_now().await; }
                    for _ in 0..d {
                        tokio::time::sleep(std::time::Duration::from_secs(1)).await;
                        for _ in 0..8 { tokio::task::yield_now().await; }
                    }
                    Some(true)
                }
            }
        }))));
        match special.get() { 1 => { self.dead = true; return Out::Idle; } 2 => { self.dead = true; return Out::Tie; } _ => {} }
        let r = match r { Ok(None) => { self.dead = true; return Out::Hang; } Ok(Some(b)) => Ok(b), Err(p) => Err(p) };
        match r {
            Err(p) => {
                self.dead = true;
                let msg = if let Some(s) = p.downcast_ref::<&str>() { s.to_string() } else if let Some(s) = p.downcast_ref::<String>() { s.clone() } else { String::new() };
                if std::env::var_os("VERIF_DEBUG_PANIC").is_some() { eprintln!("panic payload: {}", msg); }
                if msg.contains("not yet implemented") { Out::Todo } else { Out::Panic }
            }
            Ok(ok) => {
                let at = if timed { Some(with_rt_of(self.real, |r| { let _e = r.rt.enter(); tokio::time::Instant::now().duration_since(base).as_secs() })) } else { None };
                match self.record(ok) { Out::Rec(mut r) => { r.at = at; Out::Rec(r) } o => o }
            }
        }
    }
}


/// how long `tick()` may stay pending before the session is ASKED whether it is idle (`s` lines); it counts as idle only
/// when, in addition, no octet is left unread in the kernel for its socket (`Live::unread`) - polled again otherwise,
/// up to `IDLE_POLLS` times: a stalled machine delays the verdict, it cannot make a chunk look idle before it was read
/// (audit r5 S8)
const IDLE_MS: u64 = 4;
const IDLE_POLLS: usize = 2500;
/// a run of an `s` line that took longer than this on the wall clock is repeated (the shortest timer of a session is the
/// KeepaliveTimer of a 3 s hold time: 1 s; a tick of it inside the run is no answer to the peer's octets)
const SLOW_RUN_MS: u128 = 600;

impl Live {
    fn peer_write(&mut self, b: &[u8]) {
        let peer = &mut self.peer;
        with_rt_of(self.real, |r| r.rt.block_on(async { use tokio::io::AsyncWriteExt; peer.write_all(b).await.unwrap(); peer.flush().await.unwrap(); }));
    }
    fn peer_close(&mut self) {
        let peer = &mut self.peer;
        with_rt_of(self.real, |r| r.rt.block_on(async { use tokio::io::AsyncWriteExt; let _ = peer.shutdown().await; }));
    }
    /// are there octets the peer wrote that the session has not read from the kernel yet?  (`_wr` is the write half of the
    /// session's own socket: a `peek` on it sees what `read_buf` will see; it consumes nothing)
    fn unread(&mut self) -> bool {
        let sock: &tokio::net::TcpStream = self._wr.as_ref();
        with_rt_of(self.real, |r| r.rt.block_on(async {
            let mut b = [0u8; 1];
            matches!(tokio::time::timeout(std::time::Duration::from_millis(0), sock.peek(&mut b)).await, Ok(Ok(n)) if n > 0)
        }))
    }
    /// one `Session::tick()`; `None` when it stays pending for `ms` milliseconds (the pending call is dropped)
    fn tick_idle(&mut self, ms: u64) -> Option<Out> {
        if self.dead { return Some(Out::Panic); }
        let s = self.s.as_mut().unwrap();
        let r = with_rt_of(self.real, |r| catch_unwind(AssertUnwindSafe(|| r.rt.block_on(async {
            match tokio::time::timeout(std::time::Duration::from_millis(ms), s.tick()).await { Ok(r) => Some(r.is_ok()), Err(_) => None }
        }))));
        match r {
            Ok(None) => None,
            Ok(Some(ok)) => Some(self.record(ok)),
            Err(p) => {
                self.dead = true;
                let msg = if let Some(s) = p.downcast_ref::<&str>() { s.to_string() } else if let Some(s) = p.downcast_ref::<String>() { s.clone() } else { String::new() };
                Some(if msg.contains("not yet implemented") { Out::Todo } else { Out::Panic })
            }
        }
    }
}

/// `s <cfg> <init> <stream> <lens> <c|->`
pub struct SessLine { cfg: Cfg, init: Init, stream: Vec<u8>, lens: Vec<usize>, close: bool }

pub fn parse_sess_line(line: &str) -> Option<SessLine> {
    let w: Vec<&str> = line.split(' ').collect();
    if w.len() != 6 || w[0] != "s" { return None; }
    let cfg = Cfg::parse(w[1])?;
    let init = Init::parse(w[2])?;
    let stream = unhex(w[3])?;
    if stream.is_empty() || stream.len() > 20000 { return None; }
    let mut lens = Vec::new();
    for x in w[4].split(',') { let n = parse_num(x, 20000)? as usize; if n == 0 { return None; } lens.push(n); }
    if lens.len() > 80 || lens.iter().sum::<usize>() != stream.len() { return None; }
    let close = match w[5] { "c" => true, "-" => false, _ => return None };
    Some(SessLine { cfg, init, stream, lens, close })
}

fn run_sess_once(l: &SessLine, lens: &[usize]) -> Vec<Out> {
    let mut live = Live::new_on(l.cfg, l.init, true);
    let mut v = Vec::new();
    let mut off = 0;
    let mut over = false;
    'chunks: for n in lens {
        if !live.has_conn() { over = true; break; }
        live.peer_write(&l.stream[off..off + n]);
        off += n;
        let mut polls = 0;
        let mut ticks = 0;
        while ticks < 400 {
            match live.tick_idle(IDLE_MS) {
                None => {
                    if polls < IDLE_POLLS && live.has_conn() && live.unread() { polls += 1; continue; }
                    continue 'chunks;
                }
                Some(o) => {
                    ticks += 1;
                    let stop = match &o { Out::Rec(r) => !r.ok || !r.conn, _ => true };
                    v.push(o);
                    if stop { over = true; break 'chunks; }
                }
            }
        }
        v.push(Out::Hang); over = true; break;
    }
    if l.close && !over && live.has_conn() {
        live.peer_close();
        match live.tick_idle(5000) { Some(o) => v.push(o), None => v.push(Out::Hang) }
    }
    v
}

/// `run_sess_once`, repeated (at most twice) when the machine was too slow for the run to be free of timer ticks
fn run_sess_steady(l: &SessLine, lens: &[usize]) -> Vec<Out> {
    let mut v = Vec::new();
    for _ in 0..3 {
        let t0 = std::time::Instant::now();
        v = run_sess_once(l, lens);
        if t0.elapsed().as_millis() < SLOW_RUN_MS || v.iter().any(|o| matches!(o, Out::Hang)) { break; }
    }
    v
}

pub fn run_sess(l: &SessLine) -> String {
    let chunked = run_sess_steady(l, &l.lens);
    let same = l.lens.len() == 1 || run_sess_steady(l, &[l.stream.len()]) == chunked;
    format!("{} ## same={}", if chunked.is_empty() { "-".to_string() } else { show_outs(&chunked) }, same as u8)
}

/// the frames of a stream (RFC 4271 4.1: the length field says where the next one begins) as the steps of an equivalent
/// `t` line, for the oracle; `None` when a frame is not one of the PDUs this harness writes (the oracle then judges
/// `same=1` and the absence of panics / hangs only)
fn steps_of_stream(l: &SessLine) -> Option<Vec<Step>> {
    let s = &l.stream;
    let mut o = 0;
    let mut steps = Vec::new();
    while o < s.len() {
        if s.len() - o < 19 { return None; }
        let len = u16::from_be_bytes([s[o + 16], s[o + 17]]) as usize;
        let malformed = { let mut b = header(5, 4); b.push(0); b };
        if s[o..].starts_with(&malformed) { steps.push(Step::ReadErr(false)); break; }   // nothing after it is ever handled
        if len < 19 || s.len() - o < len { return None; }
        let f = &s[o..o + len];
        let st = match f[18] {
            1 => Step::MOpen(open_of_bytes(f)?),
            2 => { if (len - 23) % 4 != 0 || len > 23 + 4 * 200 { return None; } let n = ((len - 23) / 4) as u8; if update_bytes(n) != f { return None; } Step::MUpd(n) }
            3 => { if len != 21 || notif_bytes(f[19], f[20]) != f { return None; } Step::MNotif(f[19], f[20]) }
            4 => { if keepalive_bytes() != f { return None; } Step::MKeep }
            5 => { if refresh_bytes() != f { return None; } Step::MRefresh }
            _ => return None,
        };
        steps.push(Step::Wire(Box::new(st)));
        o += len;
    }
    // once ADD-PATH is negotiated (local configuration `a1` and an OPEN that carries the capability) the NLRI of the UPDATEs
    // this harness writes (no path identifiers) mean something else, or nothing: their fate is not judged
    let has_ap_open = steps.iter().any(|s| matches!(s, Step::Wire(b) if matches!(&**b, Step::MOpen(o) if !o.ap.is_empty())));
    let has_update = steps.iter().any(|s| matches!(s, Step::Wire(b) if matches!(&**b, Step::MUpd(_))));
    if l.cfg.a && has_ap_open && has_update { return None; }
    if l.close { steps.push(Step::Close); }
    Some(steps)
}

/// inverse of `open_bytes` (checked by encoding the result again)
fn open_of_bytes(f: &[u8]) -> Option<OpenP> {
    if f.len() < 29 { return None; }
    let field = u16::from_be_bytes([f[20], f[21]]);
    let hold = u16::from_be_bytes([f[22], f[23]]);
    let mut p = 29;
    let (mut as4, mut ap): (Option<u32>, Vec<(u8, u8)>) = (None, vec![]);
    while p + 4 <= f.len() {
        let (code, cl) = (f[p + 2], f[p + 3] as usize);
        let v = f.get(p + 4..p + 4 + cl)?;
        match code {
            65 if cl == 4 => as4 = Some(u32::from_be_bytes([v[0], v[1], v[2], v[3]])),
            69 => for c in v.chunks(4) { if c.len() == 4 { ap.push((if c[1] == 1 { 4 } else { 6 }, c[3])); } },
            _ => {}
        }
        p += 4 + cl;
    }
    let cands = match as4 {
        None => vec![OpenP { asn: field as u32, hold, ap: ap.clone(), field: None }],
        Some(a) => vec![OpenP { asn: a, hold, ap: ap.clone(), field: None }, OpenP { asn: a, hold, ap: ap.clone(), field: Some(field) }],
    };
    cands.into_iter().find(|o| o.ap.iter().all(|(_, d)| *d <= 3) && open_bytes(o) == f)
}

impl Drop for Live {
    fn drop(&mut self) {
        // timers and sockets are released inside the runtime context
        let s = self.s.take();
        with_rt_of(self.real, |r| { let _g = r.rt.enter(); drop(s); });
    }
}

fn parse_tick_step(t: &str) -> Option<Step> {
    if t == "c" { return Some(Step::Close); }
    if t == "cM" { return Some(Step::ReadErr(true)); }
    if t == "wX" { return Some(Step::ReadErr(false)); }
    if t == "cD" { return Some(Step::CmdDisconnect); }
    for c in ['r', 'c', 'd', 'h', 'o'] { if t == format!("cD{}", c) { return Some(Step::CmdDisconnectWith(c)); } }
    if t == "cK" { return Some(Step::CmdKeepalive); }
    if let Some(rest) = t.strip_prefix("bU:") {
        let p: Vec<&str> = rest.split(':').collect();
        if p.len() != 2 { return None; }
        let k = parse_num(p[0], 12)? as u8;
        if k < 2 { return None; }
        return Some(Step::Burst(k, parse_num(p[1], 200)? as u8));
    }
    if t == "T" || t.starts_with('W') || t.starts_with("pB") { return None; }   // timers fire through tick() on the paused clock of the `h` lines only
    if let Some(rest) = t.strip_prefix('w') {
        return Some(Step::Wire(Box::new(Step::parse(&format!("m{}", rest))?)));   // `wR`: deliverable since the repair of K13
    }
    Step::parse(t)
}

/// `t <cfg> <step>...`: a fresh session driven through `Session::tick()` over the socket
pub fn parse_tick_line(line: &str) -> Option<(Cfg, Vec<Step>)> {
    let w: Vec<&str> = line.split(' ').collect();
    if w.len() < 3 || w[0] != "t" { return None; }
    let cfg = Cfg::parse(w[1])?;
    let mut steps = Vec::new();
    for t in &w[2..] { steps.push(parse_tick_step(t)?); }
    Some((cfg, steps))
}

fn show_tick_line(cfg: &Cfg, steps: &[Step]) -> String {
    format!("t {} {}", cfg.show(), steps.iter().map(|s| s.show()).collect::<Vec<_>>().join(" "))
}

pub fn run_tick(cfg: Cfg, steps: &[Step]) -> Vec<Out> {
    let mut l = Live::new_on(cfg, FRESH, true);
    let mut v = Vec::new();
    for st in steps {
        let o = l.step(st);
        let stop = !matches!(o, Out::Rec(_));
        v.push(o);
        if stop { break; }
    }
    v
}

pub fn parse_line(line: &str) -> Option<(Cfg, Init, Vec<Step>)> {
    let w: Vec<&str> = line.split(' ').collect();
    if w.len() < 4 || w[0] != "h" { return None; }
    let cfg = Cfg::parse(w[1])?;
    let init = Init::parse(w[2])?;
    let mut steps = Vec::new();
    for t in &w[3..] { steps.push(Step::parse(t)?); }
    // (lines on which the hold timer is reset while two of its ticks are outstanding are refused after the run: `exec`,
    // `reset_with_two_ticks`)
    // raw octets never make `parse_frame` decide: after every `pB` the octets written so far are fewer than 18, or carry a
    // length field >= 19 that announces more than is there; with a second connection on the line at most 17 in all; <= 5 steps
    let mut acc: Vec<u8> = vec![];
    let reconnect = steps.iter().any(|s| *s == Step::Attach);
    let mut n_raw = 0;
    for st in &steps {
        if let Step::Raw(b) = st {
            acc.extend_from_slice(b); n_raw += 1;
            let undecided = acc.len() < 18 || { let l = u16::from_be_bytes([acc[16], acc[17]]) as usize; l >= 19 && acc.len() < l };
            if !undecided || n_raw > 5 || (reconnect && acc.len() > 17) { return None; }
        }
    }
    Some((cfg, init, steps))
}

/// The one situation in which the session's hold timer leaves the precondition of property C20 in a way that the timed
/// `h` lines cannot express: `hold_timer.reset()` (KEEPALIVE in OpenConfirm / Established, UPDATE in Established) at a moment
/// when TWO hold times or more have passed since the timer was last armed (started when the OPEN was accepted - or at time
/// 0 for a forced initial state -, or reset).  Two of its ticks are outstanding then: one in the timer's channel, which
/// `reset()` discards, one in the timer task's blocked `send`, which completes right after and is handed out by the next
/// `tick()` - a HoldTimer_Expires immediately after the peer was heard.  The model's clock has no such tick; such a line
/// is `bad-op` on both sides (the driver decides it from the model's hold deadline, `Rc.Fsm.staleInput`; this function
/// from the arming instants it books itself from the records: states, running flags and the ` @<s>` of the timed steps).
/// A hold tick that is taken in OpenConfirm / Established ends the session (the timer is stopped), so inside these two
/// states "armed" is always the last start / reset.
fn reset_with_two_ticks(cfg: &Cfg, init: &Init, steps: &[Step], outs: &[Out]) -> bool {
    if cfg.h == 0 { return false; }
    let h = cfg.h as u64;
    let (mut now, mut st, mut dop, mut running) = (0u64, init.st, init.dop, init.hold);
    let mut armed: Option<u64> = if init.hold { Some(0) } else { None };
    for (step, out) in steps.iter().zip(outs.iter()) {
        let r = match out { Out::Rec(r) => r, _ => return false };
        let ev = rfc_event(step, dop, cfg.p);
        let resets = running && ((matches!(st, 5 | 6) && ev == Some(26)) || (st == 6 && ev == Some(27)));
        if resets {
            if let Some(a) = armed { if now >= a + 2 * h { return true; } }
            armed = Some(now);
        }
        if let Some(t) = r.at { now = t; }
        // `start()`: the timer begins to run, or an OPEN is accepted while it runs already (second connection)
        if r.hold && (!running || (r.st == 5 && st != 5)) { armed = Some(now); }
        if !r.hold { armed = None; }
        st = r.st; dop = r.dop; running = r.hold;
    }
    false
}

fn show_line(cfg: &Cfg, init: &Init, steps: &[Step]) -> String {
    format!("h {} {} {}", cfg.show(), init.show(), steps.iter().map(|s| s.show()).collect::<Vec<_>>().join(" "))
}

pub fn run(cfg: Cfg, init: Init, steps: &[Step]) -> Vec<Out> {
    // attaching a stream waits for the socket, and the paused clock could jump meanwhile: lines that let time pass
    // get their streams before the session exists
    let timed = steps.iter().any(|s| matches!(s, Step::Timer | Step::Wait(_) | Step::Raw(_)));
    let n_spares = if timed { steps.iter().filter(|s| **s == Step::Attach).count() } else { 0 };
    let mut l = Live::new_with(cfg, init, false, n_spares);
    let mut v = Vec::new();
    for st in steps {
        let o = l.step(st);
        let stop = !matches!(o, Out::Rec(_));
        v.push(o);
        if stop { break; }
    }
    v
}

fn show_outs(v: &[Out]) -> String {
    v.iter().map(|o| match o { Out::Rec(r) => r.show(), Out::Todo => "todo".into(), Out::Panic => "panic".into(), Out::Unparsable => "unparsable".into(),
        Out::NoConn => "noconn".into(), Out::Hang => "hang".into(), Out::Idle => "idle".into(), Out::Tie => "tie".into() })
        .collect::<Vec<_>>().join(" ; ")
}

fn parse_outs(s: &str) -> Option<Vec<Out>> {
    s.split(" ; ").map(|p| match p { "todo" => Some(Out::Todo), "panic" => Some(Out::Panic), "unparsable" => Some(Out::Unparsable), "noconn" => Some(Out::NoConn), "hang" => Some(Out::Hang), "idle" => Some(Out::Idle), "tie" => Some(Out::Tie),
        _ => Rec::parse(p).map(Out::Rec) }).collect()
}

// ---- the RFC 4271 section 8.2.2 table, transcribed for the oracle (independent of the Lean text) ----

/// an OPEN is acceptable when it comes from a configured AS and its capabilities parse
fn open_ok(o: &OpenP) -> bool { ALLOWED_ASNS.contains(&o.asn) && o.ap.iter().all(|(_, d)| (1..=3).contains(d)) }

/// Which RFC event a step is, given whether the DelayOpenTimer runs when it is processed.
/// `None`: the step is not an FSM event (ROUTE-REFRESH).
fn rfc_event(st: &Step, dop: bool, passive: bool) -> Option<u8> {
    Some(match st {
        Step::Ev(k, o) => match *k {
            0 => 1, 1 => 2, 2 => 3, 3 => 4, 4 => 5, 5 => 9, 6 => 10, 7 => 11, 8 => 12, 9 => 16, 10 => 17, 11 => 18,
            12 => if open_ok(o.as_ref().unwrap()) { 19 } else { 22 },
            13 => 21, 14 => 22, 15 => 24, 16 => 25, 17 => 26, 18 => 27, 19 => 28,
            _ => if open_ok(o.as_ref().unwrap()) { 20 } else { 22 },
        },
        Step::MOpen(o) => if !open_ok(o) { 22 } else if dop { 20 } else { 19 },
        Step::MKeep => 26,
        Step::MUpd(_) => 27,
        Step::MNotif(c, s) => if *c == 2 && *s == 1 { 24 } else { 25 },
        Step::MRefresh | Step::Attach | Step::Room(_) | Step::Timer | Step::Wait(_) | Step::Raw(_) => return None,   // Timer: judged separately
        Step::AStart => if passive { 4 } else { 1 },
        Step::AConn => 17,
        Step::Wire(inner) => return rfc_event(inner, dop, passive),
        // the peer closing the connection is TcpConnectionFails
        Step::Close => 18,
        // the peer closing in the middle of a frame is TcpConnectionFails; a malformed frame (BGPHeaderErr, Event 21) is not
        // among the events the property lists (start/stop, timers, TCP events, received OPEN / KEEPALIVE / UPDATE /
        // NOTIFICATION): the oracle abstains on that step (the model still mirrors it)
        Step::ReadErr(mid) => if *mid { 18 } else { return None },
        // the application's stop command is ManualStop
        Step::CmdDisconnect => 2,
        // ... also when it names another administrative reason (Cease with another subcode); a stop that names
        // HoldTimerExpired (NOTIFICATION 4/0) or no reason at all (`Other`: the code sends nothing) is not the RFC's
        // ManualStop: the oracle abstains, the model mirrors the code
        Step::CmdDisconnectWith(c) => if matches!(c, 'r' | 'c' | 'd') { 2 } else { return None },
        Step::CmdKeepalive => return None,
        Step::Burst(..) => 27,
    })
}

/// next state per RFC 4271 8.2.2; `None` = the RFC leaves it to collision handling / optional
/// attributes the implementation does not have (those arms are `todo!()` or absent).
fn rfc_next(s: u8, ev: u8, delay_open: bool, dop_running: bool) -> Option<u8> {
    const IDLE: u8 = 1; const CONNECT: u8 = 2; const ACTIVE: u8 = 3; const OPENSENT: u8 = 4; const OPENCONFIRM: u8 = 5; const ESTABLISHED: u8 = 6;
    let start = matches!(ev, 1 | 3 | 4 | 5 | 6 | 7);
    Some(match s {
        IDLE => match ev { 1 | 3 => CONNECT, 4 | 5 => ACTIVE, _ => IDLE },
        CONNECT => match ev {
            _ if start => CONNECT,
            2 => IDLE,
            9 => CONNECT,
            12 => OPENSENT,
            14 | 15 => CONNECT,
            16 | 17 => if delay_open { CONNECT } else { OPENSENT },
            18 => if dop_running { ACTIVE } else { IDLE },
            20 => OPENCONFIRM,
            21 | 22 => IDLE,
            24 => IDLE,
            _ => IDLE,
        },
        ACTIVE => match ev {
            _ if start => ACTIVE,
            2 => IDLE,
            9 => CONNECT,
            12 => OPENSENT,
            14 | 15 => ACTIVE,
            16 | 17 => if delay_open { ACTIVE } else { OPENSENT },
            18 => IDLE,
            20 => OPENCONFIRM,
            21 | 22 => IDLE,
            24 => IDLE,
            _ => IDLE,
        },
        OPENSENT => match ev {
            _ if start => OPENSENT,
            2 | 8 | 10 => IDLE,
            14 | 16 | 17 => OPENSENT,
            15 => OPENSENT,
            18 => ACTIVE,
            19 => OPENCONFIRM,
            21 | 22 | 23 | 24 => IDLE,
            _ => IDLE,
        },
        OPENCONFIRM => match ev {
            _ if start => OPENCONFIRM,
            2 | 8 | 10 => IDLE,
            11 => OPENCONFIRM,
            14 | 16 | 17 => OPENCONFIRM,
            15 => OPENCONFIRM,
            18 | 25 | 24 => IDLE,
            19 => IDLE, // collision detection: the only next state the RFC names for Event 19 here
            21 | 22 | 23 => IDLE,
            26 => ESTABLISHED,
            _ => IDLE,
        },
        _ => match ev {
            _ if start => ESTABLISHED,
            2 | 8 | 10 => IDLE,
            11 => ESTABLISHED,
            14 | 15 | 16 | 17 => ESTABLISHED,
            19 => IDLE, // collision detection, as above
            23 | 24 | 25 | 18 => IDLE,
            26 | 27 => ESTABLISHED,
            28 => IDLE,
            _ => IDLE,
        },
    })
}

/// the NOTIFICATION (code, optional subcode) the RFC names for this (state, event) in the three
/// states after the OPEN was sent: forbidden event, hold-timer expiry, manual stop.
fn rfc_notif(s: u8, ev: u8) -> Option<(u8, Option<u8>)> {
    if !(4..=6).contains(&s) { return None; }
    if ev == 2 { return Some((6, None)); }
    if ev == 10 { return Some((4, None)); }
    let forbidden = match s {
        4 => matches!(ev, 9 | 11 | 12 | 13 | 20 | 25 | 26 | 27 | 28),
        5 => matches!(ev, 9 | 12 | 13 | 20 | 27 | 28),
        _ => matches!(ev, 9 | 12 | 13 | 20 | 21 | 22),
    };
    if forbidden { Some((5, Some(s - 3))) } else { None }
}

// ---- which arms are `todo!()`: used by the generator only (to keep histories alive) ----
fn gen_is_todo(s: u8, k: u8, dop: bool, n: bool, x: bool) -> bool {
    match (s, k) {
        (1, 0) | (1, 2) => true,
        (2, 5) | (2, 13) | (2, 14) => true,
        (2, 11) => dop,
        (3, 5) => x,
        (3, 13) | (3, 14) => n,
        (4, 9) | (4, 10) | (5, 9) | (5, 10) | (6, 9) | (6, 10) => true,
        _ => false,
    }
}

const OK_OPEN: fn() -> OpenP = || OpenP { asn: 65001, hold: 90, ap: vec![], field: None };
const BAD_OPEN: fn() -> OpenP = || OpenP { asn: 65002, hold: 90, ap: vec![], field: None };

fn alphabet(malformed_ap: bool) -> Vec<Step> {
    let mut v: Vec<Step> = Vec::new();
    for k in 0..=20u8 {
        if k == 12 || k == 20 {
            v.push(Step::Ev(k, Some(OK_OPEN())));
            v.push(Step::Ev(k, Some(BAD_OPEN())));
        } else {
            v.push(Step::Ev(k, None));
        }
    }
    v.push(Step::MOpen(OK_OPEN()));
    v.push(Step::MOpen(BAD_OPEN()));
    v.push(Step::MKeep);
    v.push(Step::MUpd(1));
    v.push(Step::MNotif(6, 2));
    v.push(Step::MNotif(2, 1));
    v.push(Step::MRefresh);
    v.push(Step::AStart);
    v.push(Step::AConn);
    v.push(Step::Attach);
    if malformed_ap {
        // every (AS allowed, ADD-PATH converts) combination of both OPEN events: the model's table has all four
        v.push(Step::Ev(12, Some(OpenP { asn: 65001, hold: 90, ap: vec![(4, 0)], field: None })));
        v.push(Step::Ev(12, Some(OpenP { asn: 65002, hold: 90, ap: vec![(4, 0)], field: None })));
        v.push(Step::Ev(20, Some(OpenP { asn: 65001, hold: 90, ap: vec![(6, 0)], field: None })));
        v.push(Step::Ev(20, Some(OpenP { asn: 65002, hold: 90, ap: vec![(4, 3), (4, 0)], field: None })));
        v.push(Step::MOpen(OpenP { asn: 65001, hold: 90, ap: vec![(4, 3), (6, 0)], field: None }));
        v.push(Step::MOpen(OpenP { asn: 65002, hold: 90, ap: vec![(6, 0)], field: None }));
    }
    v
}

fn random_open(rng: &mut Rng, malformed_ap: bool) -> OpenP {
    let asn = match rng.below(10) { 0 => 65002, 1 => 4_200_000_001, 2 => 4_200_000_002, 3 => 23456, _ => 65001 };
    let hold = *rng.pick(&[0u16, 3, 30, 90, 90, 90, 180, 65535, 4, 89, 91]);
    let mut ap = Vec::new();
    if rng.chance(1, 2) {
        for _ in 0..rng.usize(1, 3) {
            let d = if malformed_ap && rng.chance(1, 12) { 0u8 } else { rng.range(1, 3) as u8 };
            ap.push((if rng.bool() { 4 } else { 6 }, d));
        }
    }
    // one in six: the two widths of the AS number disagree (capability = asn, field = another plausible value)
    let field = if rng.chance(1, 6) { Some(*rng.pick(&[65001u16, 65002, 23456, 64999, 0])) } else { None };
    OpenP { asn, hold, ap, field }
}

fn step_kind(st: &Step, dop: bool) -> u8 {
    match st { Step::Ev(k, _) => *k, Step::MOpen(_) => if dop { 20 } else { 12 }, Step::MKeep => 17, Step::MUpd(_) | Step::Burst(..) => 18,
        Step::MNotif(2, 1) => 15, Step::MNotif(..) => 16, Step::MRefresh | Step::Attach | Step::Room(_) | Step::Timer | Step::Wait(_) | Step::Raw(_) => 255, Step::AStart => 3, Step::AConn => 10,
        Step::Wire(inner) => step_kind(inner, dop), Step::Close | Step::ReadErr(true) => 11, Step::ReadErr(false) => 13, Step::CmdDisconnect | Step::CmdDisconnectWith(_) => 1, Step::CmdKeepalive => 255 }
}

impl Prop for C08 {
    fn gen(&self, rng: &mut Rng, tier: Tier) -> Vec<String> {
        // the generator runs the implementation (breadth-first search, live random histories)
        silence_panics();
        let mut v = Vec::new();
        // can an OPEN whose ADD-PATH capability carries an undefined direction reach the FSM at all?
        let malformed_ap = parse_open_msg(&OpenP { asn: 65001, hold: 90, ap: vec![(4, 0)], field: None }).is_some();
        let alpha = alphabet(malformed_ap);
        // (1) exhaustive: every (configuration flags, state, timer/connection context, event)
        for f in 0..16u8 {
            let cfg = Cfg { d: f & 1 != 0, n: f & 2 != 0, p: f & 4 != 0, x: f & 8 != 0, a: false, h: 90 };
            for st in 1..=6u8 {
                for ctx in 0..8u8 {
                    let o = ctx & 4 != 0;
                    let init = Init { st, crt: o, hold: o, ka: o, dop: ctx & 1 != 0, conn: ctx & 2 != 0 };
                    for s in &alpha { v.push(show_line(&cfg, &init, std::slice::from_ref(s))); }
                }
            }
        }
        // (1b) the same steps with no / one free slot in the application's outgoing PDU queue (send_pdu = try_send)
        for f in [2u8, 3] {
            let cfg = Cfg { d: f & 1 != 0, n: f & 2 != 0, p: true, x: true, a: false, h: 90 };
            for st in 2..=6u8 { for room in [0u8, 1] { for dop in [false, true] {
                if dop && st > 3 { continue; }
                let init = Init { st, crt: false, hold: st >= 5, ka: st >= 5, dop, conn: true };
                for s in &alpha { v.push(show_line(&cfg, &init, &[Step::Room(room), s.clone()])); }
            } } }
        }
        // (1c) the timer branches of Session::tick on the paused clock: every state x every combination of really started
        //      hold / keepalive / delay-open timers (with ONE timer running the event is determined: the oracle demands
        //      exactly its RFC row), local hold times with and without ties / zero intervals
        for d in [false, true] { for h in [90u16, 10, 9, 4, 2, 0] {
            let cfg = Cfg { d, n: true, p: true, x: true, a: false, h };
            for st in 1..=6u8 { for t in 1..8u8 {
                if h != 90 && h != 10 && !matches!(t, 1 | 2 | 3) { continue; }
                let init = Init { st, crt: false, hold: t & 1 != 0, ka: t & 2 != 0, dop: t & 4 != 0, conn: true };
                v.push(show_line(&cfg, &init, &[Step::Timer]));
                if h == 10 || t == 2 { v.push(show_line(&cfg, &init, &[Step::Timer, Step::Timer, Step::Timer, Step::Timer, Step::Timer])); }
            } }
        } }
        // ... and on sessions that started their timers themselves: up to Established, then time passes, KEEPALIVEs /
        // UPDATEs arrive (hold timer reset) or not (hold timer expiry)
        for i in 0..(if tier == Tier::Thorough { 4000 } else { 160 }) {
            let cfg = Cfg { d: i % 4 == 3, n: true, p: true, x: true, a: false, h: *rng.pick(&[10u16, 10, 4, 7, 13, 31, 90, 9, 3]) };
            let mut steps = vec![Step::AStart, Step::AConn];
            if cfg.d && rng.bool() { steps.push(Step::Timer); }
            steps.push(Step::MOpen(OpenP { asn: 65001, hold: *rng.pick(&[90u16, 10, 3, 0, 30]), ap: vec![], field: None }));
            if rng.chance(4, 5) { steps.push(Step::MKeep); }
            for _ in 0..rng.usize(1, 14) {
                steps.push(match rng.below(10) { 0 => Step::MKeep, 1 => Step::MUpd(1), 2 => Step::Ev(17, None), 3 => if rng.bool() { Step::Ev(7, None) } else { Step::AStart }, _ => Step::Timer });
            }
            v.push(show_line(&cfg, &FRESH, &steps));
        }
        // ... and on the SECOND connection of a session: established, part of the hold time passes un-polled (`W`), the
        // peer ends the connection (NOTIFICATION / TcpConnectionFails: hold and keepalive timers are left running), a new
        // stream is attached and a new OPEN accepted (`start()` on running timers must re-arm them), then time passes
        for i in 0..(if tier == Tier::Thorough { 2000 } else { 120 }) {
            let h = *rng.pick(&[10u16, 10, 9, 12, 30, 90, 4]);
            let cfg = Cfg { d: false, n: true, p: true, x: true, a: false, h };
            let peer_hold = *rng.pick(&[90u16, 90, h, 30, 0]);
            let open = Step::MOpen(OpenP { asn: 65001, hold: peer_hold, ap: vec![], field: None });
            let mut steps = vec![Step::AStart, Step::AConn, open.clone()];
            if rng.chance(4, 5) { steps.push(Step::MKeep); }
            for _ in 0..rng.usize(0, 3) { steps.push(if rng.bool() { Step::Timer } else { Step::MUpd(1) }); }
            let w = rng.range(1, (h as u64 * 2 - 1).min(60)) as u8;
            if i % 8 != 7 { steps.push(Step::Wait(w)); }
            steps.push(match rng.below(3) { 0 => Step::MNotif(6, 2), 1 => Step::Ev(11, None), _ => Step::MNotif(6, 4) });
            steps.extend([Step::Attach, Step::AStart, Step::AConn, open.clone()]);
            if rng.bool() { steps.push(Step::MKeep); }
            for _ in 0..rng.usize(2, 8) { steps.push(match rng.below(8) { 0 => Step::MKeep, 1 => Step::MUpd(1), _ => Step::Timer }); }
            v.push(show_line(&cfg, &FRESH, &steps));
        }
        // ... time passing between the messages: `W` everywhere in an established session
        for _ in 0..(if tier == Tier::Thorough { 2000 } else { 120 }) {
            let h = *rng.pick(&[10u16, 9, 12, 30, 90, 3, 6, 0]);
            let cfg = Cfg { d: false, n: true, p: true, x: true, a: false, h };
            let mut steps = vec![Step::AStart, Step::AConn, Step::MOpen(OpenP { asn: 65001, hold: *rng.pick(&[90u16, 10, 3, 0]), ap: vec![], field: None }), Step::MKeep];
            let mut budget = if h == 0 { 40 } else { (h as u64 * 2 - 1).min(60) };
            for _ in 0..rng.usize(2, 12) {
                steps.push(match rng.below(6) {
                    0 => Step::MKeep, 1 => Step::MUpd(1),
                    2 | 3 if budget > 0 => { let w = rng.range(1, budget.min(h.max(3) as u64)); budget -= w; Step::Wait(w as u8) }
                    _ => Step::Timer });
            }
            v.push(show_line(&cfg, &FRESH, &steps));
        }
        // OPEN contents: AS numbers, hold times, ADD-PATH capabilities, in the states that read them
        for a in [false, true] { for h in [0u16, 3, 90, 65535] {
            let cfg = Cfg { d: true, n: true, p: true, x: false, a, h };
            for (st, k, dop) in [(4u8, 12u8, false), (3, 20, true)] {
                let init = Init { st, crt: true, hold: false, ka: false, dop, conn: true };
                for asn in [0u32, 65001, 65002, 23456, 4_200_000_001, 4_200_000_002, u32::MAX] {
                    for hold in [0u16, 1, 2, 3, 89, 90, 91, 65535] {
                        for ap in [vec![], vec![(4u8, 1u8)], vec![(4, 2)], vec![(4, 3)], vec![(6, 3)], vec![(6, 2), (4, 3)], vec![(4, 3), (4, 2)]] {
                            let o = OpenP { asn, hold, ap, field: None };
                            v.push(show_line(&cfg, &init, &[Step::Ev(k, Some(o.clone()))]));
                            if asn == 65001 { v.push(show_line(&cfg, &init, &[Step::MOpen(o)])); }
                        }
                    }
                }
            }
        } }
        // the two widths of the peer's AS number disagree (RFC 6793: the four-octet capability says who the peer is):
        // exactly one of capability / two-octet field is an allowed AS, in the arms that check the AS, and up to Established
        for d in [false, true] {
            let cfg = Cfg { d, n: true, p: true, x: true, a: false, h: 90 };
            for (asn, field) in [(65001u32, 65002u16), (65002, 65001), (4_200_000_001, 65002), (4_200_000_001, 23456), (4_200_000_002, 65001),
                                 (4_200_000_002, 23456), (65001, 23456), (65002, 23456), (65001, 65001), (65002, 65002), (65001, 0), (70000, 65001)] {
                let o = OpenP { asn, hold: 90, ap: vec![], field: Some(field) };
                for (st, k, dop) in [(4u8, 12u8, false), (3, 20, true), (2, 20, true)] {
                    let init = Init { st, crt: true, hold: false, ka: false, dop, conn: true };
                    v.push(show_line(&cfg, &init, &[Step::Ev(k, Some(o.clone()))]));
                    v.push(show_line(&cfg, &init, &[Step::MOpen(o.clone()), Step::MKeep]));
                }
                v.push(show_line(&cfg, &FRESH, &[Step::AStart, Step::AConn, Step::MOpen(o.clone()), Step::MKeep, Step::MUpd(1)]));
                v.push(show_tick_line(&cfg, &[Step::AStart, Step::AConn, Step::Wire(Box::new(Step::MOpen(o.clone()))), Step::Wire(Box::new(Step::MKeep))]));
            }
        }
        // (2) breadth-first over the abstract session state, every event from every state found
        let depth = if tier == Tier::Thorough { 6 } else { 4 };
        for f in 0..8u8 {
            let cfg = Cfg { d: f & 1 != 0, n: f & 2 != 0, p: true, x: f & 4 != 0, a: true, h: 90 };
            let mut seen: BTreeSet<Rec> = BTreeSet::new();
            let mut q: VecDeque<Vec<Step>> = VecDeque::new();
            q.push_back(vec![]);
            while let Some(hist) = q.pop_front() {
                for s in &alpha {
                    let mut h2 = hist.clone();
                    h2.push(s.clone());
                    v.push(show_line(&cfg, &FRESH, &h2));
                    if h2.len() >= depth { continue; }
                    let outs = run(cfg, FRESH, &h2);
                    if outs.len() == h2.len() {
                        if let Some(Out::Rec(r)) = outs.last() {
                            // abstract state: everything but what this very step emitted
                            let mut key = r.clone();
                            key.outs.clear(); key.app.clear(); key.ok = true;
                            key.cnt = key.cnt.min(2);
                            if seen.insert(key) { q.push_back(h2); }
                        }
                    }
                }
            }
        }
        // (3) long random histories, generated against the live session so that they stay on handled arms
        let n_hist = if tier == Tier::Thorough { 200_000 } else { 2_000 };
        for _ in 0..n_hist {
            let cfg = Cfg { d: rng.chance(1, 3), n: rng.bool(), p: rng.chance(3, 4), x: rng.chance(1, 4), a: rng.bool(),
                h: *rng.pick(&[90u16, 90, 0, 3, 180, 65535]) };
            let len = rng.usize(1, 60);
            // a quarter of the histories let time pass (`T`: a timer fires through tick()); those never re-attach a stream
            let timed = rng.chance(1, 4);
            let cfg = if timed { Cfg { h: *rng.pick(&[10u16, 4, 7, 13, 90, 3, 0]), ..cfg } } else { cfg };
            let mut live = Live::new(cfg, FRESH);
            let mut steps: Vec<Step> = Vec::new();
            for _ in 0..len {
                let s = live.state();
                let dop = live.dop_running();
                let conn = live.has_conn();
                let pick = |rng: &mut Rng| -> Step {
                    // rarely: the application's outgoing queue fills up / is drained again
                    if rng.chance(1, 50) { return Step::Room(*rng.pick(&[0u8, 1, 2, 64, 64])); }
                    // the connection is gone: mostly attach a new one before going on
                    if !conn && s <= 3 && rng.chance(2, 3) { return Step::Attach; }
                    // two thirds: the event that makes progress towards / keeps Established
                    if rng.chance(2, 3) {
                        match s {
                            1 => return if rng.bool() { Step::AStart } else { Step::Ev(3 + rng.below(2) as u8, None) },
                            2 | 3 if dop => return if rng.bool() { Step::MOpen(random_open(rng, malformed_ap)) } else { Step::Ev(8, None) },
                            2 | 3 => return if rng.bool() { Step::AConn } else { Step::Ev(9 + rng.below(2) as u8, None) },
                            4 => return if rng.bool() { Step::MOpen(random_open(rng, malformed_ap)) } else { Step::Ev(12, Some(random_open(rng, malformed_ap))) },
                            5 => return match rng.below(3) { 0 => Step::MKeep, 1 => Step::Ev(17, None), _ => Step::Ev(7, None) },
                            _ => return match rng.below(6) { 0 => Step::MKeep, 1 => Step::Ev(17, None), 2 => Step::Ev(7, None), 3 => Step::Ev(18, None), _ => Step::MUpd(rng.below(4) as u8) },
                        }
                    }
                    match rng.below(34) {
                        k @ 0..=20 if k != 12 && k != 20 => Step::Ev(k as u8, None),
                        12 => Step::Ev(12, Some(random_open(rng, malformed_ap))),
                        20 => Step::Ev(20, Some(random_open(rng, malformed_ap))),
                        21 | 22 => Step::MOpen(random_open(rng, malformed_ap)),
                        23 | 24 => Step::MKeep,
                        25 | 26 | 27 => Step::MUpd(rng.below(5) as u8),
                        28 => Step::MNotif(*rng.pick(&[1u8, 2, 3, 4, 5, 6]), rng.below(9) as u8),
                        29 => Step::MNotif(2, 1),
                        30 => Step::MNotif(6, rng.below(9) as u8),
                        31 => Step::MRefresh,
                        32 => Step::AStart,
                        _ => Step::AConn,
                    }
                };
                let mut st = pick(rng);
                if timed && (st == Step::Attach || rng.chance(1, 6)) { st = Step::Timer; }
                // mostly avoid the arms known to be `todo!()` (they end the history)
                for _ in 0..4 {
                    let k = step_kind(&st, dop);
                    let no_conn_open = !conn && ((s == 4 && k == 12) || (s == 3 && k == 20));
                    if (no_conn_open || gen_is_todo(s, k, dop, cfg.n, cfg.x)) && !rng.chance(1, 40) { st = pick(rng); } else { break; }
                }
                let o = live.step(&st);
                steps.push(st);
                if !matches!(o, Out::Rec(_)) { break; }
            }
            v.push(show_line(&cfg, &FRESH, &steps));
        }
        // (4) the same messages as bytes over the loopback socket: Session::tick() reads, frames, parses, handles
        let w = |m: Step| Step::Wire(Box::new(m));
        let finals: Vec<Step> = vec![
            w(Step::MOpen(OK_OPEN())), w(Step::MOpen(BAD_OPEN())), w(Step::MOpen(OpenP { asn: 4_200_000_001, hold: 30, ap: vec![], field: None })),
            w(Step::MOpen(OpenP { asn: 65001, hold: 0, ap: vec![], field: None })), w(Step::MKeep), w(Step::MUpd(0)), w(Step::MUpd(2)),
            w(Step::MNotif(6, 2)), w(Step::MNotif(2, 1)), w(Step::MNotif(4, 0)), w(Step::MRefresh), Step::Close, Step::ReadErr(false), Step::ReadErr(true), Step::CmdDisconnect, Step::CmdKeepalive,
            // (tie coverage) the other arms of Session::disconnect
            Step::CmdDisconnectWith('r'), Step::CmdDisconnectWith('c'), Step::CmdDisconnectWith('d'), Step::CmdDisconnectWith('h'), Step::CmdDisconnectWith('o'),
            // more UPDATEs back to back than the application channel holds, the application reading late
            Step::Burst(8, 1), Step::Burst(5, 0), Step::Burst(12, 2),
        ];
        let prefixes: Vec<Vec<Step>> = vec![
            vec![], vec![Step::AStart], vec![Step::AStart, Step::AConn],
            vec![Step::AStart, Step::AConn, w(Step::MOpen(OK_OPEN()))],
            vec![Step::AStart, Step::AConn, w(Step::MOpen(OK_OPEN())), w(Step::MKeep)],
        ];
        for f in 0..4u8 {
            let cfg = Cfg { d: f & 1 != 0, n: true, p: true, x: f & 2 != 0, a: false, h: 90 };
            for pre in &prefixes { for fin in &finals {
                let mut a = pre.clone(); a.push(fin.clone());
                v.push(show_tick_line(&cfg, &a));
                // the same with one more step, so that the transition is also judged away from the end of a line
                a.push(Step::AStart);
                v.push(show_tick_line(&cfg, &a));
            } }
        }
        for f in 0..2u8 {
            let cfg = Cfg { d: false, n: true, p: true, x: f & 1 != 0, a: false, h: 90 };
            for pre in &prefixes[2..] { for room in [0u8, 1] {
                for fin in [Step::CmdDisconnect, Step::CmdKeepalive, w(Step::MUpd(1)), w(Step::MOpen(OK_OPEN())), w(Step::MKeep), Step::Ev(6, None), Step::Ev(1, None)] {
                    let mut a = pre.clone(); a.push(Step::Room(room)); a.push(fin);
                    v.push(show_tick_line(&cfg, &a));
                }
            } }
        }
        let n_tick = if tier == Tier::Thorough { 20_000 } else { 300 };
        for _ in 0..n_tick {
            let cfg = Cfg { d: rng.chance(1, 3), n: rng.bool(), p: true, x: rng.bool(), a: false, h: *rng.pick(&[90u16, 180, 65535]) };
            let mut steps = vec![Step::AStart, Step::AConn];
            for _ in 0..rng.usize(4, 18) {
                steps.push(match rng.below(16) {
                    0..=2 => w(Step::MOpen(random_open(rng, false))),
                    3..=6 => w(Step::MKeep),
                    7..=9 => if rng.chance(1, 4) { Step::Burst(rng.range(2, 12) as u8, rng.below(4) as u8) } else { w(Step::MUpd(rng.below(4) as u8)) },
                    10 => w(Step::MNotif(*rng.pick(&[2u8, 4, 6]), rng.below(3) as u8)),
                    11 => match rng.below(4) { 0 => Step::ReadErr(false), 1 => Step::ReadErr(true), _ => Step::Close },
                    12 => Step::AStart,
                    13 => Step::AConn,
                    14 => match rng.below(5) { 0 | 1 => Step::Ev(7, None), 2 | 3 => Step::CmdKeepalive, _ => Step::Room(*rng.pick(&[0u8, 1, 2, 64])) },
                    _ => if rng.chance(1, 3) { if rng.bool() { Step::CmdDisconnect } else { Step::CmdDisconnectWith(*rng.pick(&['r', 'c', 'd', 'h', 'o'])) } } else { Step::Ev(*rng.pick(&[1u8, 6, 17, 18]), None) },
                });
            }
            v.push(show_tick_line(&cfg, &steps));
        }
        // (5) the whole receive path (`s` lines): a multi-message byte stream written in chunks, through Session::tick
        {
            let n_sess = if tier == Tier::Thorough { 4000 } else { 90 };
            let inits = ["4:10001", "4:10001", "4:10001", "6:01101", "5:01101", "3:10011", "2:10011", "-", "4:10011"];
            for i in 0..n_sess {
                let cfg = Cfg { d: rng.chance(1, 4), n: rng.bool(), p: true, x: rng.bool(), a: rng.chance(1, 3), h: *rng.pick(&[90u16, 90, 180, 3, 0]) };
                let init = inits[i % inits.len()];
                let mut frames: Vec<Vec<u8>> = vec![];
                if init.starts_with('4') || init.starts_with('3') || init.starts_with('2') {
                    frames.push(open_bytes(&match rng.below(8) { 0 => BAD_OPEN(), 1 => OpenP { asn: 65001, hold: 30, ap: vec![(4, 0)], field: None },
                        2 => OpenP { asn: 4_200_000_001, hold: 20, ap: vec![(4, 3), (6, 1)], field: None }, 3 => random_open(rng, true), _ => OK_OPEN() }));
                }
                for _ in 0..rng.usize(1, 5) {
                    frames.push(match rng.below(14) {
                        0..=4 => keepalive_bytes(),
                        5..=8 => update_bytes(rng.below(5) as u8),
                        9 => notif_bytes(*rng.pick(&[2u8, 4, 6]), rng.below(3) as u8),
                        10 => open_bytes(&OK_OPEN()),
                        11 => refresh_bytes(),
                        12 => { let mut b = header(5, 4); b.push(0); b }
                        _ => { let mut b = keepalive_bytes(); b[rng.usize(0, 18)] ^= 0x40; b }
                    });
                }
                let stream: Vec<u8> = frames.concat();
                // 1..4 chunks, one cut inside a frame after its 18th octet when there is a frame that long
                let mut cuts: Vec<usize> = vec![];
                let j = rng.usize(0, frames.len() - 1);
                let o: usize = frames[..j].iter().map(|f| f.len()).sum();
                if frames[j].len() > 19 { cuts.push(o + rng.usize(18, frames[j].len() - 1)); } else { cuts.push(o + rng.usize(1, 18)); }
                for _ in 0..rng.below(3) { cuts.push(rng.usize(1, stream.len() - 1)); }
                if i % 10 == 9 && stream.len() <= 70 { cuts = (1..stream.len()).collect(); }   // one octet per read
                cuts.retain(|c| *c > 0 && *c < stream.len());
                cuts.sort(); cuts.dedup();
                let mut lens = vec![]; let mut prev = 0;
                for c in &cuts { lens.push(c - prev); prev = *c; }
                lens.push(stream.len() - prev);
                v.push(format!("s {} {} {} {} {}", cfg.show(), init, hex(&stream), lens.iter().map(|x| x.to_string()).collect::<Vec<_>>().join(","), if rng.chance(1, 3) { "c" } else { "-" }));
            }
        }
        // (6) a PARTIAL FRAME in the receive buffer when a timer of the session fires (`pB`): the timer branches of tick() do not
        //     care what the framing buffer holds - a peer that stalls inside a PDU is expired like a silent one
        {
            let raws: Vec<Vec<u8>> = vec![vec![0xff; 5], vec![0xff], vec![0xff; 17], { let mut b = vec![0xffu8; 16]; b.extend_from_slice(&[0, 64, 2]); b.extend_from_slice(&[0u8; 11]); b },
                { let mut b = vec![0xffu8; 16]; b.extend_from_slice(&[0x10, 0x00]); b }, vec![0x00, 0x01, 0x02]];
            let n_raw = if tier == Tier::Thorough { 1200 } else { 72 };
            for i in 0..n_raw {
                let h = [2u16, 10, 20, 7, 1, 10, 90, 0][i % 8];
                let cfg = Cfg { d: false, n: rng.bool(), p: true, x: rng.bool(), a: false, h };
                let mut steps = vec![Step::AStart, Step::AConn, Step::MOpen(OpenP { asn: 65001, hold: *rng.pick(&[90u16, 30, 3]), ap: vec![], field: None })];
                if i % 3 != 2 { steps.push(Step::MKeep); }
                if i % 4 == 1 && h >= 7 { steps.push(Step::Wait(rng.range(1, 2) as u8)); steps.push(if rng.bool() { Step::MKeep } else { Step::MUpd(1) }); }
                let raw = raws[i % raws.len()].clone();
                if i % 5 == 4 && raw.len() >= 2 { let k = rng.usize(1, raw.len() - 1); steps.push(Step::Raw(raw[..k].to_vec())); if h >= 7 { steps.push(Step::Wait(1)); } steps.push(Step::Raw(raw[k..].to_vec())); }
                else { steps.push(Step::Raw(raw)); }
                if i % 6 == 5 && h >= 7 { steps.push(Step::Wait(rng.range(1, (h as u64).min(9)) as u8)); }
                for _ in 0..rng.usize(1, 7) { steps.push(Step::Timer); }
                v.push(show_line(&cfg, &FRESH, &steps));
            }
        }
        // long-lived sessions (timed lines, see (1c)): the peer is heard from again and again while many hold times pass on the line (the hold
        // timer is re-armed each time; un-polled stretches of up to two hold times and a little more: a reset with two
        // hold-timer ticks outstanding makes the line `bad-op` on both sides, `reset_with_two_ticks`), `T` in between
        for i in 0..(if tier == Tier::Thorough { 2000 } else { 100 }) {
            let h = *rng.pick(&[9u16, 10, 3, 2, 1, 4, 30, 12]);
            let cfg = Cfg { d: false, n: true, p: true, x: true, a: false, h };
            let mut steps = vec![Step::AStart, Step::AConn, Step::MOpen(OpenP { asn: 65001, hold: *rng.pick(&[90u16, 10, 3]), ap: vec![], field: None })];
            if i % 16 != 15 { steps.push(Step::MKeep); }
            for _ in 0..rng.usize(2, 9) {
                // mostly less than one hold time, sometimes between one and two (one tick queued, discarded by the reset),
                // rarely two or more
                let top = match rng.below(10) { 0 => 2 * h as u64 + 1, 1 | 2 | 3 => 2 * h as u64 - 1, _ => (h as u64 - 1).max(1) };
                let mut w = rng.range(1, top.max(1));
                while w > 0 { let d = w.min(60); steps.push(Step::Wait(d as u8)); w -= d; }
                if rng.chance(1, 4) { steps.push(Step::Timer); }
                steps.push(if rng.bool() { Step::MKeep } else { Step::MUpd(1) });
            }
            for _ in 0..rng.usize(0, 3) { steps.push(Step::Timer); }
            v.push(show_line(&cfg, &FRESH, &steps));
        }
        v
    }

    fn exec(&self, line: &str) -> String {
        if let Some(l) = parse_sess_line(line) { return run_sess(&l); }
        if let Some((cfg, steps)) = parse_tick_line(line) { return show_outs(&run_tick(cfg, &steps)); }
        match parse_line(line) {
            None => "bad-op".into(),
            Some((cfg, init, steps)) => {
                let outs = run(cfg, init, &steps);
                if reset_with_two_ticks(&cfg, &init, &steps, &outs) { return "bad-op".into(); }
                show_outs(&outs)
            }
        }
    }

    /// The property, judged on the implementation's replies with the table above.
    fn oracle(&self, line: &str, reply: &str) -> Result<(), String> {
        if let Some(l) = parse_sess_line(line) {
            // the whole receive path: nothing the session does may depend on how the peer's writes were split; no
            // panic, no hang; and every tick is judged like the same PDU on a `t` line (clauses 1-4)
            let (recs, same) = reply.split_once(" ## same=").ok_or_else(|| format!("unreadable reply `{}`", reply))?;
            if recs.contains("hang") { return Err("Session::tick() did not return on the peer's octets".into()); }
            if recs.split(" ; ").any(|r| r == "panic") { return Err("the peer's octets panic the session".into()); }
            if same != "1" { return Err("what the session does with the stream depends on how the peer's writes were split".into()); }
            // (audit r5 S6a) every frame of the stream is answered by one tick, until a tick fails / the connection is gone:
            // the expectation comes from the request line alone (RFC 4271 4.1 framing in `steps_of_stream`)
            if let Some(steps) = steps_of_stream(&l) {
                let outs = if recs == "-" { vec![] } else { parse_outs(recs).ok_or_else(|| format!("unreadable reply `{}`", recs))? };
                let alive = match outs.last() { None => l.init.conn, Some(Out::Rec(r)) => r.ok && r.conn, Some(_) => false };
                if outs.len() < steps.len() && alive {
                    return Err(format!("the stream carries {} frame(s) / reads, the session answered {} and is still alive: `{}` was never handled",
                        steps.len(), outs.len(), steps[outs.len()].show()));
                }
            }
            if recs == "-" { return Ok(()); }
            return match steps_of_stream(&l) {
                None => Ok(()),
                Some(steps) => match judge(l.cfg, l.init, steps, recs, true) {
                    // K8 / K5 are reported on the `t` / `h` lines known_findings.jsonl names
                    Err(e) if e.contains("[K8]") || e.contains("[K5]") => Ok(()),
                    r => r,
                },
            };
        }
        let tick_line = line.starts_with("t ");
        let (cfg, init, steps) = if tick_line {
            match parse_tick_line(line) { Some((c, s)) => (c, FRESH, s), None => return Ok(()) }
        } else {
            match parse_line(line) { Some(x) => x, None => return Ok(()) }
        };
        // a line refused after the run (`reset_with_two_ticks`)
        if reply == "bad-op" { return Ok(()); }
        judge(cfg, init, steps, reply, tick_line)
    }

    fn nontrivial(&self, _line: &str, reply: &str) -> bool {
        reply != "bad-op" && reply != "todo" && reply != "panic" && reply != "unparsable" && reply != "idle"
    }

    fn class(&self, line: &str, reply: &str) -> String {
        class_of(line, reply)
    }
}

/// The property, judged on the implementation's replies with the table above.
fn judge(cfg: Cfg, init: Init, steps: Vec<Step>, reply: &str, tick_line: bool) -> Result<(), String> {
    {
        let outs = parse_outs(reply).ok_or_else(|| format!("unreadable reply `{}`", reply))?;
        let single = steps.len() == 1;
        let n_steps = steps.len();
        let mut st = init.st;
        let mut dop = init.dop;
        let mut conn = init.conn;
        // ghost history for the Established clause (only meaningful from a fresh session)
        let forced = init != FRESH;
        // (audit r5 S6e) the ghost history is known whenever the session is outside OpenConfirm / Established: a session
        // forced into Idle .. OpenSent has accepted no OPEN yet (the hypothesis `h0` of `bytes_established_only_after_open_keepalive`)
        let mut ghost_known = init.st < 5;
        let mut t_crt = init.crt;
        let mut cnt: Option<usize> = None;
        let mut open_accepted = false; // an OPEN from an allowed AS took the session to OpenConfirm, and it stayed there
        let (mut t_hold, mut t_ka) = (init.hold, init.ka); // hold / keepalive timer running before the step
        let mut room = PDU_CAP; // free slots of the application's outgoing queue at the start of a step (`q<room>`)
        // the paused clock (from the ` @<s>` of `T` / `W` records) and when the peer was last heard from in the sense of the
        // HoldTimer: an OPEN was accepted (RFC 4271 8.2.2: "sets the HoldTimer according to the negotiated value"), a
        // KEEPALIVE arrived in OpenConfirm / Established or an UPDATE in Established ("restarts its HoldTimer")
        let mut now: u64 = 0;
        let mut hold_armed: Option<u64> = None;
        let mut neg_hold: Option<u64> = None;
        for (i, (step, out)) in steps.iter().zip(outs.iter()).enumerate() {
            let r = match out {
                Out::Rec(r) => r,
                Out::Unparsable | Out::NoConn | Out::Idle | Out::Tie => return Ok(()),
                Out::Hang => return Err(format!("step {} `{}`: Session::tick() did not return", i, step.show())),
                // `todo!()` arms are outside "the events the implementation handles"; any other panic is not
                Out::Todo => return Ok(()),
                Out::Panic => {
                    // the only modelled non-todo panic: an OPEN processed without a connection attached
                    // (`self.connection.as_ref().unwrap()`), which no real history produces: frames only
                    // arrive over a connection.  Outside "the events the implementation handles".
                    let open_step = matches!(step, Step::Ev(12, _) | Step::Ev(20, _) | Step::MOpen(_));
                    if !conn && open_step { return Ok(()); }
                    return Err(format!("step {} `{}` panicked in state {}", i, step.show(), STATE_NAMES[st as usize]));
                }
            };
            if let Step::Room(n) = step { room = *n as usize; }
            let ev = rfc_event(step, dop, cfg.p);
            let upd_n = match step { Step::MUpd(n) | Step::Burst(_, n) => Some(*n as usize), Step::Wire(inner) => match &**inner { Step::MUpd(n) => Some(*n as usize), _ => None }, _ => None };
            // UPDATEs received in this step (a burst outside Established ends with its first UPDATE)
            let upd_k = match step { Step::Burst(k, _) => *k as usize, _ => 1 };
            let is_msg_upd = upd_n.is_some();
            // clauses 1 and 2 for one RFC event
            let check12 = |ev: u8| -> Result<(), String> {
                // clause 1: next state
                if let Some(want) = rfc_next(st, ev, cfg.d, dop) {
                    // K8: `tick` itself sets Connect after `handle_msg` returned Err and after the peer closed
                    // the connection (Connect is where it waits for Command::AttachStream).  Reported on the
                    // short lines whose last step it is (known_findings.jsonl lists them), passed over elsewhere.
                    let k8 = tick_line && r.st == 2 && want != 2 && ((matches!(step, Step::Wire(_) | Step::Burst(..)) && !r.ok) || matches!(step, Step::Close | Step::ReadErr(_)));
                    if k8 {
                        if i + 1 == n_steps && n_steps <= 5 {
                            return Err(format!("step {} `{}`: {} --(RFC event {})--> Connect (set by Session::tick) but RFC 4271 8.2.2 prescribes {} [K8]", i, step.show(),
                                STATE_NAMES[st as usize], ev, STATE_NAMES[want as usize]));
                        }
                    } else if r.st != want {
                        let k5 = st == 3 && ev == 9 && !cfg.x && r.st == 3;
                        // K5 is reported on the single-step lines (where known_findings.jsonl matches it);
                        // inside histories exactly this recorded deviation is passed over.
                        if !k5 || single {
                            return Err(format!("step {} `{}`: {} --(RFC event {})--> {} but RFC 4271 8.2.2 prescribes {}{}", i, step.show(),
                                STATE_NAMES[st as usize], ev, STATE_NAMES[r.st as usize], STATE_NAMES[want as usize],
                                if k5 { " [K5]" } else { "" }));
                        }
                    }
                }
                // clause 2: NOTIFICATION + release of the connection
                if let Some((code, sub)) = rfc_notif(st, ev) {
                    let hit = r.outs.iter().any(|o| match sub {
                        Some(sc) => *o == format!("N{}.{}", code, sc),
                        None => o.starts_with(&format!("N{}.", code)),
                    });
                    if !hit {
                        // K14: `send_pdu` is a `try_send`; with no free slot in the application's outgoing queue the
                        // NOTIFICATION is dropped (everything else the arm does still happens)
                        let k10 = room == 0 && r.outs.is_empty() && !r.conn;
                        return Err(format!("step {} `{}` in {}: RFC names NOTIFICATION code {} {:?}, sent {:?}{}", i, step.show(), STATE_NAMES[st as usize], code, sub, r.outs,
                            if k10 { " (the outgoing PDU queue was full: send_pdu drops it) [K14]" } else { "" }));
                    }
                    if r.conn {
                        return Err(format!("step {} `{}` in {}: connection not released", i, step.show(), STATE_NAMES[st as usize]));
                    }
                }
                Ok(())
            };
            let raw_fired = matches!(step, Step::Raw(_)) && (r.st != st || !r.outs.is_empty() || r.conn != conn);
            if matches!(step, Step::Timer) || raw_fired {
                // `tick()` returned because a timer it polls fired: the step must be what RFC 4271 prescribes for the
                // expiry event of ONE of the timers that were running (Event 10 hold, 11 keepalive, 12 delay-open).
                // Which of several running timers is due first depends on their durations, which this property does
                // not speak about.
                let mut cands: Vec<u8> = vec![];
                if t_hold { cands.push(10); }
                if t_ka { cands.push(11); }
                if dop { cands.push(12); }
                if cands.is_empty() { return Err(format!("step {} `T`: Session::tick() returned although none of the timers it polls was running", i)); }
                // an explanation must be what RFC 4271 8.2.2 says happens: KeepaliveTimer_Expires in OpenConfirm / Established
                // "sends a KEEPALIVE message" (unless the outgoing queue is full: K14)
                let res: Vec<Result<(), String>> = cands.iter().map(|e| {
                    check12(*e)?;
                    if *e == 11 && (st == 5 || st == 6) && room > 0 && !r.outs.iter().any(|o| o == "K") {
                        return Err("KeepaliveTimer_Expires sends a KEEPALIVE, none was sent".to_string());
                    }
                    Ok(())
                }).collect();
                if !res.iter().any(|x| x.is_ok()) {
                    return Err(format!("step {} `T` (timer expiry through Session::tick, running: {:?}): {}", i, cands, res.into_iter().filter_map(|x| x.err()).collect::<Vec<_>>().join(" | ")));
                }
            } else if let Some(ev) = ev {
                check12(ev)?;
            } else if let Step::CmdDisconnectWith(c) = step {
                // a stop command that names HoldTimerExpired or no reason (`Other`): which NOTIFICATION it sends is
                // not judged (see rfc_event); it is still a stop: Idle, connection released
                if r.st != 1 || r.conn {
                    return Err(format!("step {} `cD{}`: a stop command must leave the session in Idle without a connection, got {} conn={}", i, c, STATE_NAMES[r.st as usize], r.conn));
                }
            } else if r.st != st && !matches!(step, Step::ReadErr(false)) {
                return Err(format!("step {} `{}` is no FSM event but changed the state", i, step.show()));
            }
            // (audit r5 S6b) a ROUTE-REFRESH is no FSM event (RFC 2918 section 4: ignored by a speaker that did not advertise the
            // capability): the step is answered Ok and leaves everything as it was - state, connection, the four timers, the
            // ConnectRetryCounter - and nothing is sent to the peer or handed to the application
            let is_refresh = matches!(step, Step::MRefresh) || matches!(step, Step::Wire(inner) if **inner == Step::MRefresh);
            if is_refresh {
                let same = r.ok && r.st == st && r.conn == conn && r.hold == t_hold && r.ka == t_ka && r.dop == dop && r.crt == t_crt
                    && cnt.map_or(true, |c| c == r.cnt) && r.outs.is_empty() && r.app.is_empty();
                if !same {
                    return Err(format!("step {} `{}` in {}: a ROUTE-REFRESH is no FSM event, the session must go on unchanged; got `{}`", i, step.show(), STATE_NAMES[st as usize], r.show()));
                }
            }
            // clause 3: Established only after an accepted OPEN from an allowed AS, then a KEEPALIVE
            if r.st == 6 && st != 6 && ghost_known {
                let ka = matches!(step, Step::MKeep | Step::Ev(17, None)) || matches!(step, Step::Wire(inner) if **inner == Step::MKeep);
                if !(open_accepted && ka && st == 5) {
                    return Err(format!("step {} `{}`: Established entered from {} without accepted OPEN + KEEPALIVE", i, step.show(), STATE_NAMES[st as usize]));
                }
            }
            if r.st == 5 && st != 5 {
                let from_allowed = match step {
                    Step::Ev(12, Some(o)) | Step::Ev(20, Some(o)) | Step::MOpen(o) => ALLOWED_ASNS.contains(&o.asn),
                    Step::Wire(inner) => matches!(&**inner, Step::MOpen(o) if ALLOWED_ASNS.contains(&o.asn)),
                    _ => false };
                if ghost_known && !from_allowed {
                    return Err(format!("step {} `{}`: OpenConfirm entered without an OPEN from an allowed AS", i, step.show()));
                }
                open_accepted = from_allowed;
                ghost_known = true;
            } else if r.st != 5 && r.st != 6 {
                open_accepted = false;
                ghost_known = true;
            }
            // clause 4: an UPDATE reaches the application iff Established when it is processed
            let fwd = r.app.iter().filter(|a| a.starts_with('U')).count();
            if is_msg_upd {
                let n = upd_n.unwrap_or(0);
                let want = if st == 6 { upd_k } else { 0 };
                if fwd != want {
                    return Err(format!("step {} `{}`: {} UPDATE(s) received in {}, {} handed to the application", i, step.show(), upd_k, STATE_NAMES[st as usize], fwd));
                }
                if fwd >= 1 && r.app.iter().filter(|a| **a == format!("U{}", 23 + 4 * n)).count() != fwd {
                    return Err(format!("step {}: a different UPDATE was forwarded: {:?}", i, r.app));
                }
            } else if fwd != 0 {
                return Err(format!("step {} `{}`: an UPDATE was handed to the application without one being received", i, step.show()));
            }
            // the HoldTimer does not expire early (property C20 lifted to the session): a Hold Timer Expired NOTIFICATION
            // raised by a timer of the session comes no earlier than the negotiated hold time after the peer was last heard
            if let Some(t) = r.at { now = t; }
            if (matches!(step, Step::Timer) || raw_fired) && r.outs.iter().any(|o| o == "N4.0") {
                if let (Some(a), Some(h)) = (hold_armed, neg_hold) {
                    if h > 0 && now < a + h {
                        return Err(format!("step {} `T`: HoldTimer_Expires (NOTIFICATION 4.0) at {} s, but the HoldTimer was (re)started at {} s with a negotiated hold time of {} s", i, now, a, h));
                    }
                }
            }
            let heard = (r.st == 5 && st != 5) || (r.st == 6 && ((st == 6 && matches!(ev, Some(26) | Some(27))) || (st == 5 && ev == Some(26))));
            if heard && !forced { hold_armed = Some(now); }
            if !r.hold { hold_armed = None; }
            neg_hold = r.neg.strip_prefix('h').and_then(|x| x.split('/').next()).and_then(|x| x.parse().ok());
            st = r.st;
            dop = r.dop;
            conn = r.conn;
            t_hold = r.hold;
            t_ka = r.ka;
            t_crt = r.crt;
            cnt = Some(r.cnt);
        }
        Ok(())
    }
}

fn class_of(line: &str, reply: &str) -> String {
    {
        let w: Vec<&str> = line.split(' ').collect();
        if w.len() < 3 { return "bad".into(); }
        if w[0] == "s" {
            // whole receive path: forced start state, how many ticks returned, where the session ended, how the run ended
            let recs = reply.split(" ## ").next().unwrap_or("");
            let v: Vec<&str> = if recs == "-" { vec![] } else { recs.split(" ; ").collect() };
            let fin = v.last().map(|r| r.split(' ').take(2).collect::<Vec<_>>().join("-")).unwrap_or_else(|| "nothing".into());
            let from = w[2].split(':').next().and_then(|f| f.parse::<usize>().ok()).map(|i| STATE_NAMES[i.min(6)]).unwrap_or("Idle");
            return format!("sess:{}:{}ticks:{}{}", from, v.len().min(6), fin, if reply.contains("Established") { ":reaches-Established" } else { "" });
        }
        let last = reply.rsplit(" ; ").next().unwrap_or("");
        if w[0] == "t" {
            let est = reply.contains("Established");
            return format!("tick:{}:{}", if est { "reaches-Established" } else { "no-Established" }, last.split(' ').next().unwrap_or("?"));
        }
        if w.len() < 4 { return "bad".into(); }
        // lines that let a timer fire: which timer's event `tick()` raised at the last `T`, in which state, local hold time
        if w[3..].iter().any(|t| *t == "T") && reply != "bad-op" {
            let recs: Vec<&str> = reply.split(" ; ").collect();
            if let Some(j) = (0..recs.len().min(w.len() - 3)).rev().find(|j| w[3 + *j] == "T") {
                let before = if j == 0 { let f = w[2].split(':').next().unwrap_or("-"); f.parse::<usize>().ok().map(|i| STATE_NAMES[i.min(6)]).unwrap_or("Idle") }
                    else { recs[j - 1].split(' ').next().unwrap_or("?") };
                let f: Vec<&str> = recs[j].split(' ').collect();
                let fired = if f.len() < 8 { recs[j] } else if f[6].contains("N4.0") { "hold:N4.0" } else if f[6] == "K" { "keepalive:K" }
                    else if f[6].starts_with('O') { "delayopen:OPEN" } else if f[6].starts_with('N') { "other-NOTIFICATION" } else { "no-PDU" };
                let hcls = match w[1].split('h').nth(1).and_then(|h| h.parse::<u32>().ok()) { Some(0) => "hold0", Some(1..=2) => "hold1-2", _ => "hold3+" };
                let reconnect = w[3..].iter().any(|t| *t == "aA");
                let waited = w[3..].iter().any(|t| t.starts_with('W'));
                return format!("timer:{}:{}:{}{}{}", before, fired, hcls, if waited { ":after-W" } else { "" }, if reconnect { ":second-connection" } else { "" });
            }
        }
        let fin = last.split(' ').next().unwrap_or("?");
        if w.len() == 4 {
            let from = w[2].split(':').next().unwrap_or("-");
            let from = from.parse::<usize>().ok().map(|i| STATE_NAMES[i.min(6)]).unwrap_or("Idle");
            let kind = w[3].split(':').next().unwrap_or("");
            format!("step:{}:{}->{}", from, kind, fin)
        } else {
            let n = w.len() - 3;
            let bucket = if n <= 4 { "2-4" } else if n <= 15 { "5-15" } else if n <= 30 { "16-30" } else { "31-60" };
            let est = reply.contains("Established");
            format!("history:len{}:{}:{}", bucket, if est { "reaches-Established" } else { "no-Established" }, fin)
        }
    }
}
