//! C20: a session timer never fires early, nor after it was stopped.
//!
//! Request line:  `seq <interval_s> <op>,<op>,...`  with
//!   s        Timer::start
//!   r        Timer::reset
//!   x        Timer::stop_and_reset
//!   a<ms>    tokio::time::advance(ms)
//!   w<ms>    tokio::time::timeout(ms, Timer::tick())   (under the paused clock the runtime
//!            auto-advances to the next timer while everything is idle)
//!   Ar<ms> / Ax<ms> / As<ms>   advance(ms) and then reset / stop_and_reset / start WITHOUT letting the
//!            interval task run in between: the interval has fired but its task has not been polled
//!            when the call is made (the task then finds both its tick and the reset/stop ready;
//!            before fix F17 select! picked one at random, the fix makes both select!s biased)
//!   B<cc> / B<ccc>   two / three calls out of s, r, x back to back, with NO await in between (the task a `start`
//!            spawned has not been polled once when the next call is made), then the harness yields
//!   q        probe: `q<is_running()><a tick is queued><number of live tasks on the runtime>`
//! run on a current-thread runtime with the clock paused; after every op the harness yields so
//! that the spawned interval task settles.  Reply: one token per `w` op, `t<v>@<now>` (tick
//! carrying the Instant `v`, observed at clock `now`, both in ms since the timer was created)
//! or `n@<now>` (timeout), one per `q` op; the token `pre` is put before the first op that
//! breaks the property's precondition (a tick falling due while the previous one has not been
//! awaited) - that is decided by the reference bookkeeping below, not by the implementation.
//! The run goes on after it (blocked sender, Interval burst: compared with the model); the oracle
//! judges the history up to that point only.  Interval 0 (`Session::new` creates such timers for
//! hold time 0..2) is allowed: `tokio::time::interval(0)` panics inside the spawned task.
use crate::common::*;
use routecore::bgp::fsm::VerifTimer;
use std::time::Duration;

pub struct C20;

#[derive(Clone, Copy, Debug, PartialEq)]
enum Op { Start, Reset, Stop, Adv(u64), Wait(u64), AdvNs(u64), Probe, Burst([u8; 3], u8) }

fn parse_ops(s: &str) -> Option<Vec<Op>> {
    if s == "-" { return Some(vec![]); }
    let mut out = vec![];
    for t in s.split(',') {
        let num = |x: &str| -> Option<u64> { if x.is_empty() || x.len() > 7 || !x.bytes().all(|b| b.is_ascii_digit()) { None } else { x.parse().ok() } };
        match t {
            "s" => out.push(Op::Start), "r" => out.push(Op::Reset), "x" => out.push(Op::Stop), "q" => out.push(Op::Probe),
            _ if t.starts_with('B') => {
                let b = &t.as_bytes()[1..];
                if !(b.len() == 2 || b.len() == 3) || !b.iter().all(|c| matches!(c, b's' | b'r' | b'x')) { return None; }
                let mut a = [0u8; 3];
                a[..b.len()].copy_from_slice(b);
                out.push(Op::Burst(a, b.len() as u8));
            }
            _ if t.starts_with("Ar") => { out.push(Op::AdvNs(num(&t[2..])?)); out.push(Op::Reset); }
            _ if t.starts_with("Ax") => { out.push(Op::AdvNs(num(&t[2..])?)); out.push(Op::Stop); }
            _ if t.starts_with("As") => { out.push(Op::AdvNs(num(&t[2..])?)); out.push(Op::Start); }
            _ if t.starts_with('a') => out.push(Op::Adv(num(&t[1..])?)),
            _ if t.starts_with('w') => out.push(Op::Wait(num(&t[1..])?)),
            _ => return None,
        }
    }
    Some(out)
}

/// request tokens; `Tok::Then(d, op)` = `A<op><d>`: advance d and call op before the interval task has run
#[derive(Clone, Copy, Debug, PartialEq)]
enum Tok { One(Op), Then(u64, Op) }

fn show_op(o: &Op) -> String {
    match o { Op::Start => "s".into(), Op::Reset => "r".into(), Op::Stop => "x".into(), Op::Probe => "q".into(), Op::Burst(a, n) => format!("B{}", std::str::from_utf8(&a[..*n as usize]).unwrap()), Op::Adv(d) => format!("a{}", d), Op::Wait(d) => format!("w{}", d), Op::AdvNs(d) => format!("A{}", d) }
}
fn show_tok(t: &Tok) -> String {
    match t { Tok::One(o) => show_op(o), Tok::Then(d, o) => format!("A{}{}", show_op(o), d) }
}

/// The ideal timer the property talks about: when ticks fall due, whether one is outstanding.
/// Written from the property statement; shares no code with routecore or the Lean model.  It is a MONITOR: for an await it is
/// fed the implementation's observation (tick or timeout, and the clock afterwards) to know whether the due tick is still
/// outstanding; it never reads the Timer's state.
#[derive(Clone, Debug)]
struct Ideal {
    i: u64, now: u64,
    running: bool, next_due: u64, outstanding: bool,
    last_start: Option<u64>, last_reset: Option<u64>,
}

impl Ideal {
    fn new(i: u64) -> Self { Ideal { i, now: 0, running: false, next_due: 0, outstanding: false, last_start: None, last_reset: None } }
    /// would executing `op` let a tick fall due while the previous one is un-awaited?
    fn violates(&self, op: &Op) -> bool {
        if let Op::Adv(d) | Op::AdvNs(d) = op {
            if !self.running || self.i == 0 { return false; }
            let target = self.now + d;
            if self.next_due > target { return false; }
            let k = (target - self.next_due) / self.i + 1;
            return k >= 2 || self.outstanding;
        }
        false
    }
    /// advance the bookkeeping; for Wait the observation made on the implementation is needed
    fn apply(&mut self, op: &Op, observed_tick: Option<bool>, now_after: u64) {
        match op {
            Op::Start => { self.running = true; self.next_due = self.now + self.i; self.outstanding = false; self.last_start = Some(self.now); }
            Op::Reset => { self.last_reset = Some(self.now); if self.running { self.next_due = self.now + self.i; self.outstanding = false; } }
            Op::Stop => { self.running = false; self.outstanding = false; }
            Op::Probe => {}
            Op::Burst(a, n) => for c in &a[..*n as usize] {
                self.apply(&match c { b's' => Op::Start, b'r' => Op::Reset, _ => Op::Stop }, None, now_after);
            },
            Op::Adv(d) | Op::AdvNs(d) => {
                self.now += d;
                if self.running && self.next_due <= self.now { self.outstanding = true; self.next_due += self.i; }
            }
            Op::Wait(_) => {
                self.now = now_after;
                let ticked = observed_tick.unwrap_or(false);
                if self.outstanding { if ticked { self.outstanding = false; } }
                else if self.running && self.next_due <= self.now {
                    // a tick fell due during the wait: either it was delivered or it is outstanding now
                    self.outstanding = !ticked;
                    self.next_due += self.i;
                }
            }
        }
    }
}

fn run_seq(interval_s: u64, ops: &[Op]) -> String {
    let rt = tokio::runtime::Builder::new_current_thread().enable_time().start_paused(true).build().unwrap();
    rt.block_on(async {
        let base = tokio::time::Instant::now();
        let ms = |t: tokio::time::Instant| t.duration_since(base).as_millis() as u64;
        let mut t = VerifTimer::new(interval_s);
        let mut ideal = Ideal::new(interval_s * 1000);
        let mut out: Vec<String> = vec![];
        let nosettle = std::env::var("RC_C20_NOSETTLE").is_ok();
        let settle = || async { for _ in 0..4 { tokio::task::yield_now().await; } };
        settle().await;
        let mut broken = false;
        for op in ops {
            if !broken && ideal.violates(op) { out.push("pre".into()); broken = true; }
            let mut obs = None;
            match op {
                Op::Start => t.start(),
                Op::Reset => t.reset(),
                Op::Stop => t.stop_and_reset(),
                Op::Burst(a, n) => for c in &a[..*n as usize] { match c { b's' => t.start(), b'r' => t.reset(), _ => t.stop_and_reset() } },
                Op::Probe => out.push(format!("q{}{}{}", t.is_running() as u8, t.verif_tick_pending() as u8,
                    tokio::runtime::Handle::current().metrics().num_alive_tasks())),
                Op::Adv(d) | Op::AdvNs(d) => tokio::time::advance(Duration::from_millis(*d)).await,
                Op::Wait(d) => {
                    match tokio::time::timeout(Duration::from_millis(*d), t.tick()).await {
                        Ok(v) => { out.push(format!("t{}@{}", ms(v), ms(tokio::time::Instant::now()))); obs = Some(true); }
                        Err(_) => { out.push(format!("n@{}", ms(tokio::time::Instant::now()))); obs = Some(false); }
                    }
                }
            }
            // RC_C20_NOSETTLE=1 (never set by ./check; for experiments): no settle after any plain advance either
            // after `AdvNs` the next operation (reset / stop / start) is called before the interval task runs
            if !(matches!(op, Op::AdvNs(_)) || (nosettle && matches!(op, Op::Adv(_)))) { settle().await; }
            if !broken { ideal.apply(op, obs, ms(tokio::time::Instant::now())); }
        }
        if out.is_empty() { "-".into() } else { out.join(" ") }
    })
}

const I: u64 = 8; // seconds; a quarter is 2000 ms

fn alphabet(i_ms: u64) -> Vec<Tok> {
    use Tok::*;
    vec![One(Op::Start), One(Op::Reset), One(Op::Stop), One(Op::Adv(i_ms / 4)), One(Op::Adv(i_ms)), One(Op::Adv(2 * i_ms)),
         One(Op::Wait(i_ms + i_ms / 8)), One(Op::Wait(i_ms / 8)),
         // the interval fires and, before its task has run, the session calls reset / stop / start
         Then(i_ms, Op::Reset), Then(i_ms, Op::Stop), Then(i_ms, Op::Start)]
}

fn line(i_s: u64, ops: &[Tok]) -> String {
    format!("seq {} {}", i_s, if ops.is_empty() { "-".into() } else { ops.iter().map(show_tok).collect::<Vec<_>>().join(",") })
}

impl Prop for C20 {
    fn gen(&self, rng: &mut Rng, tier: Tier) -> Vec<String> {
        let mut v = vec![];
        let alpha = alphabet(I * 1000);
        // exhaustive to a depth: (1) the 8 settled letters {s, r, x, a(i/4), a(i), a(2i), w(9i/8), w(i/8)};
        // (2) those plus the 3 unsettled letters {A r, A x, A s}(i), one level less deep, keeping the
        // sequences that contain an unsettled letter. The run goes on beyond the precondition (`pre` marks where it first breaks).
        let (d8, d11) = if tier == Tier::Thorough { (7, 6) } else { (6, 5) };
        let mut enumerate = |letters: usize, depth: usize, need_unsettled: bool, v: &mut Vec<String>| {
            let mut idx = vec![0usize; depth];
            for d in 1..=depth {
                for x in idx.iter_mut() { *x = 0; }
                'seqs: loop {
                    if !need_unsettled || idx[..d].iter().any(|k| *k >= 8) {
                        let ops: Vec<Tok> = (0..d).map(|k| alpha[idx[k]]).collect();
                        v.push(line(I, &ops));
                    }
                    let mut k = d;
                    loop {
                        if k == 0 { break 'seqs; }
                        k -= 1;
                        idx[k] += 1;
                        if idx[k] < letters { break; }
                        idx[k] = 0;
                    }
                }
            }
        };
        enumerate(8, d8, false, &mut v);
        enumerate(11, d11, true, &mut v);
        // (3) beyond the precondition (blocked sender, Interval burst, reset / stop / start with two ticks outstanding)
        // and the probe: every sequence up to depth 5 (thorough 6) over 9 letters
        {
            let i = I * 1000;
            use Tok::*;
            let beta = [One(Op::Start), One(Op::Reset), One(Op::Stop), One(Op::Adv(i)), One(Op::Adv(3 * i)), One(Op::Wait(0)), One(Op::Probe),
                        Then(2 * i, Op::Reset), Then(2 * i, Op::Stop)];
            let depth = if tier == Tier::Thorough { 6 } else { 5 };
            let mut idx = vec![0usize; depth];
            for d in 1..=depth {
                for x in idx.iter_mut() { *x = 0; }
                'seqs: loop {
                    let ops: Vec<Tok> = (0..d).map(|k| beta[idx[k]]).collect();
                    v.push(line(I, &ops));
                    let mut k = d;
                    loop {
                        if k == 0 { break 'seqs; }
                        k -= 1;
                        idx[k] += 1;
                        if idx[k] < beta.len() { break; }
                        idx[k] = 0;
                    }
                }
            }
        }
        // (3b) calls back to back (no await in between: the task of a `start` has not been polled once when it is stopped,
        // restarted or reset): every sequence up to depth 3 over the 9 pairs and 27 triples of {s, r, x} plus
        // {s, r, x, a(i/4), a(i), w(9i/8), w(i/8)}
        {
            let i = I * 1000;
            use Tok::*;
            let mut gamma = vec![One(Op::Start), One(Op::Reset), One(Op::Stop), One(Op::Adv(i / 4)), One(Op::Adv(i)), One(Op::Wait(i + i / 8)), One(Op::Wait(i / 8))];
            let l = [b's', b'r', b'x'];
            for a in l { for b in l { gamma.push(One(Op::Burst([a, b, 0], 2))); } }
            for a in l { for b in l { for c in l { gamma.push(One(Op::Burst([a, b, c], 3))); } } }
            let depth = 3;
            let mut idx = vec![0usize; depth];
            for d in 1..=depth {
                for x in idx.iter_mut() { *x = 0; }
                'seqs: loop {
                    if idx[..d].iter().any(|k| *k >= 7) {
                        let ops: Vec<Tok> = (0..d).map(|k| gamma[idx[k]]).collect();
                        v.push(line(I, &ops));
                    }
                    let mut k = d;
                    loop {
                        if k == 0 { break 'seqs; }
                        k -= 1;
                        idx[k] += 1;
                        if idx[k] < gamma.len() { break; }
                        idx[k] = 0;
                    }
                }
            }
            // longer: a burst, then time, then awaits
            for _ in 0..(if tier == Tier::Thorough { 50_000 } else { 1500 }) {
                let mut ops: Vec<Tok> = vec![];
                for _ in 0..rng.usize(2, 10) {
                    ops.push(match rng.below(7) {
                        0 | 1 | 2 => { let n = 2 + rng.below(2) as u8; let mut a = [0u8; 3]; for k in 0..n as usize { a[k] = *rng.pick(&l); } One(Op::Burst(a, n)) }
                        3 => One(Op::Adv(*rng.pick(&[i / 4, i / 2, i, i + 1, 2 * i]))),
                        4 => One(Op::Wait(*rng.pick(&[0, i / 8, i - 1, i, i + i / 8]))),
                        5 => One(Op::Probe),
                        _ => One(*rng.pick(&[Op::Start, Op::Reset, Op::Stop])) });
                }
                v.push(line(I, &ops));
            }
        }
        // (4) interval 0: the spawned task panics in tokio::time::interval(0); the timer "runs" and never ticks
        for _ in 0..(if tier == Tier::Thorough { 5000 } else { 150 }) {
            use Tok::*;
            let len = rng.usize(1, 12);
            let ops: Vec<Tok> = (0..len).map(|_| match rng.below(8) {
                0 | 1 => One(Op::Start), 2 => One(Op::Reset), 3 => One(Op::Stop), 4 => One(Op::Adv(*rng.pick(&[0, 1, 1000, 5000]))),
                5 => One(Op::Probe), 6 => Then(1000, *rng.pick(&[Op::Start, Op::Reset, Op::Stop])), _ => One(Op::Wait(*rng.pick(&[0, 1, 1000, 20000]))) }).collect();
            v.push(line(0, &ops));
        }
        // random longer sequences, arbitrary durations, several intervals; biased towards histories
        // that keep the precondition (await after an advance that makes a tick fall due)
        let n = if tier == Tier::Thorough { 200_000 } else { 3000 };
        for _ in 0..n {
            let i_s = *rng.pick(&[1u64, 3, 8, 30, 90]);
            let i = i_s * 1000;
            let len = rng.usize(6, 60);
            let mut ops: Vec<Tok> = vec![];
            for _ in 0..len {
                use Tok::*;
                let op = match rng.below(20) {
                    0 | 1 => One(Op::Start),
                    2 | 3 => One(Op::Reset),
                    4 => One(Op::Stop),
                    5 | 6 => One(Op::Adv(i / 4)),
                    7 => One(Op::Adv(i)),
                    8 => One(Op::Adv(*rng.pick(&[1, i / 2, i - 1, i + 1, 2 * i, 3 * i]))),
                    9 => One(Op::Adv(rng.range(0, i))),
                    10 | 11 => One(Op::Wait(i + i / 8)),
                    12 => One(Op::Wait(*rng.pick(&[0, 1, i / 8, i / 4, i - 1, i, i + 1, 2 * i]))),
                    13 => One(Op::Wait(rng.range(0, 2 * i))),
                    14 => Then(*rng.pick(&[i, i, i / 2, i - 1, i + 1]), Op::Reset),
                    15 => Then(*rng.pick(&[i, i, i / 4, i + 1]), Op::Stop),
                    16 => Then(*rng.pick(&[i, i, i / 4, i - 1]), Op::Start),
                    17 => One(Op::Probe),
                    _ => { ops.push(One(Op::Adv(*rng.pick(&[i / 4, i / 2, i])))); One(Op::Wait(*rng.pick(&[0, 1, i]))) }
                };
                ops.push(op);
            }
            v.push(line(i_s, &ops));
        }
        v
    }

    fn exec(&self, l: &str) -> String {
        let w: Vec<&str> = l.split(' ').collect();
        match w.as_slice() {
            ["seq", i, ops] => {
                let Ok(i) = i.parse::<u64>() else { return "bad-op".into() };
                if i > 100_000 { return "bad-op".into(); }
                let Some(ops) = parse_ops(ops) else { return "bad-op".into() };
                run_seq(i, &ops)
            }
            _ => "bad-op".into(),
        }
    }

    /// the property, judged on the implementation's observations with the ideal-timer bookkeeping
    fn oracle(&self, l: &str, reply: &str) -> Result<(), String> {
        if reply == "bad-op" { return Ok(()); }
        if reply == "panic" { return Err("timer panics".into()); }
        let w: Vec<&str> = l.split(' ').collect();
        let i: u64 = w[1].parse::<u64>().map_err(|_| "i")? * 1000;
        let ops = parse_ops(w[2]).ok_or("ops")?;
        // `pre` (emitted once, by run_seq's own bookkeeping, before the first operation that breaks the precondition) is
        // compared with the model's marker by the correspondence run; here only its presence is cross-checked at the end
        let marked = reply.split(' ').any(|t| t == "pre");
        let mut toks = reply.split(' ').filter(|t| *t != "-" && *t != "pre");
        let mut id = Ideal::new(i);
        // The precondition ("each tick is awaited before the next one falls due") broke since the timer was last started or
        // stopped: which ticks are outstanding is no longer determined by the property, "no tick earlier than one interval
        // after the last start / reset" is not judged.  A `start` or a `stop` discards everything outstanding (the ideal
        // timer's state is fully determined again): judging resumes there.  "No tick while stopped" and is_running() do
        // not depend on the await discipline and are judged on every history.
        let mut suspended = false;
        let mut ever_suspended = false;
        for (k, op) in ops.iter().enumerate() {
            if !suspended && id.violates(op) { suspended = true; ever_suspended = true; }
            let mut obs = None;
            let mut now_after = id.now;
            if let Op::Probe = op {
                let t = toks.next().ok_or("reply too short")?;
                // Timer::is_running() = a start was called and no stop since (first digit of the probe)
                let r = t.as_bytes().get(1).copied();
                if t.as_bytes().first() == Some(&b'q') && r != Some(if id.running { b'1' } else { b'0' }) {
                    return Err(format!("op {} (q): Timer::is_running() answers {} but the calls made so far leave the timer {}", k,
                        r.map(|c| c as char).unwrap_or('?'), if id.running { "started" } else { "stopped" }));
                }
            }
            if let Op::Wait(_) = op {
                let t = toks.next().ok_or("reply too short")?;
                let (what, at) = t.split_once('@').ok_or("token")?;
                now_after = at.parse().map_err(|_| "time")?;
                if let Some(v) = what.strip_prefix('t') {
                    let v: u64 = v.parse().map_err(|_| "tick value")?;
                    obs = Some(true);
                    if !id.running {
                        return Err(format!("op {} ({}): tick observed at {} ms although the timer was stopped and not started again", k, show_op(op), now_after));
                    }
                    if !suspended {
                        let armed = id.last_start.unwrap_or(0).max(id.last_reset.unwrap_or(0));
                        if now_after < armed + i {
                            return Err(format!("op {} ({}): tick observed at {} ms, earlier than one interval ({} ms) after the last start/reset at {} ms", k, show_op(op), now_after, i, armed));
                        }
                        if v < armed + i {
                            return Err(format!("op {} ({}): observed tick carries the instant {} ms, generated before the last start/reset at {} ms + interval", k, show_op(op), v, armed));
                        }
                    }
                } else { obs = Some(false); }
            } else if let Op::Adv(d) | Op::AdvNs(d) = op { now_after = id.now + d; }
            id.apply(op, obs, now_after);
            // a start / stop (alone or inside a burst of calls) re-arms the judging
            let rearms = match op { Op::Start | Op::Stop => true, Op::Burst(a, n) => a[..*n as usize].iter().any(|c| *c == b's' || *c == b'x'), _ => false };
            if rearms { suspended = false; }
        }
        if marked != ever_suspended {
            return Err(format!("the harness's own marker `pre` ({}) and the oracle's reading of the precondition ({}) differ", marked, ever_suspended));
        }
        Ok(())
    }

    fn nontrivial(&self, _l: &str, reply: &str) -> bool { reply.contains('t') }

    fn class(&self, l: &str, reply: &str) -> String {
        let n_ops = l.split(' ').nth(2).map(|o| if o == "-" { 0 } else { o.split(',').count() }).unwrap_or(0);
        let ticks = reply.split(' ').filter(|t| t.starts_with('t')).count();
        let cut = reply.split(' ').any(|t| t == "pre");
        format!("len{}:ticks{}{}", if n_ops <= 5 { n_ops.to_string() } else if n_ops <= 20 { "6-20".into() } else { "21-60".into() },
            if ticks >= 3 { "3+".to_string() } else { ticks.to_string() }, if l.starts_with("seq 0 ") { ":interval0" } else if cut { ":beyond-precondition" } else { "" })
    }
}
