//! C16: MRT TABLE_DUMP_V2 iteration conserves entries (sequential, per table,
//! parallel under rayon pools of 1..16 threads); BGP4MP message iteration is
//! in order, byte for byte, and truncation-safe.
//!
//! Request grammar (one line, single spaces, bytes as lower-case hex, `-` = empty):
//!   hdr <hex>                       CommonHeader::parse            -> ok <type> <subtype> <length> <remaining> | err | panic
//!   peers <hex>                     MrtFile::pi                    -> ok <n> <peer>.. | err | panic
//!   single <0|1> <hex>              RibEntryHeader::parse(v4|v6) + SingleEntryIterator
//!   rib <hex> <filespec|->          MrtFile::rib_entries           -> ok <n> <item>.. enc=.. | err | panic
//!   tables <hex> <filespec|->       MrtFile::tables + SingleEntryIterator per table
//!   mt <threads|all> <reps> <hex> <filespec|->   MrtFile::rib_entries_mt, SORTED listing
//!   msgs <hex> <recsspec|->         MrtFile::messages          -> ok <n> <item>.. then=<xx> enc=..   (then: two more
//!                                   calls of next() after the first None: n = None, s = Some)
//!   trunc <k> <hex> <recsspec|->    MrtFile::messages on the first k bytes
//!   skip <hex> <recsspec>           MrtFile::messages on a file in which records the iterator passes over
//!                                   (TABLE_DUMP_V2 records, BGP4MP records with an unsupported AFI or a short
//!                                   body) are interleaved with the records of the spec; reply as msgs, enc=na
//! filespec  = <ts>;<collector>;<viewhex>;<peer>|<peer>..;<table>|<table>..
//!   peer    = <bgpid>,<addrhex>,<asn>,<as4:0|1>
//!   table   = <ts>,<seq>,<v6:0|1>,<plen>,<prefixbyteshex>,<entry>+<entry>..
//!   entry   = <peeridx>:<origtime>:<attrhex>
//! recsspec  = <rec>|<rec>..
//!   rec     = <ts>,<et>,<mus>,<kind 0|1|4|5>,<peeras>,<localas>,<ifc>,<v6>,<peerhex>,<localhex>,<old>,<new>,<bgphex>
//! The spec is the content the reference encoder (below, written from RFC 6396,
//! shares nothing with routecore) was given; the oracle derives the expected
//! listing from the spec alone.  `enc=same` says the hex equals the reference
//! encoding of the spec (the Lean side says the same about its `encFile`).
use crate::common::*;
use octseq::Parser;
use rayon::prelude::*;
use routecore::bgp::types::{Afi, AfiSafiType};
use routecore::mrt::*;
use std::net::IpAddr;
use std::sync::OnceLock;

pub struct C16;

// ---------------------------------------------------------------- content

#[derive(Clone, Debug, PartialEq)]
struct PeerS { id: u32, addr: Vec<u8>, asn: u32, as4: bool }
#[derive(Clone, Debug, PartialEq)]
struct EntryS { idx: u16, orig: u32, attrs: Vec<u8> }
#[derive(Clone, Debug, PartialEq)]
struct TableS { ts: u32, seq: u32, v6: bool, plen: u8, pbytes: Vec<u8>, entries: Vec<EntryS> }
#[derive(Clone, Debug, PartialEq)]
struct FileS { ts: u32, collector: u32, view: Vec<u8>, peers: Vec<PeerS>, tables: Vec<TableS> }
#[derive(Clone, Debug, PartialEq)]
struct RecS {
    ts: u32, et: bool, mus: u32, kind: u8, peer_as: u32, local_as: u32, ifc: u16, v6: bool,
    peer: Vec<u8>, local: Vec<u8>, old: u16, new: u16, bgp: Vec<u8>,
}

// ------------------------------------------- reference encoder (RFC 6396)

fn put16(v: &mut Vec<u8>, x: u16) { v.push((x >> 8) as u8); v.push(x as u8); }
fn put32(v: &mut Vec<u8>, x: u32) { put16(v, (x >> 16) as u16); put16(v, x as u16); }

/// RFC 6396 section 2: common header; section 3: extended timestamp header
/// (the length includes the 4-octet microsecond field).
fn ref_record(ts: u32, ty: u16, sub: u16, mus: Option<u32>, body: &[u8]) -> Vec<u8> {
    let mut v = Vec::with_capacity(16 + body.len());
    put32(&mut v, ts);
    put16(&mut v, ty);
    put16(&mut v, sub);
    match mus {
        None => put32(&mut v, body.len() as u32),
        Some(m) => { put32(&mut v, body.len() as u32 + 4); put32(&mut v, m); }
    }
    v.extend_from_slice(body);
    v
}

/// RFC 6396 section 4.3.1 PEER_INDEX_TABLE
fn ref_peer_table(f: &FileS) -> Vec<u8> {
    let mut b = Vec::new();
    put32(&mut b, f.collector);
    put16(&mut b, f.view.len() as u16);
    b.extend_from_slice(&f.view);
    put16(&mut b, f.peers.len() as u16);
    for p in &f.peers {
        let mut t = 0u8;
        if p.addr.len() == 16 { t |= 1; }
        if p.as4 { t |= 2; }
        b.push(t);
        put32(&mut b, p.id);
        b.extend_from_slice(&p.addr);
        if p.as4 { put32(&mut b, p.asn); } else { put16(&mut b, p.asn as u16); }
    }
    b
}

/// RFC 6396 section 4.3.2 RIB_IPV4_UNICAST (2) / RIB_IPV6_UNICAST (4), 4.3.4 RIB entries
fn ref_table(t: &TableS) -> Vec<u8> {
    let mut b = Vec::new();
    put32(&mut b, t.seq);
    b.push(t.plen);
    b.extend_from_slice(&t.pbytes);
    put16(&mut b, t.entries.len() as u16);
    for e in &t.entries {
        put16(&mut b, e.idx);
        put32(&mut b, e.orig);
        put16(&mut b, e.attrs.len() as u16);
        b.extend_from_slice(&e.attrs);
    }
    ref_record(t.ts, 13, if t.v6 { 4 } else { 2 }, None, &b)
}

fn ref_file(f: &FileS) -> Vec<u8> {
    let mut v = ref_record(f.ts, 13, 1, None, &ref_peer_table(f));
    for t in &f.tables { v.extend_from_slice(&ref_table(t)); }
    v
}

/// RFC 6396 section 4.4: BGP4MP_STATE_CHANGE (0), BGP4MP_MESSAGE (1),
/// BGP4MP_MESSAGE_AS4 (4), BGP4MP_STATE_CHANGE_AS4 (5)
fn ref_rec(r: &RecS) -> Vec<u8> {
    let mut b = Vec::new();
    let as4 = r.kind == 4 || r.kind == 5;
    if as4 { put32(&mut b, r.peer_as); put32(&mut b, r.local_as); }
    else { put16(&mut b, r.peer_as as u16); put16(&mut b, r.local_as as u16); }
    put16(&mut b, r.ifc);
    put16(&mut b, if r.v6 { 2 } else { 1 });
    b.extend_from_slice(&r.peer);
    b.extend_from_slice(&r.local);
    if r.kind == 0 || r.kind == 5 { put16(&mut b, r.old); put16(&mut b, r.new); }
    else { b.extend_from_slice(&r.bgp); }
    if r.et { ref_record(r.ts, 17, r.kind as u16, Some(r.mus), &b) }
    else { ref_record(r.ts, 16, r.kind as u16, None, &b) }
}

fn ref_recs(rs: &[RecS]) -> Vec<u8> { rs.iter().flat_map(ref_rec).collect() }

// ------------------------------------------------------------ spec <-> text

fn b01(b: bool) -> &'static str { if b { "1" } else { "0" } }

fn file_text(f: &FileS) -> String {
    let peers: Vec<String> = f.peers.iter().map(|p| format!("{},{},{},{}", p.id, hex(&p.addr), p.asn, b01(p.as4))).collect();
    let tables: Vec<String> = f.tables.iter().map(|t| {
        let es: Vec<String> = t.entries.iter().map(|e| format!("{}:{}:{}", e.idx, e.orig, hex(&e.attrs))).collect();
        format!("{},{},{},{},{},{}", t.ts, t.seq, b01(t.v6), t.plen, hex(&t.pbytes), es.join("+"))
    }).collect();
    format!("{};{};{};{};{}", f.ts, f.collector, hex(&f.view), peers.join("|"), tables.join("|"))
}

fn recs_text(rs: &[RecS]) -> String {
    let v: Vec<String> = rs.iter().map(|r| format!("{},{},{},{},{},{},{},{},{},{},{},{},{}",
        r.ts, b01(r.et), r.mus, r.kind, r.peer_as, r.local_as, r.ifc, b01(r.v6), hex(&r.peer), hex(&r.local),
        r.old, r.new, hex(&r.bgp))).collect();
    v.join("|")
}

fn split_list<'a>(s: &'a str, sep: char) -> Vec<&'a str> { if s.is_empty() { vec![] } else { s.split(sep).collect() } }
fn bit(s: &str) -> Option<bool> { match s { "0" => Some(false), "1" => Some(true), _ => None } }
fn num<T: std::str::FromStr>(s: &str) -> Option<T> {
    if s.is_empty() || !s.bytes().all(|c| c.is_ascii_digit()) { return None; }
    s.parse().ok()
}

fn parse_file(s: &str) -> Option<FileS> {
    let w: Vec<&str> = s.split(';').collect();
    if w.len() != 5 { return None; }
    let mut peers = Vec::new();
    for p in split_list(w[3], '|') {
        let q: Vec<&str> = p.split(',').collect();
        if q.len() != 4 { return None; }
        peers.push(PeerS { id: num(q[0])?, addr: unhex(q[1])?, asn: num(q[2])?, as4: bit(q[3])? });
    }
    let mut tables = Vec::new();
    for t in split_list(w[4], '|') {
        let q: Vec<&str> = t.split(',').collect();
        if q.len() != 6 { return None; }
        let mut entries = Vec::new();
        for e in split_list(q[5], '+') {
            let x: Vec<&str> = e.split(':').collect();
            if x.len() != 3 { return None; }
            entries.push(EntryS { idx: num(x[0])?, orig: num(x[1])?, attrs: unhex(x[2])? });
        }
        tables.push(TableS { ts: num(q[0])?, seq: num(q[1])?, v6: bit(q[2])?, plen: num(q[3])?, pbytes: unhex(q[4])?, entries });
    }
    Some(FileS { ts: num(w[0])?, collector: num(w[1])?, view: unhex(w[2])?, peers, tables })
}

fn parse_recs(s: &str) -> Option<Vec<RecS>> {
    let mut v = Vec::new();
    if s == "-" { return Some(v); }
    for r in split_list(s, '|') {
        let q: Vec<&str> = r.split(',').collect();
        if q.len() != 13 { return None; }
        let kind: u8 = num(q[3])?;
        if ![0, 1, 4, 5].contains(&kind) { return None; }
        v.push(RecS { ts: num(q[0])?, et: bit(q[1])?, mus: num(q[2])?, kind, peer_as: num(q[4])?, local_as: num(q[5])?,
            ifc: num(q[6])?, v6: bit(q[7])?, peer: unhex(q[8])?, local: unhex(q[9])?, old: num(q[10])?, new: num(q[11])?,
            bgp: unhex(q[12])? });
    }
    Some(v)
}

// ----------------------------------------------------- canonical printing

fn listing(items: &[String]) -> String {
    let mut s = format!("ok {}", items.len());
    for i in items { s.push(' '); s.push_str(i); }
    s
}

fn ip_hex(a: &IpAddr) -> String {
    match a { IpAddr::V4(a) => hex(&a.octets()), IpAddr::V6(a) => hex(&a.octets()) }
}

fn prefix_str(p: &inetnum::addr::Prefix) -> String {
    match p.addr() {
        IpAddr::V4(a) => format!("4/{}/{}", p.len(), hex(&a.octets())),
        IpAddr::V6(a) => format!("6/{}/{}", p.len(), hex(&a.octets())),
    }
}

fn peer_str(p: &PeerEntry) -> String {
    format!("{}/{}/{}", hex(&p.bgp_id), ip_hex(&p.addr), p.asn.into_u32())
}

fn fam_str(f: AfiSafiType) -> &'static str {
    match f { AfiSafiType::Ipv4Unicast => "4", AfiSafiType::Ipv6Unicast => "6", _ => "?" }
}

fn peer_at(pi: &PeerIndex, idx: u16) -> String {
    if (idx as usize) < pi.len() { peer_str(&pi[idx as usize]) } else { "nopeer".into() }
}

/// value of `<field>: <number>` at its LAST occurrence in a derive(Debug) string
fn debug_field(d: &str, field: &str) -> Option<usize> {
    let key = format!("{}: ", field);
    let p = d.rfind(&key)? + key.len();
    let rest = &d[p..];
    let e = rest.find(|c: char| !c.is_ascii_digit()).unwrap_or(rest.len());
    rest[..e].parse().ok()
}

fn table_str<O: octseq::Octets>(fam: &str, reh: &RibEntryHeader<'_, O>) -> String
where for<'x> O: std::fmt::Debug {
    let d = format!("{:?}", reh);
    // entry_count has no accessor: first occurrence (before the `entries` parser)
    let key = "entry_count: ";
    let cnt = d.find(key).map(|p| {
        let rest = &d[p + key.len()..];
        let e = rest.find(|c: char| !c.is_ascii_digit()).unwrap_or(rest.len());
        rest[..e].to_string()
    }).unwrap_or_else(|| "?".into());
    format!("T,{},{},{},{}", fam, reh.seq_number(), prefix_str(&reh.prefix()), cnt)
}

const MAX_ITEMS: usize = 200_000;

fn enc_tok(same: Option<bool>) -> &'static str {
    match same { None => " enc=na", Some(true) => " enc=same", Some(false) => " enc=diff" }
}

enum SpecArg<T> { None, Some(T), Bad }

fn file_spec_arg(s: &str) -> SpecArg<FileS> {
    if s == "-" { SpecArg::None } else { match parse_file(s) { Some(f) => SpecArg::Some(f), None => SpecArg::Bad } }
}
fn recs_spec_arg(s: &str) -> SpecArg<Vec<RecS>> {
    if s == "-" { SpecArg::None } else { match parse_recs(s) { Some(f) => SpecArg::Some(f), None => SpecArg::Bad } }
}

// ------------------------------------------------------------ rayon pools

const POOL_SIZES: [usize; 9] = [1, 2, 3, 4, 5, 7, 8, 12, 16];
fn pools() -> &'static Vec<rayon::ThreadPool> {
    static P: OnceLock<Vec<rayon::ThreadPool>> = OnceLock::new();
    P.get_or_init(|| POOL_SIZES.iter().map(|n| rayon::ThreadPoolBuilder::new().num_threads(*n).build().unwrap()).collect())
}

// ------------------------------------------------------------------- exec

fn exec_rib(bytes: &[u8]) -> String {
    let f = MrtFile::new(bytes);
    let it = match f.rib_entries() { Ok(it) => it, Err(_) => return "err".into() };
    let mut items = Vec::new();
    for (fam, idx, peer, pfx, attrs) in it {
        items.push(format!("{},{},{},{},{}", fam_str(fam), idx, peer_str(&peer), prefix_str(&pfx), hex(&attrs)));
        if items.len() > MAX_ITEMS { return "hang".into(); }
    }
    listing(&items)
}

fn exec_tables(bytes: &[u8]) -> String {
    let f = MrtFile::new(bytes);
    let tabs = match f.tables() { Ok(t) => t, Err(_) => return "err".into() };
    let pi = tabs.peer_index.clone();
    let mut items = vec![format!("P,{}", pi.len())];
    for (fam, reh) in tabs {
        items.push(table_str(fam_str(fam), &reh));
        for (pfx, idx, attrs) in SingleEntryIterator::new(reh) {
            items.push(format!("E,{},{},{},{}", prefix_str(&pfx), idx, peer_at(&pi, idx), hex(&attrs)));
            if items.len() > MAX_ITEMS { return "hang".into(); }
        }
    }
    listing(&items)
}

fn exec_single(v6: bool, bytes: &[u8]) -> String {
    let mut parser = Parser::from_ref(&bytes);
    let reh = match RibEntryHeader::parse(&mut parser, if v6 { Afi::Ipv6 } else { Afi::Ipv4 }) {
        Ok(r) => r, Err(_) => return "err".into() };
    let mut items = vec![table_str(if v6 { "6" } else { "4" }, &reh)];
    for (pfx, idx, attrs) in SingleEntryIterator::new(reh) {
        items.push(format!("{},{},{}", prefix_str(&pfx), idx, hex(&attrs)));
        if items.len() > MAX_ITEMS { return "hang".into(); }
    }
    listing(&items)
}

fn exec_mt(threads: &str, reps: usize, bytes: &[u8]) -> String {
    let f = MrtFile::new(bytes);
    let mut first: Option<Vec<String>> = None;
    for (n, pool) in POOL_SIZES.iter().zip(pools().iter()) {
        if threads != "all" && threads != n.to_string() { continue; }
        for _ in 0..reps {
            let mut v: Vec<String> = pool.install(|| {
                f.rib_entries_mt::<&[u8]>().map(|(pfx, idx, attrs)| (pfx, idx, attrs)).collect::<Vec<_>>()
            }).into_iter().map(|(pfx, idx, attrs)| {
                format!("{},{},{}", prefix_str(&pfx), idx, hex(&attrs))
            }).collect();
            v.sort();
            match &first {
                None => first = Some(v),
                Some(w) => if *w != v {
                    return format!("nondeterministic threads={} {} items vs {} items", n, w.len(), v.len());
                }
            }
        }
    }
    // resolve peers through the file's index table (rib_entries_mt yields the index only)
    let pi = f.pi().unwrap();
    let mut items: Vec<String> = first.unwrap_or_default().into_iter().map(|s| {
        // s = <prefix>,<idx>,<attrs>
        let mut p = s.splitn(3, ',');
        let (pfx, idx, attrs) = (p.next().unwrap(), p.next().unwrap(), p.next().unwrap());
        format!("{},{},{},{}", pfx, idx, peer_at(&pi, idx.parse().unwrap()), attrs)
    }).collect();
    items.sort();
    listing(&items)
}

fn msg_str(tag: &str, m: &MessageAs4<'_, &[u8]>, file: &[u8]) -> String {
    // the embedded message is reachable only through `bgp_msg()` (which also
    // validates it as a BGP PDU) and through Debug; take the sub-parser's
    // window from Debug and cut it out of the file ourselves.
    let d = format!("{:?}", m);
    let (pos, len) = (debug_field(&d, "pos").unwrap(), debug_field(&d, "len").unwrap());
    let raw = &file[pos..len];
    let mut s = format!("{},{},{},{},{},{},{},{}", tag, m.peer_asn().into_u32(), m.local_asn().into_u32(), m.interface(),
        u16::from(m.afi()), ip_hex(&m.peer_addr()), ip_hex(&m.local_addr()), hex(raw));
    if let Ok(b) = m.bgp_msg() {
        if b.as_ref() != raw { s.push_str(",BGPMISMATCH"); }
    }
    s
}

fn exec_msgs(bytes: &[u8]) -> String {
    let f = MrtFile::new(bytes);
    let mut items = Vec::new();
    let mut it = f.messages();
    while let Some(m) = it.next() {
        items.push(match m {
            Bgp4Mp::StateChange(sc) => format!("sc,{},{},{},{},{},{},{},{}", sc.peer_asn().into_u32(), sc.local_asn().into_u32(),
                sc.interface(), u16::from(sc.afi()), ip_hex(&sc.peer_addr()), ip_hex(&sc.local_addr()),
                u16::from(sc.old_state()), u16::from(sc.new_state())),
            Bgp4Mp::StateChangeAs4(sc) => format!("sc4,{},{},{},{},{},{},{},{}", sc.peer_asn().into_u32(), sc.local_asn().into_u32(),
                sc.interface(), u16::from(sc.afi()), ip_hex(&sc.peer_addr()), ip_hex(&sc.local_addr()),
                u16::from(sc.old_state()), u16::from(sc.new_state())),
            Bgp4Mp::Message(m) => { let m4: MessageAs4<'_, &[u8]> = m.into(); msg_str("m", &m4, bytes) }
            Bgp4Mp::MessageAs4(m4) => msg_str("m4", &m4, bytes),
        });
        if items.len() > MAX_ITEMS { return "hang".into(); }
    }
    // "it stops": poll twice more after the first None (n = None, s = Some)
    let mut then = String::new();
    for _ in 0..2 { then.push(if it.next().is_some() { 's' } else { 'n' }); }
    format!("{} then={}", listing(&items), then)
}

/// ` proto=ok` / ` proto=<iterator>:<failure>`: common::iter_protocol on the iterators of the request
/// (only called after the plain next() listing of the same octets returned)
fn proto_c16(op: &str, bytes: &[u8]) -> String {
    let mut p = Proto::new();
    if !p.on() { return format!(" {}", p.token()); }
    let f = MrtFile::new(bytes);
    let entry = |(pfx, idx, attrs): &(inetnum::addr::Prefix, u16, Vec<u8>)| format!("{},{},{}", prefix_str(pfx), idx, hex(attrs));
    match op {
        "rib" => if f.rib_entries().is_ok() {
            p.it("rib_entries()", || f.rib_entries().ok().unwrap(),
                |(fam, idx, peer, pfx, attrs)| format!("{},{},{},{},{}", fam_str(*fam), idx, peer_str(peer), prefix_str(pfx), hex(attrs)), MAX_ITEMS);
        },
        "tables" => if f.tables().is_ok() {
            p.it("tables()", || f.tables().ok().unwrap(), |(fam, reh)| table_str(fam_str(*fam), reh), MAX_ITEMS);
            for (i, (_, reh)) in f.tables().ok().unwrap().take(MAX_ITEMS).enumerate() {
                p.it(&format!("SingleEntryIterator(table-{})", i), || SingleEntryIterator::new(reh), entry, MAX_ITEMS);
            }
        },
        "single4" | "single6" => {
            let mut parser = Parser::from_ref(&bytes);
            if let Ok(reh) = RibEntryHeader::parse(&mut parser, if op == "single6" { Afi::Ipv6 } else { Afi::Ipv4 }) {
                p.it("SingleEntryIterator", || SingleEntryIterator::new(reh), entry, MAX_ITEMS);
            }
        }
        _ => p.it("messages()", || f.messages(), |m| match m {
            Bgp4Mp::StateChange(sc) => format!("sc,{},{},{},{}", sc.peer_asn().into_u32(), sc.local_asn().into_u32(), u16::from(sc.old_state()), u16::from(sc.new_state())),
            Bgp4Mp::StateChangeAs4(sc) => format!("sc4,{},{},{},{}", sc.peer_asn().into_u32(), sc.local_asn().into_u32(), u16::from(sc.old_state()), u16::from(sc.new_state())),
            // (Debug holds the header fields and the sub-parser's window into the file)
            Bgp4Mp::Message(m) => format!("m,{:?}", m).replace(' ', ""),
            Bgp4Mp::MessageAs4(m) => format!("m4,{:?}", m).replace(' ', ""),
        }, MAX_ITEMS),
    }
    format!(" {}", p.token())
}

fn exec_hdr(bytes: &[u8]) -> String {
    let mut parser = Parser::from_ref(&bytes);
    match CommonHeader::parse(&mut parser) {
        Err(_) => "err".into(),
        Ok(h) => {
            let sub: u16 = match h.subtype() {
                MessageSubType::TableDumpv2SubType(t) => t.into(),
                MessageSubType::Bgp4MpSubType(t) => t.into(),
            };
            format!("ok {} {} {} {}", u16::from(h.msgtype()), sub, h.length(), parser.remaining())
        }
    }
}

fn exec_peers(bytes: &[u8]) -> String {
    match MrtFile::new(bytes).pi() {
        Err(_) => "err".into(),
        Ok(pi) => { let v: Vec<String> = (0..pi.len()).map(|i| peer_str(&pi[i])).collect(); listing(&v) }
    }
}

// ----------------------------------------------------------------- oracle

fn pad(b: &[u8], n: usize) -> Vec<u8> { let mut v = b.to_vec(); while v.len() < n { v.push(0); } v }
fn spec_prefix(t: &TableS) -> String {
    format!("{}/{}/{}", if t.v6 { 6 } else { 4 }, t.plen, hex(&pad(&t.pbytes, if t.v6 { 16 } else { 4 })))
}
fn spec_peer(p: &PeerS) -> String { format!("{}/{}/{}", hex(&p.id.to_be_bytes()), hex(&p.addr), p.asn) }

/// what a TABLE_DUMP_V2 file with this content denotes, per op
fn expect_file(op: &str, f: &FileS) -> String {
    let mut items = Vec::new();
    match op {
        "rib" => for t in &f.tables { for e in &t.entries {
            items.push(format!("{},{},{},{},{}", if t.v6 { 6 } else { 4 }, e.idx, spec_peer(&f.peers[e.idx as usize]),
                spec_prefix(t), hex(&e.attrs)));
        } },
        "tables" => {
            items.push(format!("P,{}", f.peers.len()));
            for t in &f.tables {
                items.push(format!("T,{},{},{},{}", if t.v6 { 6 } else { 4 }, t.seq, spec_prefix(t), t.entries.len()));
                for e in &t.entries {
                    items.push(format!("E,{},{},{},{}", spec_prefix(t), e.idx, spec_peer(&f.peers[e.idx as usize]), hex(&e.attrs)));
                }
            }
        }
        _ => {
            for t in &f.tables { for e in &t.entries {
                items.push(format!("{},{},{},{}", spec_prefix(t), e.idx, spec_peer(&f.peers[e.idx as usize]), hex(&e.attrs)));
            } }
            items.sort();
        }
    }
    listing(&items) + " enc=same"
}

fn spec_rec(r: &RecS) -> String {
    let afi = if r.v6 { 2 } else { 1 };
    match r.kind {
        0 | 5 => format!("{},{},{},{},{},{},{},{},{}", if r.kind == 5 { "sc4" } else { "sc" }, r.peer_as, r.local_as, r.ifc, afi,
            hex(&r.peer), hex(&r.local), r.old, r.new),
        _ => format!("{},{},{},{},{},{},{},{}", if r.kind == 4 { "m4" } else { "m" }, r.peer_as, r.local_as, r.ifc, afi,
            hex(&r.peer), hex(&r.local), hex(&r.bgp)),
    }
}

/// records wholly inside the first k bytes
fn expect_recs(rs: &[RecS], k: usize) -> String {
    let mut items = Vec::new();
    let mut used = 0usize;
    for r in rs {
        used += ref_rec(r).len();
        if used > k { break; }
        items.push(spec_rec(r));
    }
    listing(&items) + " then=nn enc=same"
}

// -------------------------------------------------------------- generator

fn gen_addr(rng: &mut Rng, v6: bool) -> Vec<u8> {
    match rng.below(8) {
        0 => vec![0; if v6 { 16 } else { 4 }], 1 => vec![0xff; if v6 { 16 } else { 4 }],
        // IPv6 fields holding an IPv4-mapped (::ffff:a.b.c.d) or IPv4-compatible (::a.b.c.d) address stay the 16 octets
        // of the file: a peer is the address family the entry's type bit says (round-5 seed: to_canonical() on parse)
        2 | 3 if v6 => { let mut a = vec![0u8; 10]; a.extend(if rng.bool() { [0xffu8, 0xff] } else { [0u8, 0] }); a.extend(rng.pick(&[vec![10u8, 0, 0, 1], vec![198, 51, 100, 7], vec![0, 0, 0, 1]]).clone()); a }
        _ => rng.bytes(if v6 { 16 } else { 4 }) }
}

fn gen_asn(rng: &mut Rng, as4: bool) -> u32 {
    if as4 { match rng.below(7) { 0 => 0, 1 => 65535, 2 => 65536, 3 => u32::MAX, 4 => 4_200_000_000, _ => rng.u32() } }
    else { match rng.below(5) { 0 => 0, 1 => 65535, 2 => 23456, _ => rng.u16() as u32 } }
}

fn gen_attrs(rng: &mut Rng, max: usize) -> Vec<u8> {
    match rng.below(12) {
        0 => vec![],
        // a plausible attribute block: ORIGIN, AS_PATH(empty), NEXT_HOP
        1 if max >= 18 => vec![0x40, 1, 1, 0, 0x40, 2, 0, 0x40, 3, 4, 192, 0, 2, 1, 0xc0, 8, 0, 0][..18].to_vec(),
        _ => { let n = rng.usize(0, max); rng.bytes(n) }
    }
}

fn gen_prefix(rng: &mut Rng, v6: bool) -> (u8, Vec<u8>) {
    let max = if v6 { 128 } else { 32 };
    let plen = match rng.below(6) { 0 => rng.edgy(max) as u8, 1 => *rng.pick(&[0u8, 1, 7, 8, 9, 24, 31, 32]), _ => rng.range(0, max) as u8 };
    let plen = plen.min(max as u8);
    let nb = (plen as usize + 7) / 8;
    let mut b = rng.bytes(nb);
    if plen % 8 != 0 { let keep = plen % 8; b[nb - 1] &= 0xffu8 << (8 - keep); }
    (plen, b)
}

fn gen_file(rng: &mut Rng, profile: u64) -> FileS {
    let (maxp, maxt, maxe, maxa) = match profile {
        0 => (4, 4, 4, 24),      // small
        1 => (40, 30, 3, 6),     // wide
        2 => (12, 3, 20, 10),    // deep
        3 => (40, 30, 20, 2),    // the full dimensions, tiny attributes
        4 => (3, 2, 2, 300),     // attribute length crossing 255
        6 => (8, 120, 12, 400),  // a large dump: RIB entries well beyond 64 KiB in total
        _ => (10, 8, 6, 16),
    };
    let np = match rng.below(5) { 0 => 1, 1 => maxp, _ => rng.usize(1, maxp) };
    let peers: Vec<PeerS> = (0..np).map(|_| {
        let v6 = rng.bool(); let as4 = rng.bool();
        PeerS { id: rng.u32(), addr: gen_addr(rng, v6), asn: gen_asn(rng, as4), as4 }
    }).collect();
    let nt = if profile == 6 { rng.usize(60, maxt) } else { match rng.below(5) { 0 => 1, 1 => maxt, _ => rng.usize(1, maxt) } };
    let mut seq = if rng.chance(1, 8) { u32::MAX - 3 } else { rng.below(1000) as u32 };
    let tables: Vec<TableS> = (0..nt).map(|_| {
        let v6 = rng.chance(2, 5);
        let (plen, pbytes) = gen_prefix(rng, v6);
        // (a table without entries - Entry Count 0 - is well-formed, RFC 6396 4.3.2: about one table in nine)
        let ne = if profile == 6 { rng.usize(maxe / 2, maxe) } else if rng.chance(1, 9) { 0 } else { match rng.below(5) { 0 => 1, 1 => maxe, _ => rng.usize(1, maxe) } };
        let entries = (0..ne).map(|_| EntryS {
            idx: match rng.below(6) { 0 => 0, 1 => (np - 1) as u16, _ => rng.below(np as u64) as u16 },
            orig: rng.u32(), attrs: gen_attrs(rng, maxa) }).collect();
        seq = seq.wrapping_add(1);
        TableS { ts: rng.u32(), seq, v6, plen, pbytes, entries }
    }).collect();
    let view = match rng.below(4) { 0 => vec![], 1 => b"rrc00".to_vec(), 2 => { let n = rng.usize(1, 20); rng.bytes(n) }, _ => b"v".to_vec() };
    FileS { ts: rng.u32(), collector: rng.u32(), view, peers, tables }
}

fn bgp_keepalive() -> Vec<u8> { let mut v = vec![0xff; 16]; v.extend_from_slice(&[0, 19, 4]); v }
fn bgp_update(rng: &mut Rng) -> Vec<u8> {
    // withdrawn routes only / empty UPDATE (End-of-RIB): valid under every session config
    let mut wd = Vec::new();
    for _ in 0..rng.below(4) { let (l, b) = gen_prefix(rng, false); wd.push(l); wd.extend_from_slice(&b); }
    let mut v = vec![0xff; 16];
    put16(&mut v, (23 + wd.len()) as u16);
    v.push(2);
    put16(&mut v, wd.len() as u16);
    v.extend_from_slice(&wd);
    put16(&mut v, 0);
    v
}
fn bgp_notification(rng: &mut Rng) -> Vec<u8> {
    let mut v = vec![0xff; 16]; v.extend_from_slice(&[0, 21, 3, 6, rng.below(9) as u8]); v
}

fn gen_rec(rng: &mut Rng, small: bool) -> RecS {
    let kind = *rng.pick(&[0u8, 1, 4, 5]);
    let as4 = kind >= 4;
    let v6 = rng.chance(1, 3);
    let state = |rng: &mut Rng| if rng.chance(1, 6) { rng.u16() } else { rng.range(1, 6) as u16 };
    let (old, new, bgp) = if kind == 0 || kind == 5 { (state(rng), state(rng), vec![]) } else {
        (0, 0, match rng.below(if small { 5 } else { 7 }) {
            0 => bgp_keepalive(),
            1 | 2 => bgp_update(rng),
            3 => bgp_notification(rng),
            4 => vec![],
            _ => { let n = rng.usize(1, 60); rng.bytes(n) }     // opaque bytes
        })
    };
    RecS { ts: rng.u32(), et: rng.bool(), mus: if rng.bool() { rng.below(1_000_000) as u32 } else { rng.u32() }, kind,
        peer_as: gen_asn(rng, as4), local_as: gen_asn(rng, as4),
        // (interface 16/17 + a small IPv4 peer address make the body look like a record header:
        //  what a not-really-fused iterator would resume on after a truncation)
        ifc: if rng.chance(1, 4) { *rng.pick(&[16u16, 17]) } else { rng.u16() }, v6,
        peer: if !v6 && rng.chance(1, 3) { vec![0, 0, 0, rng.below(24) as u8] } else { gen_addr(rng, v6) },
        local: gen_addr(rng, v6), old, new, bgp }
}

fn mutate(rng: &mut Rng, b: &[u8]) -> Vec<u8> {
    let mut v = b.to_vec();
    if v.is_empty() { return v; }
    match rng.below(7) {
        0 => { let i = rng.below(v.len() as u64) as usize; v[i] ^= 1 << rng.below(8); }
        1 => { let i = rng.below(v.len() as u64) as usize; v[i] = *rng.pick(&[0u8, 1, 0xff, 0x80]); }
        2 => { let k = rng.below(v.len() as u64) as usize; v.truncate(k); }
        3 => { // edit a length field of the first record
            if v.len() >= 12 { let i = 8 + rng.below(4) as usize; v[i] = *rng.pick(&[0u8, 1, 3, 4, 5, 0xff]); } }
        4 => { // edit the type / subtype of the first record
            if v.len() >= 8 { let i = 4 + rng.below(4) as usize; v[i] = *rng.pick(&[0u8, 1, 2, 3, 4, 5, 6, 7, 12, 13, 16, 17, 33, 49]); } }
        5 => { let i = rng.below(v.len() as u64) as usize; v[i] = v[i].wrapping_add(1); }
        _ => { let n = rng.usize(1, 8); let extra = rng.bytes(n); v.extend_from_slice(&extra); }
    }
    v
}

/// hand-made irregular files (outside the property's envelope: the model must
/// still agree with the code, panics included)
fn irregular(rng: &mut Rng) -> Vec<String> {
    let mut v = Vec::new();
    let mut f = gen_file(rng, 0);
    if f.tables[0].entries.is_empty() { f.tables[0].entries.push(EntryS { idx: 0, orig: 7, attrs: vec![0x40, 1, 1, 0] }); }
    let pit = ref_record(1, 13, 1, None, &ref_peer_table(&f));
    let t0 = ref_table(&f.tables[0]);
    let td = |v: &mut Vec<String>, b: &[u8]| {
        for op in ["rib", "tables"] { v.push(format!("{} {} -", op, hex(b))); }
        v.push(format!("mt all 1 {} -", hex(b)));
        v.push(format!("peers {}", hex(b)));
    };
    // a table with zero entries
    let mut z = f.tables[0].clone(); z.entries.clear();
    td(&mut v, &[pit.clone(), ref_table(&z), t0.clone()].concat());
    // unimplemented TABLE_DUMP_V2 subtypes, and a second PEER_INDEX_TABLE
    for sub in [1u16, 3, 5, 6, 7, 0] {
        let body = &t0[12..];
        td(&mut v, &[pit.clone(), t0.clone(), ref_record(5, 13, sub, None, body)].concat());
    }
    // a BGP4MP record inside a table dump (TableDumpIterator: None; RibEntryIterator: unwrap on None)
    let r = ref_rec(&gen_rec(rng, true));
    td(&mut v, &[pit.clone(), t0.clone(), r.clone(), t0.clone()].concat());
    td(&mut v, &[pit.clone(), r.clone()].concat());
    // peer index out of range
    let mut o = f.tables[0].clone(); o.entries[0].idx = f.peers.len() as u16;
    td(&mut v, &[pit.clone(), ref_table(&o)].concat());
    // peer count field disagrees with the entries present
    let mut body = ref_peer_table(&f);
    let cpos = 4 + 2 + f.view.len();
    body[cpos + 1] = body[cpos + 1].wrapping_add(1);
    td(&mut v, &[ref_record(1, 13, 1, None, &body), t0.clone()].concat());
    // file that does not start with a PEER_INDEX_TABLE / starts with BGP4MP / unsupported type
    td(&mut v, &t0);
    td(&mut v, &r);
    td(&mut v, &ref_record(1, 12, 1, None, &[1, 2, 3]));
    // only the peer table
    td(&mut v, &pit);
    td(&mut v, &[]);
    // prefix with host bits set / over-long prefix length
    let mut h = f.tables[0].clone(); h.v6 = false; h.plen = 7; h.pbytes = vec![0x03];
    td(&mut v, &[pit.clone(), ref_table(&h)].concat());
    h.plen = 33; h.pbytes = vec![1, 2, 3, 4, 5];
    td(&mut v, &[pit.clone(), ref_table(&h)].concat());
    // BGP4MP irregulars
    let rs: Vec<RecS> = (0..3).map(|_| gen_rec(rng, true)).collect();
    let e = |i: usize| ref_rec(&rs[i]);
    let ms = |v: &mut Vec<String>, b: &[u8]| v.push(format!("msgs {} -", hex(b)));
    // unsupported AFI: record skipped
    let mut bad = rs[1].clone(); bad.et = false;
    let mut bb = ref_rec(&bad); let off = 12 + if bad.kind >= 4 { 10 } else { 6 }; bb[off] = 0; bb[off + 1] = 25;
    ms(&mut v, &[e(0), bb.clone(), e(2)].concat());
    // TABLE_DUMP_V2 record between BGP4MP records: skipped
    ms(&mut v, &[e(0), t0.clone(), e(2)].concat());
    // body too short: skipped
    ms(&mut v, &[e(0), ref_record(9, 16, 1, None, &[0, 1, 0, 2, 0]), e(2)].concat());
    ms(&mut v, &[e(0), ref_record(9, 16, 0, None, &bb[12..bb.len().min(12 + 17)]), e(2)].concat());
    // todo!() subtypes
    for sub in [2u16, 3, 6, 7, 8, 65535] { ms(&mut v, &[e(0), ref_record(9, 16, sub, None, &[0; 20]), e(2)].concat()); }
    // unsupported type: header error fuses the iterator
    for ty in [0u16, 11, 12, 32, 33, 48, 49, 18] { ms(&mut v, &[e(0), ref_record(9, ty, 1, None, &[0; 8]), e(2)].concat()); }
    // ET record whose length field is below 4
    for l in 0u8..6 {
        let mut x = vec![0, 0, 0, 9, 0, 17, 0, 1, 0, 0, 0, l];
        x.extend_from_slice(&[0; 8]);
        ms(&mut v, &[e(0), x.clone(), e(2)].concat());
        v.push(format!("hdr {}", hex(&x)));
        v.push(format!("hdr {}", hex(&x[..13])));
    }
    v
}

/// hand-picked well-formed boundary content
fn boundary_files() -> Vec<FileS> {
    let p4 = PeerS { id: 0x0a000001, addr: vec![10, 0, 0, 1], asn: 64512, as4: false };
    let p4b = PeerS { id: 0, addr: vec![0; 4], asn: 0, as4: true };
    let p6 = PeerS { id: u32::MAX, addr: vec![0xff; 16], asn: u32::MAX, as4: true };
    let p6b = PeerS { id: 7, addr: vec![0x20, 1, 0xd, 0xb8, 0, 0, 0, 0, 0, 0, 0, 0, 0, 0, 0, 1], asn: 65535, as4: false };
    let e = |idx: u16, attrs: Vec<u8>| EntryS { idx, orig: 0, attrs };
    let t = |v6: bool, plen: u8, pbytes: Vec<u8>, entries: Vec<EntryS>| TableS { ts: 0, seq: 0, v6, plen, pbytes, entries };
    let f = |peers: Vec<PeerS>, tables: Vec<TableS>| FileS { ts: 0, collector: 0, view: vec![], peers, tables };
    let mut v = vec![
        f(vec![], vec![]),
        f(vec![p4.clone()], vec![]),
        f(vec![p4.clone()], vec![t(false, 0, vec![], vec![e(0, vec![])])]),
        f(vec![p6.clone()], vec![t(true, 0, vec![], vec![e(0, vec![])])]),
        f(vec![p4.clone(), p6.clone(), p4b.clone(), p6b.clone()], vec![
            t(false, 32, vec![255, 255, 255, 255], vec![e(3, vec![1]), e(0, vec![]), e(2, vec![2, 3])]),
            t(true, 128, vec![0xff; 16], vec![e(1, vec![])]),
            t(false, 1, vec![0x80], vec![e(0, vec![0; 255])]),
            t(true, 1, vec![0x80], vec![e(1, vec![0; 256]), e(1, vec![9; 600])]),
            t(false, 8, vec![10], vec![e(2, vec![])]),
            t(false, 9, vec![10, 0x80], vec![e(3, vec![])]),
            t(true, 127, { let mut b = vec![0xff; 16]; b[15] = 0xfe; b }, vec![e(0, vec![]), e(0, vec![])]),
            t(true, 64, vec![0x20, 1, 0xd, 0xb8, 0, 0, 0, 1], vec![e(3, vec![0x40, 1, 1, 0])]),
        ]),
    ];
    // tables without entries (Entry Count 0): the only table, all tables, first, last, consecutive, between
    let z4 = || t(false, 24, vec![192, 0, 2], vec![]);
    let z6 = || t(true, 0, vec![], vec![]);
    let n4 = || t(false, 8, vec![10], vec![e(0, vec![1, 2, 3]), e(1, vec![])]);
    let n6 = || t(true, 16, vec![0x20, 1], vec![e(1, vec![4])]);
    v.push(f(vec![p4.clone()], vec![z4()]));
    v.push(f(vec![], vec![z6(), z4(), z6()]));
    v.push(f(vec![p4.clone(), p6.clone()], vec![z4(), n4()]));
    v.push(f(vec![p4.clone(), p6.clone()], vec![n4(), z6()]));
    v.push(f(vec![p4.clone(), p6.clone()], vec![z6(), z4(), n6(), z4(), z4(), z6(), n4(), n6(), z6(), z6()]));
    // 40 peers of all four kinds, one table whose 20 entries walk the index from the top
    let peers: Vec<PeerS> = (0..40u32).map(|i| {
        let v6 = i % 2 == 1; let as4 = (i / 2) % 2 == 1;
        PeerS { id: i, addr: if v6 { vec![i as u8; 16] } else { vec![i as u8; 4] }, asn: if as4 { 70000 + i } else { i }, as4 }
    }).collect();
    let tables: Vec<TableS> = (0..30u32).map(|k| TableS { ts: k, seq: u32::MAX - k, v6: k % 3 == 0, plen: 16, pbytes: vec![k as u8, 1],
        entries: (0..if k == 0 { 20 } else { 1 + k as u16 % 3 }).map(|j| EntryS { idx: 39 - (j + k as u16) % 40, orig: u32::MAX, attrs: vec![j as u8; (j % 3) as usize] }).collect() }).collect();
    v.push(FileS { ts: u32::MAX, collector: u32::MAX, view: (0..40).collect(), peers, tables });
    // 300 peers: Peer Count and peer indices with a non-zero high octet (256, 257, 299), view name of 300 octets
    let peers: Vec<PeerS> = (0..300u32).map(|i| PeerS { id: 0x0a000000 + i, addr: vec![10, 0, (i >> 8) as u8, i as u8], asn: 64000 + i, as4: i % 2 == 0 }).collect();
    let tables = vec![
        t(false, 16, vec![10, 1], vec![e(256, vec![1]), e(0, vec![2]), e(299, vec![3]), e(255, vec![]), e(257, vec![4, 5])]),
        t(true, 8, vec![0x20], vec![e(298, vec![])]),
    ];
    v.push(FileS { ts: 1, collector: 2, view: vec![0x61; 300], peers, tables });
    v
}

fn boundary_recs() -> Vec<Vec<RecS>> {
    let mut all = Vec::new();
    let mut one = Vec::new();
    for kind in [0u8, 1, 4, 5] { for v6 in [false, true] { for et in [false, true] {
        let as4 = kind >= 4;
        let n = if v6 { 16 } else { 4 };
        let r = RecS { ts: if et { u32::MAX } else { 0 }, et, mus: if v6 { 999_999 } else { 0 }, kind,
            peer_as: if as4 { u32::MAX } else { 65535 }, local_as: 0, ifc: if et { 65535 } else { 0 }, v6,
            peer: vec![0xfe; n], local: vec![1; n],
            old: if kind == 0 || kind == 5 { 65535 } else { 0 }, new: if kind == 0 || kind == 5 { 6 } else { 0 },
            bgp: if kind == 1 { vec![] } else if kind == 4 { bgp_keepalive() } else { vec![] } };
        one.push(vec![r.clone()]);
        all.push(r);
    } } }
    one.push(all);
    one
}

fn push_file_ops(v: &mut Vec<String>, f: &FileS, reps: usize) {
    let h = hex(&ref_file(f));
    let s = file_text(f);
    v.push(format!("rib {} {}", h, s));
    v.push(format!("tables {} {}", h, s));
    v.push(format!("mt all {} {} {}", reps, h, s));
}

impl Prop for C16 {
    fn gen(&self, rng: &mut Rng, tier: Tier) -> Vec<String> {
        let mut v = Vec::new();
        let (nfiles, nrecs, ntrunc, nmal, reps) = match tier {
            Tier::Quick => (160, 150, 24, 250, 3),
            Tier::Thorough => (4000, 4000, 400, 8000, 20),
        };
        // ---- boundary content
        for f in boundary_files() {
            push_file_ops(&mut v, &f, reps);
            for th in POOL_SIZES { v.push(format!("mt {} {} {} {}", th, reps, hex(&ref_file(&f)), file_text(&f))); }
        }
        for rs in boundary_recs() {
            let b = ref_recs(&rs);
            v.push(format!("msgs {} {}", hex(&b), recs_text(&rs)));
            if rs.len() == 1 { for k in 0..=b.len() { v.push(format!("trunc {} {} {}", k, hex(&b), recs_text(&rs))); } }
        }
        // ---- TABLE_DUMP_V2 files
        for i in 0..nfiles {
            let profile = match i % 16 { 0..=6 => 0, 7..=9 => 5, 10 | 11 => 1, 12 | 13 => 2, 14 => 4, _ => if i % 64 == 15 { 3 } else { 5 } };
            let f = gen_file(rng, profile);
            push_file_ops(&mut v, &f, reps);
            if i % 8 == 0 {
                // single pools, and every table on its own
                for th in POOL_SIZES { v.push(format!("mt {} {} {} {}", th, reps, hex(&ref_file(&f)), file_text(&f))); }
                for t in f.tables.iter().take(3) { v.push(format!("single {} {}", b01(t.v6), hex(&ref_table(t)[12..]))); }
                v.push(format!("peers {}", hex(&ref_file(&f))));
            }
        }
        // ---- large dumps (hundreds of KiB of RIB entries), and one table that is larger than 64 KiB by
        //      itself followed by small ones
        for i in 0..(if tier == Tier::Thorough { 24 } else { 3 }) {
            let mut f = gen_file(rng, 6);
            if i % 3 == 2 {
                f.tables.truncate(6);
                let np = f.peers.len();
                f.tables[1].entries = (0..300).map(|_| EntryS { idx: rng.below(np as u64) as u16, orig: rng.u32(), attrs: rng.bytes(250) }).collect();
            }
            push_file_ops(&mut v, &f, 1);
        }
        // ---- BGP4MP files
        for i in 0..nrecs {
            let n = match i % 5 { 0 => 1, 1 => rng.usize(1, 3), _ => rng.usize(1, 14) };
            let rs: Vec<RecS> = (0..n).map(|_| gen_rec(rng, false)).collect();
            let b = ref_recs(&rs);
            v.push(format!("msgs {} {}", hex(&b), recs_text(&rs)));
            // sampled truncation points: around every record boundary + random
            let mut ks = Vec::new();
            let mut off = 0usize;
            for r in &rs { let l = ref_rec(r).len(); for d in [0usize, 1, 11, 12, 13, 16] { if off + d < b.len() { ks.push(off + d); } } off += l; if off >= 1 { ks.push(off - 1); } }
            for _ in 0..4 { ks.push(rng.below(b.len() as u64 + 1) as usize); }
            ks.sort(); ks.dedup();
            if i % 3 == 0 { for k in ks { v.push(format!("trunc {} {} {}", k, hex(&b), recs_text(&rs))); } }
        }
        // ---- records the iterator passes over, interleaved with well-formed records
        for i in 0..(nrecs / 3) {
            let rs: Vec<RecS> = (0..rng.usize(0, 6)).map(|_| gen_rec(rng, i % 2 == 0)).collect();
            let mut b = Vec::new();
            let mut filler = |rng: &mut Rng, b: &mut Vec<u8>| {
                for _ in 0..rng.below(3) {
                    match rng.below(6) {
                        0 => { let f = gen_file(rng, 0); b.extend_from_slice(&ref_table(&f.tables[0])); }
                        1 => { let f = gen_file(rng, 0); b.extend_from_slice(&ref_record(rng.u32(), 13, 1, None, &ref_peer_table(&f))); }
                        2 => { let n = rng.usize(0, 30); let body = rng.bytes(n); b.extend_from_slice(&ref_record(rng.u32(), 13, rng.u16(), None, &body)); }
                        3 | 4 => { // a well-formed record whose AFI field is overwritten with an unsupported value
                            let mut r = gen_rec(rng, true); r.et = rng.bool();
                            let mut x = ref_rec(&r);
                            let off = if r.et { 16 } else { 12 } + if r.kind >= 4 { 10 } else { 6 };
                            let afi = *rng.pick(&[0u16, 3, 25, 65535]);
                            x[off] = (afi >> 8) as u8; x[off + 1] = afi as u8;
                            b.extend_from_slice(&x);
                        }
                        _ => { // body shorter than the peering fields
                            let kind = *rng.pick(&[0u16, 1, 4, 5]);
                            let n = rng.usize(0, 15); let mut body = rng.bytes(n);
                            if body.len() >= 8 { body[6] = 0; body[7] = 1; } // AFI (2-octet-AS layout) = IPv4
                            if body.len() >= 12 { body[10] = 0; body[11] = 1; } // AFI (4-octet-AS layout)
                            b.extend_from_slice(&ref_record(rng.u32(), 16, kind, None, &body));
                        }
                    }
                }
            };
            for r in &rs { filler(rng, &mut b); b.extend_from_slice(&ref_rec(r)); }
            filler(rng, &mut b);
            v.push(format!("skip {} {}", hex(&b), if rs.is_empty() { "-".to_string() } else { recs_text(&rs) }));
        }
        // ---- every truncation point of small files
        for i in 0..ntrunc {
            let n = 1 + i % 4;
            let rs: Vec<RecS> = (0..n).map(|_| gen_rec(rng, true)).collect();
            let b = ref_recs(&rs);
            let (h, s) = (hex(&b), recs_text(&rs));
            for k in 0..=b.len() { v.push(format!("trunc {} {} {}", k, h, s)); }
        }
        // ---- irregular and malformed input (model <-> code only)
        for _ in 0..(nmal / 60).max(2) { v.extend(irregular(rng)); }
        for i in 0..nmal {
            if i % 2 == 0 {
                let f = gen_file(rng, 0);
                let mut b = ref_file(&f);
                for _ in 0..rng.usize(1, 2) { b = mutate(rng, &b); }
                let h = hex(&b);
                match i % 8 { 0 => v.push(format!("rib {} -", h)), 2 => v.push(format!("tables {} -", h)),
                    4 => v.push(format!("mt all 1 {} -", h)), _ => { v.push(format!("peers {}", h)); v.push(format!("rib {} -", h)); } }
                let t = &f.tables[0];
                let tb = mutate(rng, &ref_table(t)[12..]);
                v.push(format!("single {} {}", b01(t.v6), hex(&tb)));
            } else {
                let rs: Vec<RecS> = (0..rng.usize(1, 4)).map(|_| gen_rec(rng, true)).collect();
                let mut b = ref_recs(&rs);
                for _ in 0..rng.usize(1, 2) { b = mutate(rng, &b); }
                v.push(format!("msgs {} -", hex(&b)));
                v.push(format!("hdr {}", hex(&mutate(rng, &ref_rec(&rs[0])))));
            }
        }
        // ---- attribute blocks of every length class the two-octet Attribute Length field can announce, far above
        //      the 4096 octets of a BGP message: at 4095 / 4096 / 4097, tens of thousands of octets, 65534 / 65535;
        //      random octets, and real attribute sections (C01's reference encoder: an AS_PATH of hundreds of
        //      segments, community attributes of thousands of records, MP attributes above 4096 octets).
        //      (At the end of the stream, so that the requests before it are what they were.)
        {
            let attr_section = |rng: &mut Rng, kind: usize, target: usize| -> Vec<u8> {
                let (cfg, c) = crate::props::c01::gen_big(rng, kind, target, false);
                let m = crate::props::c01::ref_encode(&cfg, &c);
                let wl = u16::from_be_bytes([m[19], m[20]]) as usize;
                let ao = 21 + wl;
                let al = u16::from_be_bytes([m[ao], m[ao + 1]]) as usize;
                m[ao + 2..ao + 2 + al].to_vec()
            };
            let plans: [Vec<Vec<usize>>; 3] = [vec![vec![4095, 4096, 4097], vec![0, 255, 256]], vec![vec![65535], vec![65534, 0, 1]], vec![vec![40000, 65535], vec![]]];
            for (i, plan) in plans.iter().enumerate() {
                let mut f = gen_file(rng, 0);
                let np = f.peers.len();
                f.tables.truncate(1);
                for (j, lens) in plan.iter().enumerate() {
                    let (plen, pbytes) = gen_prefix(rng, j % 2 == 1);
                    let mut entries: Vec<EntryS> = lens.iter().map(|n| EntryS { idx: rng.below(np as u64) as u16, orig: rng.u32(), attrs: rng.bytes(*n) }).collect();
                    // a real attribute section next to the random blocks
                    let a = attr_section(rng, [3usize, 2, 4][i], [9000usize, 30000, 65000][i]);
                    if a.len() <= 65535 { entries.push(EntryS { idx: 0, orig: 1, attrs: a }); }
                    f.tables.push(TableS { ts: rng.u32(), seq: 100 + j as u32, v6: j % 2 == 1, plen, pbytes, entries });
                }
                push_file_ops(&mut v, &f, 1);
                for t in f.tables.iter().skip(1) { v.push(format!("single {} {}", b01(t.v6), hex(&ref_table(t)[12..]))); }
            }
        }
        v
    }

    fn exec(&self, line: &str) -> String {
        let w: Vec<&str> = line.split(' ').collect();
        match w.as_slice() {
            ["hdr", h] => match unhex(h) { Some(b) => exec_hdr(&b), None => "bad-op".into() },
            ["peers", h] => match unhex(h) { Some(b) => exec_peers(&b), None => "bad-op".into() },
            ["single", fam, h] => match (bit(fam), unhex(h)) { (Some(v6), Some(b)) => { let r = exec_single(v6, &b); if r.starts_with("ok") { r + &proto_c16(if v6 { "single6" } else { "single4" }, &b) } else { r } }, _ => "bad-op".into() },
            [op @ ("rib" | "tables"), h, spec] => {
                let b = match unhex(h) { Some(b) => b, None => return "bad-op".into() };
                let same = match file_spec_arg(spec) { SpecArg::Bad => return "bad-op".into(), SpecArg::None => None,
                    SpecArg::Some(f) => Some(ref_file(&f) == b) };
                let r = if *op == "rib" { exec_rib(&b) } else { exec_tables(&b) };
                if r.starts_with("ok") { r + enc_tok(same) + &proto_c16(op, &b) } else { r }
            }
            ["mt", th, reps, h, spec] => {
                let reps: usize = match num(reps) { Some(r) if (1..=50).contains(&r) => r, _ => return "bad-op".into() };
                if *th != "all" && !POOL_SIZES.iter().any(|n| n.to_string() == *th) { return "bad-op".into(); }
                let b = match unhex(h) { Some(b) => b, None => return "bad-op".into() };
                let same = match file_spec_arg(spec) { SpecArg::Bad => return "bad-op".into(), SpecArg::None => None,
                    SpecArg::Some(f) => Some(ref_file(&f) == b) };
                let r = exec_mt(th, reps, &b);
                if r.starts_with("ok") { r + enc_tok(same) } else { r }
            }
            ["msgs", h, spec] => {
                let b = match unhex(h) { Some(b) => b, None => return "bad-op".into() };
                let same = match recs_spec_arg(spec) { SpecArg::Bad => return "bad-op".into(), SpecArg::None => None,
                    SpecArg::Some(rs) => Some(ref_recs(&rs) == b) };
                let r = exec_msgs(&b);
                if r.starts_with("ok") { r + enc_tok(same) + &proto_c16("msgs", &b) } else { r }
            }
            ["skip", h, spec] => {
                let b = match unhex(h) { Some(b) => b, None => return "bad-op".into() };
                if parse_recs(spec).is_none() { return "bad-op".into(); }
                let r = exec_msgs(&b);
                if r.starts_with("ok") { r + enc_tok(None) + &proto_c16("msgs", &b) } else { r }
            }
            ["trunc", k, h, spec] => {
                let b = match unhex(h) { Some(b) => b, None => return "bad-op".into() };
                let k: usize = match num(k) { Some(k) if k <= b.len() => k, _ => return "bad-op".into() };
                let same = match recs_spec_arg(spec) { SpecArg::Bad => return "bad-op".into(), SpecArg::None => None,
                    SpecArg::Some(rs) => Some(ref_recs(&rs) == b) };
                let r = exec_msgs(&b[..k]);
                if r.starts_with("ok") { r + enc_tok(same) + &proto_c16("msgs", &b[..k]) } else { r }
            }
            _ => "bad-op".into(),
        }
    }

    /// the property, judged from the content the reference encoder was given
    fn oracle(&self, line: &str, reply: &str) -> Result<(), String> {
        let w: Vec<&str> = line.split(' ').collect();
        // the iterator-protocol verdict (last token): judged where the property speaks (lines that carry their
        // content description); on irregular / mutated input the line diff against the model's constant remains
        if w.last() != Some(&"-") && w[0] != "single" { proto_judge(reply)?; }
        let reply = reply.strip_suffix(" proto=ok").unwrap_or(reply);
        if reply.starts_with("nondeterministic") { return Err(format!("parallel iterator: {}", reply)); }
        if let ["skip", _, spec] = w.as_slice() {
            let rs = parse_recs(spec).ok_or("unparsable spec")?;
            let items: Vec<String> = rs.iter().map(spec_rec).collect();
            let expected = listing(&items) + " then=nn enc=na";
            return if reply == expected { Ok(()) } else {
                Err(format!("messages() on a file with interleaved skippable records: got `{}` expected `{}`",
                    &reply[..reply.len().min(300)], &expected[..expected.len().min(300)])) };
        }
        // "it stops": demanded of well-formed files and their truncations (lines that carry their content
        // description); on irregular / mutated input (spec `-`) the property is silent
        if matches!(w[0], "msgs" | "trunc") && w.last() != Some(&"-") && reply.starts_with("ok") && !reply.contains(" then=nn") {
            return Err("messages(): the iterator yields again after it returned None (it is not fused)".into());
        }
        if reply.contains("BGPMISMATCH") { return Err("bgp_msg() returns other bytes than the record holds".into()); }
        let (op, h, spec, k) = match w.as_slice() {
            [op @ ("rib" | "tables"), h, spec] => (*op, *h, *spec, None),
            ["mt", _, _, h, spec] => ("mt", *h, *spec, None),
            ["msgs", h, spec] => ("msgs", *h, *spec, None),
            ["trunc", k, h, spec] => ("trunc", *h, *spec, num::<usize>(k)),
            _ => return Ok(()),
        };
        if spec == "-" || reply == "bad-op" { return Ok(()); }
        let bytes = unhex(h).ok_or("bad hex")?;
        let expected = match op {
            "rib" | "tables" | "mt" => {
                let f = parse_file(spec).ok_or("unparsable spec")?;
                if ref_file(&f) != bytes { return Ok(()); }   // not the encoding of its spec: no claim
                if f.tables.iter().any(|t| t.entries.iter().any(|e| e.idx as usize >= f.peers.len())) {
                    return Ok(());                          // a peer index outside the file's index table: not well-formed
                }
                expect_file(op, &f)
            }
            _ => {
                let rs = parse_recs(spec).ok_or("unparsable spec")?;
                if ref_recs(&rs) != bytes { return Ok(()); }
                expect_recs(&rs, k.unwrap_or(bytes.len()))
            }
        };
        if reply == expected { return Ok(()); }
        if op == "tables" {
            // the property speaks about the ENTRIES the per-table iterators yield: whether a table without
            // entries appears as an (empty) item of tables() is left open
            let strip = |s: &str| -> String {
                let w: Vec<&str> = s.split(' ').collect();
                if w.len() < 2 || w[0] != "ok" { return s.to_string(); }
                let items: Vec<&str> = w[2..].iter().copied().filter(|t| !(t.starts_with("T,") && t.ends_with(",0"))).collect();
                let n = items.iter().filter(|t| !t.starts_with("enc=")).count();
                format!("ok {} {}", n, items.join(" "))
            };
            if strip(reply) == strip(&expected) { return Ok(()); }
        }
        let what = match op {
            "rib" => "rib_entries() does not yield the file's entries",
            "tables" => "tables() + SingleEntryIterator do not yield the file's tables/entries",
            "mt" => "rib_entries_mt() is not the multiset of the file's entries",
            "msgs" => "messages() does not yield the records in order, byte for byte",
            _ => "messages() on truncated input: not exactly the complete records / panic",
        };
        let rw: Vec<&str> = reply.split(' ').collect();
        let ew: Vec<&str> = expected.split(' ').collect();
        let at = rw.iter().zip(ew.iter()).position(|(a, b)| a != b).unwrap_or(rw.len().min(ew.len()));
        Err(format!("{}: reply has {} tokens, expected {}; first difference at token {}: got `{}` expected `{}`", what,
            rw.len(), ew.len(), at, rw.get(at).unwrap_or(&"<end>"), ew.get(at).unwrap_or(&"<end>")))
    }

    fn nontrivial(&self, _line: &str, reply: &str) -> bool {
        reply.starts_with("ok ") && !reply.starts_with("ok 0")
    }

    fn class(&self, line: &str, reply: &str) -> String {
        let w: Vec<&str> = line.split(' ').collect();
        let op = w[0];
        let r = reply.split(' ').next().unwrap_or("");
        let spec = w.last().map(|s| *s != "-" && w.len() > 2 && op != "single").unwrap_or(false);
        if op == "skip" {
            let n = w.get(2).map(|s| split_list(if *s == "-" { "" } else { s }, '|').len()).unwrap_or(0);
            return format!("skip:{}:interleaved:bgp4mp-records={}", r, match n { 0 => "0", 1 => "1", _ => "2+" });
        }
        let extra = match (op, r) {
            ("mt", "ok") => format!(":threads={}", w.get(1).unwrap_or(&"?")),
            ("rib", "ok") if spec => {
                // content classes of the file: peers (count; address families; AS widths), tables, entries
                let f: Vec<&str> = w[2].split(';').collect();
                let peers = split_list(f.get(3).unwrap_or(&""), '|');
                let tables = split_list(f.get(4).unwrap_or(&""), '|');
                let b = |n: usize| match n { 0 => "0", 1 => "1", 2..=9 => "2-9", 10..=29 => "10-29", _ => "30+" };
                let v6 = peers.iter().filter(|p| p.split(',').nth(1).map(|a| a.len() == 32).unwrap_or(false)).count();
                let as4 = peers.iter().filter(|p| p.ends_with(",1")).count();
                let n: usize = reply.split(' ').nth(1).and_then(|x| x.parse().ok()).unwrap_or(0);
                format!(":peers={}{}{}:tables={}:entries={}", b(peers.len()),
                    if v6 > 0 && v6 < peers.len() { "(v4+v6)" } else if v6 > 0 { "(v6)" } else { "(v4)" },
                    if as4 > 0 && as4 < peers.len() { "(as2+as4)" } else if as4 > 0 { "(as4)" } else { "(as2)" },
                    b(tables.len()), match n { 0 => "0", 1..=9 => "1-9", 10..=99 => "10-99", _ => "100+" })
            }
            ("msgs", "ok") if spec => {
                // record kinds present: s = STATE_CHANGE, m = MESSAGE, M = MESSAGE_AS4, S = STATE_CHANGE_AS4, e = any _ET
                let recs = split_list(w[2], '|');
                let mut k = String::new();
                for (c, kind) in [('s', "0"), ('m', "1"), ('M', "4"), ('S', "5")] {
                    if recs.iter().any(|r| r.split(',').nth(3) == Some(kind)) { k.push(c); }
                }
                if recs.iter().any(|r| r.split(',').nth(1) == Some("1")) { k.push('e'); }
                format!(":records={}:kinds={}", match recs.len() { 0 => "0", 1 => "1", 2..=9 => "2-9", _ => "10+" }, k)
            }
            ("rib", "ok") | ("tables", "ok") | ("msgs", "ok") => {
                let n: usize = reply.split(' ').nth(1).and_then(|x| x.parse().ok()).unwrap_or(0);
                format!(":items={}", match n { 0 => "0", 1..=9 => "1-9", 10..=99 => "10-99", _ => "100+" })
            }
            ("trunc", "ok") => {
                let full = w.get(1) == Some(&(w.get(2).map(|h| h.len() / 2).unwrap_or(0).to_string().as_str()));
                format!(":{}", if full { "whole" } else { "cut" })
            }
            _ => String::new(),
        };
        format!("{}:{}{}{}", op, r, if spec { ":wf" } else { ":irregular" }, extra)
    }

    fn watchdog_s(&self) -> u64 { 20 }
}
