//! C03: OPEN / NOTIFICATION / KEEPALIVE / ROUTE-REFRESH decode faithfully and
//! totally; builders round-trip; header-length mismatch is rejected.
//!
//! Request lines
//!   open  <hex>      OpenMessage::from_octets + every accessor (each caught separately)
//!   notif <hex>      NotificationMessage::from_octets + code/details/data
//!   ka    <hex>      KeepaliveMessage::from_octets
//!   rr    <hex>      RouteRefreshMessage::from_octets
//!   msg   <hex>      Message::from_octets(.., None)
//!   bopen <asn> <holdtime> <idhex> <four|-> <mp|-> <ap|-> <caps|->   OpenBuilder
//!   bopent <n> <the eight arguments of bopen>                        OpenBuilder::from_target on a Vec that already holds n octets
//!   bnotif <code> <sub> <datahex|none>                              NotificationBuilder
//!   bnotifn <code> <sub> <n> <fill>                                 .. with n bytes of `fill`
//!   bka                                                             KeepaliveBuilder
//!
//! The oracle uses `refdec` below: a strict decoder written from RFC 4271 /
//! 5492 / 2918 and the documents defining the capabilities (`ref_cap_wf`, the same forms as the
//! Lean predicate `RfcCap` in Rc/Lemmas/OpenRfc.lean), sharing no code with routecore.
use crate::common::*;
use routecore::bgp::message::keepalive::KeepaliveBuilder;
use routecore::bgp::message::notification::{Details, NotificationBuilder};
use routecore::bgp::message::open::{Capability, OpenBuilder};
use routecore::bgp::message::{
    KeepaliveMessage, Message, NotificationMessage, OpenMessage, RouteRefreshMessage,
};
use routecore::bgp::types::{AddpathDirection, AfiSafiType};

pub struct C03;

const MARKER: [u8; 16] = [0xff; 16];

// ---------------------------------------------------------------------------
// exec: the real code
// ---------------------------------------------------------------------------

fn acc<F: FnOnce() -> String>(f: F) -> String {
    let r = catch(f);
    if r == "panic" { "P".into() } else { r }
}

fn join<T: ToString>(v: impl Iterator<Item = T>) -> String {
    let s: Vec<String> = v.map(|x| x.to_string()).collect();
    if s.is_empty() { "-".into() } else { s.join(",") }
}

pub fn exec_open(bs: Vec<u8>) -> String {
    let m = match OpenMessage::from_octets(bs) {
        Ok(m) => m,
        Err(_) => return "err".into(),
    };
    let m = &m;
    let len = acc(|| m.length().to_string());
    let ver = acc(|| m.version().to_string());
    let asn = acc(|| m.my_asn().into_u32().to_string());
    let ht = acc(|| m.holdtime().to_string());
    let id = acc(|| hex(m.identifier()));
    let opl = acc(|| m.opt_parm_len().to_string());
    let params = acc(|| join(m.parameters().take(1000).map(|p| u8::from(p.typ()))));
    let caps = acc(|| join(m.capabilities().take(1000).map(|c| format!("{}:{}", u8::from(c.typ()), hex(c.value())))));
    let four = acc(|| (m.four_octet_capable() as u8).to_string());
    let mp = acc(|| join(m.multiprotocol_ids().take(1000).map(|f| { let (a, s): (u16, u8) = f.into(); format!("{}/{}", a, s) })));
    let ap = acc(|| match m.addpath_families_vec() {
        Ok(v) => join(v.into_iter().map(|(f, d)| { let (a, s): (u16, u8) = f.into(); format!("{}/{}/{}", a, s, u8::from(d)) })),
        Err(_) => "E".into(),
    });
    // only presence (and absence of a panic): the property does not speak about this accessor's value
    let sw = acc(|| match m.get_software_version() { None => "none".into(), Some(_) => "some".into() });
    format!("ok len={} ver={} asn={} ht={} id={} opl={} params={} caps={} four={} mp={} ap={} sw={}",
        len, ver, asn, ht, id, opl, params, caps, four, mp, ap, sw)
}

/// common::iter_protocol on the iterators of an OPEN: parameters(), capabilities() (a flat_map over the
/// private CapabilitiesIter of every capabilities parameter), multiprotocol_ids() (`*_ok`: the plain listing
/// of that iterator returned)
pub(crate) fn proto_of_open<O: octseq::Octets>(p: &mut Proto, name: &str, m: &OpenMessage<O>, params_ok: bool, caps_ok: bool, mp_ok: bool) {
    if params_ok {
        p.it(&format!("{}parameters()", name), || m.parameters(), |x| u8::from(x.typ()).to_string(), 1000);
    }
    if caps_ok {
        p.it(&format!("{}capabilities()", name), || m.capabilities(), |c| format!("{}:{}", u8::from(c.typ()), hex(c.value())), 1000);
    }
    if mp_ok {
        p.it(&format!("{}multiprotocol_ids()", name), || m.multiprotocol_ids(), |f| { let (a, s): (u16, u8) = (*f).into(); format!("{}/{}", a, s) }, 1000);
    }
}

/// ` proto=..` for an accepted OPEN whose plain reply is `r`
fn proto_of_open_reply(bs: &[u8], r: &str) -> String {
    let mut p = Proto::new();
    if p.on() {
        if let Ok(m) = OpenMessage::from_octets(bs) {
            let ok = |k: &str| r.split(' ').find_map(|f| f.strip_prefix(k)).map(|v| v != "P").unwrap_or(false);
            proto_of_open(&mut p, "", &m, ok("params="), ok("caps="), ok("mp="));
        }
    }
    format!(" {}", p.token())
}

fn exec_notif(bs: Vec<u8>) -> String {
    let m = match NotificationMessage::from_octets(bs) {
        Ok(m) => m,
        Err(_) => return "err".into(),
    };
    let m = &m;
    let len = acc(|| m.length().to_string());
    let code = acc(|| u8::from(m.code()).to_string());
    let raw = acc(|| { let r = m.details().raw(); format!("{}.{}", r[0], r[1]) });
    let data = acc(|| match m.data() { None => "none".into(), Some(d) => hex(d) });
    format!("ok len={} code={} raw={} data={}", len, code, raw, data)
}

fn details_of(code: u8, sub: u8) -> Details {
    match code {
        0 => Details::Reserved,
        1 => Details::MessageHeaderError(sub.into()),
        2 => Details::OpenMessageError(sub.into()),
        3 => Details::UpdateMessageError(sub.into()),
        4 => Details::HoldTimerExpired,
        5 => Details::FiniteStateMachineError(sub.into()),
        6 => Details::Cease(sub.into()),
        7 => Details::RouteRefreshMessageError(sub.into()),
        c => Details::Unimplemented(c, sub),
    }
}

fn parse_list<'a>(s: &'a str, sep: char) -> Vec<&'a str> {
    if s == "-" { vec![] } else { s.split(sep).collect() }
}

struct BOpen {
    asn: u32, ht: u16, id: [u8; 4], four: Option<u32>,
    mp: Vec<(u16, u8)>, ap: Vec<(u16, u8, u8)>, caps: Vec<Vec<u8>>,
}

fn parse_bopen(w: &[&str]) -> Option<BOpen> {
    if w.len() != 9 { return None; }
    let asn: u32 = w[1].parse().ok()?;
    let ht: u16 = w[2].parse().ok()?;
    let idv = unhex(w[3])?;
    if idv.len() != 4 { return None; }
    let id = [idv[0], idv[1], idv[2], idv[3]];
    let four = if w[4] == "-" { None } else { Some(w[4].parse::<u32>().ok()?) };
    let mut mp = vec![];
    for e in parse_list(w[5], ',') {
        let (a, s) = e.split_once('.')?;
        mp.push((a.parse().ok()?, s.parse().ok()?));
    }
    let mut ap = vec![];
    for e in parse_list(w[6], ',') {
        let p: Vec<&str> = e.split('.').collect();
        if p.len() != 3 { return None; }
        let d: u8 = p[2].parse().ok()?;
        if !(1..=3).contains(&d) { return None; }
        ap.push((p[0].parse().ok()?, p[1].parse().ok()?, d));
    }
    let mut caps = vec![];
    for e in parse_list(w[7], '/') {
        let c = unhex(e)?;
        if c.is_empty() { return None; }
        caps.push(c);
    }
    let b = BOpen { asn, ht, id, four, mp, ap, caps };
    // redundant total of capability bytes (lets a known-finding regex select the > 253 inputs)
    if w[8] != format!("capbytes={}", b.capbytes()) { return None; }
    Some(b)
}

impl BOpen {
    fn capbytes(&self) -> usize {
        (if self.four.is_some() { 6 } else { 0 }) + 6 * self.mp.len()
            + self.caps.iter().map(|c| c.len()).sum::<usize>()
            + if self.ap.is_empty() { 0 } else { 2 + 4 * self.ap.len() }
    }
}

fn bopen_line(asn: u32, ht: u16, id: &[u8], four: Option<u32>, mp: &[(u16, u8)], ap: &[(u16, u8, u8)], caps: &[Vec<u8>]) -> String {
    let l = |x: Vec<String>, sep: &str| if x.is_empty() { "-".to_string() } else { x.join(sep) };
    let total = (if four.is_some() { 6 } else { 0 }) + 6 * mp.len() + caps.iter().map(|c| c.len()).sum::<usize>()
        + if ap.is_empty() { 0 } else { 2 + 4 * ap.len() };
    format!("bopen {} {} {} {} {} {} {} capbytes={}", asn, ht, hex(id),
        four.map(|a| a.to_string()).unwrap_or("-".into()),
        l(mp.iter().map(|(a, s)| format!("{}.{}", a, s)).collect(), ","),
        l(ap.iter().map(|(a, s, d)| format!("{}.{}.{}", a, s, d)).collect(), ","),
        l(caps.iter().map(|c| hex(c)).collect(), "/"), total)
}

fn exec_bopen(b: &BOpen) -> String { exec_bopen_on(b, None) }

/// `pre`: the builder is made by `from_target` on a Vec that already holds that many octets
fn exec_bopen_on(b: &BOpen, pre: Option<usize>) -> String {
    let mk = || -> Option<OpenBuilder<Vec<u8>>> {
        let mut ob = match pre {
            None => OpenBuilder::new_vec(),
            Some(n) => match OpenBuilder::from_target(vec![0xaau8; n]) { Ok(x) => x, Err(_) => return None },
        };
        ob.set_asn(inetnum::asn::Asn::from_u32(b.asn));
        ob.set_holdtime(b.ht);
        ob.set_bgp_id(b.id);
        if let Some(a) = b.four { ob.four_octet_capable(inetnum::asn::Asn::from_u32(a)); }
        for (a, s) in &b.mp { ob.add_mp(AfiSafiType::from((*a, *s))); }
        for c in &b.caps { ob.add_capability(Capability::new(c.clone())); }
        for (a, s, d) in &b.ap {
            ob.add_addpath(AfiSafiType::from((*a, *s)), AddpathDirection::try_from(*d).unwrap());
        }
        Some(ob)
    };
    let Some(ob) = mk() else { return "err".into() };
    let bytes = ob.finish();
    // (tie coverage) OpenBuilder::into_message is finish() wrapped into an OpenMessage: the same octets
    let Some(ob2) = mk() else { return "err".into() };
    let msg = ob2.into_message();
    if msg.as_ref() != &bytes[..] { return format!("into_message {} differs from finish {}", hex(msg.as_ref()), hex(&bytes)); }
    format!("ok {}", hex(&bytes))
}

fn hexarg(s: &str) -> Option<Vec<u8>> {
    if s.chars().any(|c| c.is_ascii_uppercase()) { return None; }
    unhex(s)
}

impl C03 {
    fn exec_inner(&self, line: &str) -> String {
        let w: Vec<&str> = line.split(' ').collect();
        match w.as_slice() {
            ["open", h] => match hexarg(h) { Some(b) => { let r = exec_open(b.clone()); if r.starts_with("ok ") { let t = proto_of_open_reply(&b, &r); r + &t } else { r } }, None => "bad-op".into() },
            ["notif", h] => match hexarg(h) { Some(b) => exec_notif(b), None => "bad-op".into() },
            ["ka", h] => match hexarg(h) {
                Some(b) => match KeepaliveMessage::from_octets(b) { Ok(_) => "ok".into(), Err(_) => "err".into() },
                None => "bad-op".into(),
            },
            ["rr", h] => match hexarg(h) {
                Some(b) => match RouteRefreshMessage::from_octets(b) {
                    Ok(m) => {
                        let (a, s): (u16, u8) = m.afisafi().into();
                        format!("ok afi={} safi={} sub={}", a, s, u8::from(m.subtype()))
                    }
                    Err(_) => "err".into(),
                },
                None => "bad-op".into(),
            },
            ["msg", h] => match hexarg(h) {
                Some(b) => match Message::from_octets(b, None) {
                    Ok(m) => {
                        let k = match &m {
                            Message::Open(_) => "open",
                            Message::Update(_) => "update",
                            Message::Notification(_) => "notification",
                            Message::Keepalive(_) => "keepalive",
                            Message::RouteRefresh(_) => "routerefresh",
                        };
                        let l = acc(|| m.length().to_string());
                        let t = acc(|| u8::from(m.msg_type()).to_string());
                        format!("ok {} len={} type={}", k, l, t)
                    }
                    Err(_) => "err".into(),
                },
                None => "bad-op".into(),
            },
            ["bopen", ..] => match parse_bopen(&w) { Some(b) => exec_bopen(&b), None => "bad-op".into() },
            ["bopent", n, rest @ ..] => {
                let mut w2 = vec!["bopen"]; w2.extend_from_slice(rest);
                match (n.parse::<usize>(), parse_bopen(&w2)) {
                    (Ok(k), Some(b)) if k <= 4096 && k.to_string() == *n => exec_bopen_on(&b, Some(k)),
                    _ => "bad-op".into(),
                }
            }
            ["bnotif", c, s, d] => match (c.parse::<u8>(), s.parse::<u8>()) {
                (Ok(c), Ok(s)) => {
                    let data = if *d == "none" { None } else { match hexarg(d) { Some(x) => Some(x), None => return "bad-op".into() } };
                    match NotificationBuilder::new_vec(details_of(c, s), data) {
                        Ok(v) => format!("ok {}", hex(&v)),
                        Err(_) => "err".into(),
                    }
                }
                _ => "bad-op".into(),
            },
            ["bnotifn", c, s, n, f] => match (c.parse::<u8>(), s.parse::<u8>(), n.parse::<usize>(), f.parse::<u8>()) {
                (Ok(c), Ok(s), Ok(n), Ok(f)) if n <= 200_000 => {
                    match NotificationBuilder::new_vec(details_of(c, s), Some(vec![f; n])) {
                        Ok(v) => format!("ok len={} head={} tail_ok={}", v.len(), hex(&v[..v.len().min(21)]),
                                         (v.len() == 21 + n && v[21.min(v.len())..].iter().all(|x| *x == f)) as u8),
                        Err(_) => "err".into(),
                    }
                }
                _ => "bad-op".into(),
            },
            ["bka"] => format!("ok {}", hex(&KeepaliveBuilder::new_vec().finish())),
            _ => "bad-op".into(),
        }
    }
}

// ---------------------------------------------------------------------------
// refdec: strict reference decoder / encoder (independent of routecore)
// ---------------------------------------------------------------------------

#[derive(Clone, Debug, PartialEq)]
pub struct RefOpen {
    pub ver: u8, pub asn2: u16, pub ht: u16, pub id: [u8; 4],
    /// (type, value) of every optional parameter
    pub params: Vec<(u8, Vec<u8>)>,
}

impl RefOpen {
    pub fn encode(&self) -> Vec<u8> {
        let mut body = vec![self.ver];
        body.extend_from_slice(&self.asn2.to_be_bytes());
        body.extend_from_slice(&self.ht.to_be_bytes());
        body.extend_from_slice(&self.id);
        let mut ps = vec![];
        for (t, v) in &self.params { ps.push(*t); ps.push(v.len() as u8); ps.extend_from_slice(v); }
        body.push(ps.len() as u8);
        body.extend_from_slice(&ps);
        let mut m = MARKER.to_vec();
        m.extend_from_slice(&((19 + body.len()) as u16).to_be_bytes());
        m.push(1);
        m.extend_from_slice(&body);
        m
    }
    /// capabilities in wire order: (code, value)
    pub fn caps(&self) -> Option<Vec<(u8, Vec<u8>)>> {
        let mut out = vec![];
        for (t, v) in &self.params {
            if *t != 2 { continue; }
            let mut i = 0;
            while i < v.len() {
                if i + 2 > v.len() { return None; }
                let l = v[i + 1] as usize;
                if i + 2 + l > v.len() { return None; }
                out.push((v[i], v[i + 2..i + 2 + l].to_vec()));
                i += 2 + l;
            }
        }
        Some(out)
    }
}

/// RFC form of the value of each capability code routecore knows.
pub fn ref_cap_wf(code: u8, v: &[u8]) -> bool {
    let n = v.len();
    match code {
        1 => n == 4,
        2 | 6 | 70 | 128 => n == 0,
        3 | 130 => { // RFC 5291: one or more blocks AFI(2) rsvd(1) SAFI(1) count(1) count x (type, send/receive)
            let mut i = 0;
            loop {
                if i + 5 > n { break false; }
                i += 5 + 2 * v[i + 4] as usize;
                if i == n { break true; }
            }
        }
        5 => n % 6 == 0,
        8 => n % 4 == 0,
        9 => n == 1,
        64 => n >= 2 && (n - 2) % 4 == 0,
        65 => n == 4,
        68 | 131 => n >= 1,
        69 => n >= 4 && n % 4 == 0 && v.chunks(4).all(|c| (1..=3).contains(&c[3])),
        71 => n % 7 == 0,
        73 => n >= 2 && { let hl = v[0] as usize; n >= 2 + hl && n == 2 + hl + v[1 + hl] as usize },
        75 => n >= 1 && n == 1 + v[0] as usize,      // draft-abraitis-bgp-version-capability: length octet + string
        76 => n % 5 == 0,                            // draft-abraitis-idr-addpath-paths-limit: tuples AFI(2) SAFI(1) limit(2)
        _ => true,
    }
}

/// strict decode: Some(..) iff the bytes are a well-formed OPEN
pub fn ref_decode_open(bs: &[u8]) -> Option<RefOpen> {
    if bs.len() < 29 || bs.len() > 4096 || bs[..16] != MARKER { return None; }
    if u16::from_be_bytes([bs[16], bs[17]]) as usize != bs.len() || bs[18] != 1 { return None; }
    let opl = bs[28] as usize;
    if 29 + opl != bs.len() { return None; }
    let mut params = vec![];
    let mut i = 29;
    while i < bs.len() {
        if i + 2 > bs.len() { return None; }
        let l = bs[i + 1] as usize;
        if i + 2 + l > bs.len() { return None; }
        params.push((bs[i], bs[i + 2..i + 2 + l].to_vec()));
        i += 2 + l;
    }
    let o = RefOpen { ver: bs[19], asn2: u16::from_be_bytes([bs[20], bs[21]]), ht: u16::from_be_bytes([bs[22], bs[23]]),
                      id: [bs[24], bs[25], bs[26], bs[27]], params };
    let caps = o.caps()?;
    if !caps.iter().all(|(c, v)| ref_cap_wf(*c, v)) { return None; }
    Some(o)
}

fn ref_open_reply(o: &RefOpen, total: usize) -> String {
    let caps = o.caps().unwrap();
    let four = caps.iter().find(|(c, _)| *c == 65);
    let asn = match four { Some((_, v)) => u32::from_be_bytes([v[0], v[1], v[2], v[3]]), None => o.asn2 as u32 };
    let opl: usize = o.params.iter().map(|(_, v)| 2 + v.len()).sum();
    let mp = caps.iter().filter(|(c, _)| *c == 1).map(|(_, v)| format!("{}/{}", u16::from_be_bytes([v[0], v[1]]), v[3]));
    let mut ap = vec![];
    for (_, v) in caps.iter().filter(|(c, _)| *c == 69) {
        for c in v.chunks(4) { ap.push(format!("{}/{}/{}", u16::from_be_bytes([c[0], c[1]]), c[2], c[3])); }
    }
    let sw = if caps.iter().any(|(c, _)| *c == 75) { "some" } else { "none" };
    format!("ok len={} ver={} asn={} ht={} id={} opl={} params={} caps={} four={} mp={} ap={} sw={}",
        total, o.ver, asn, o.ht, hex(&o.id), opl,
        join(o.params.iter().map(|(t, _)| *t)),
        join(caps.iter().map(|(c, v)| format!("{}:{}", c, hex(v)))),
        four.is_some() as u8, join(mp), join(ap.into_iter()), sw)
}

fn header_ok(bs: &[u8]) -> bool {
    bs.len() >= 19 && bs[..16] == MARKER && u16::from_be_bytes([bs[16], bs[17]]) as usize == bs.len()
}

// ---------------------------------------------------------------------------
// generators
// ---------------------------------------------------------------------------

pub const KNOWN_CAPS: [u8; 22] = [0, 1, 2, 3, 5, 6, 8, 9, 64, 65, 66, 67, 68, 69, 70, 71, 73, 75, 76, 128, 130, 131];

fn gen_afi(rng: &mut Rng) -> u16 { *rng.pick(&[1u16, 2, 25, 16388, 0, 3, 65535]) }
fn gen_safi(rng: &mut Rng) -> u8 { *rng.pick(&[1u8, 2, 4, 65, 70, 128, 132, 133, 134, 0, 255]) }

/// a well-formed value for capability `code`
pub fn gen_cap_value(rng: &mut Rng, code: u8) -> Vec<u8> {
    let fam4 = |rng: &mut Rng, last: u8| { let a = gen_afi(rng).to_be_bytes(); vec![a[0], a[1], gen_safi(rng), last] };
    match code {
        1 => { let a = gen_afi(rng).to_be_bytes(); vec![a[0], a[1], 0, gen_safi(rng)] }
        2 | 6 | 70 | 128 => vec![],
        3 | 130 => {
            let mut v = vec![];
            for _ in 0..(if rng.chance(1, 3) { rng.usize(2, 3) } else { 1 }) {
                let n = rng.usize(0, 4);
                let a = gen_afi(rng).to_be_bytes();
                v.extend_from_slice(&[a[0], a[1], 0, gen_safi(rng), n as u8]);
                for _ in 0..n { v.push(rng.u8()); v.push(rng.range(1, 3) as u8); }
            }
            v
        }
        5 => { let n = gen_count(rng, 3, 40); let mut v = vec![]; for _ in 0..n { v.extend_from_slice(&gen_afi(rng).to_be_bytes()); v.extend_from_slice(&(gen_safi(rng) as u16).to_be_bytes()); v.extend_from_slice(&gen_afi(rng).to_be_bytes()); } v }
        8 => { let n = gen_count(rng, 3, 60); let mut v = vec![]; for _ in 0..n { let l = rng.u8(); v.extend(fam4(rng, l)); } v }
        9 => vec![rng.range(0, 4) as u8],
        64 => { let n = gen_count(rng, 3, 60); let mut v = rng.bytes(2); for _ in 0..n { let l = rng.u8(); v.extend(fam4(rng, l)); } v }
        65 => rng.bytes(4),
        66 | 67 => { let n = rng.usize(0, 5); rng.bytes(n) }
        68 | 131 => { let n = rng.usize(1, 5); rng.bytes(n) }
        69 => { let n = 1 + gen_count(rng, 3, 60); let mut v = vec![]; for _ in 0..n { let d = rng.range(1, 3) as u8; v.extend(fam4(rng, d)); } v }
        71 => { let n = gen_count(rng, 3, 35); let mut v = vec![]; for _ in 0..n { let l = rng.u8(); v.extend(fam4(rng, l)); v.extend(rng.bytes(3)); } v }
        73 => { let h = rng.usize(0, 6); let d = rng.usize(0, 6); let mut v = vec![h as u8]; v.extend((0..h).map(|_| rng.range(97, 122) as u8)); v.push(d as u8); v.extend((0..d).map(|_| rng.range(97, 122) as u8)); v }
        75 => { let n = rng.usize(0, 8); let mut v = vec![n as u8]; v.extend((0..n).map(|_| if rng.chance(1, 10) { rng.u8() } else { rng.range(32, 126) as u8 })); v }
        76 => { let n = rng.usize(0, 3); let mut v = vec![]; for _ in 0..n { v.extend_from_slice(&gen_afi(rng).to_be_bytes()); v.push(gen_safi(rng)); v.extend_from_slice(&(rng.edgy(65535) as u16).to_be_bytes()); } v }
        _ => { let n = rng.usize(0, 6); rng.bytes(n) }
    }
}

/// mostly 0..=small, now and then up to `big` entries (the value must still fit 255 octets)
fn gen_count(rng: &mut Rng, small: usize, big: usize) -> usize { if rng.chance(1, 12) { rng.usize(small, big) } else { rng.usize(0, small) } }

fn gen_code(rng: &mut Rng) -> u8 {
    match rng.below(10) {
        0 => rng.u8(),
        1 | 2 => 65,
        3 | 4 => 1,
        5 => 69,
        _ => *rng.pick(&KNOWN_CAPS),
    }
}

fn tlv(t: u8, v: &[u8]) -> Vec<u8> { let mut o = vec![t, v.len() as u8]; o.extend_from_slice(v); o }

/// lay capability TLVs out into optional parameters; may add non-capability parameters
fn layout(rng: &mut Rng, caps: &[Vec<u8>], noncap: bool) -> Vec<(u8, Vec<u8>)> {
    let mut params: Vec<(u8, Vec<u8>)> = vec![];
    let mode = rng.below(3); // 0: one per param, 1: all in one, 2: random grouping
    let mut cur: Vec<u8> = vec![];
    let mut have = false;
    for c in caps {
        let split = match mode { 0 => true, 1 => false, _ => rng.bool() };
        if have && (split || cur.len() + c.len() > 255) {
            params.push((2, std::mem::take(&mut cur)));
        }
        cur.extend_from_slice(c);
        have = true;
    }
    if have { params.push((2, cur)); }
    if noncap {
        let n = rng.usize(1, 2);
        for _ in 0..n {
            let t = *rng.pick(&[0u8, 1, 3, 4, 100, 254, 255]);
            let l = rng.usize(0, 6);
            let mut v = rng.bytes(l);
            // values that look like a parameter header are the interesting ones
            if l >= 2 && rng.bool() { v[0] = 2; v[1] = rng.edgy(8) as u8; }
            let at = rng.usize(0, params.len());
            params.insert(at, (t, v));
        }
    }
    // keep within the one-octet total
    while params.iter().map(|(_, v)| 2 + v.len()).sum::<usize>() > 255 { params.pop(); }
    params
}

fn gen_open_struct(rng: &mut Rng) -> RefOpen {
    let ncaps = match rng.below(6) { 0 => 0, 1 => 1, 2 => 2, _ => rng.usize(0, 8) };
    let mut caps = vec![];
    for _ in 0..ncaps {
        let code = gen_code(rng);
        caps.push(tlv(code, &gen_cap_value(rng, code)));
    }
    let noncap = rng.chance(1, 5);
    RefOpen {
        ver: if rng.chance(9, 10) { 4 } else { rng.u8() },
        asn2: if rng.chance(1, 3) { 23456 } else { rng.edgy(65535) as u16 },
        ht: rng.edgy(65535) as u16,
        id: [rng.u8(), rng.u8(), rng.u8(), rng.u8()],
        params: layout(rng, &caps, noncap),
    }
}

pub fn mutate(rng: &mut Rng, m: &[u8]) -> Vec<u8> {
    let mut v = m.to_vec();
    match rng.below(9) {
        0 => { if !v.is_empty() { let i = rng.usize(0, v.len() - 1); v[i] ^= 1 << rng.below(8); } }
        1 => { let n = rng.usize(0, v.len()); v.truncate(n); }
        2 => { let n = rng.usize(1, 4); v.extend(rng.bytes(n)); }
        3 => { if v.len() > 18 { let l = match rng.below(6) { 0 => 0, 1 => 18, 2 => 19, 3 => v.len() as u16 + 1, 4 => (v.len() as u16).wrapping_sub(1), _ => rng.u16() }; v[16..18].copy_from_slice(&l.to_be_bytes()); } }
        4 => { if v.len() > 28 { v[28] = match rng.below(4) { 0 => 0, 1 => 255, 2 => v[28].wrapping_add(1), _ => v[28].wrapping_sub(1) }; } }
        5 => { // edit some byte after the fixed part (a length or code byte, likely)
            if v.len() > 29 { let i = rng.usize(29, v.len() - 1); v[i] = match rng.below(5) { 0 => 0, 1 => 1, 2 => 255, 3 => v[i].wrapping_add(1), _ => v[i].wrapping_sub(1) }; } }
        6 => { // fix the header length up after a truncation/extension so the body is reached
            let n = rng.usize(19.min(v.len()), v.len()); v.truncate(n);
            if v.len() >= 19 { let l = v.len() as u16; v[16..18].copy_from_slice(&l.to_be_bytes()); } }
        7 => { // truncate params but keep both length fields consistent
            if v.len() > 29 { let n = rng.usize(29, v.len()); v.truncate(n); let l = v.len() as u16; v[16..18].copy_from_slice(&l.to_be_bytes()); v[28] = (v.len() - 29) as u8; } }
        _ => { if v.len() > 19 { let i = rng.usize(19, v.len() - 1); v.remove(i); } }
    }
    v
}

fn open_with_params(params: Vec<(u8, Vec<u8>)>) -> Vec<u8> {
    RefOpen { ver: 4, asn2: 23456, ht: 90, id: [10, 0, 0, 1], params }.encode()
}

fn hdr(len: u16, typ: u8) -> Vec<u8> {
    let mut m = MARKER.to_vec(); m.extend_from_slice(&len.to_be_bytes()); m.push(typ); m
}

impl Prop for C03 {
    fn gen(&self, rng: &mut Rng, tier: Tier) -> Vec<String> {
        let mut v: Vec<String> = Vec::new();
        let scale = match tier { Tier::Quick => 1, Tier::Thorough => 100 };

        // --- every known code x every length 0..=255, alone and followed by another capability,
        //     and with its own parameter vs sharing one
        for &code in KNOWN_CAPS.iter().chain([7u8, 10, 72, 129, 255].iter()) {
            for len in 0..=253usize {
                let val: Vec<u8> = (0..len).map(|i| match code { 3 | 130 if i == 4 => ((len.saturating_sub(5)) / 2) as u8, 73 | 75 if i == 0 => 0, _ => (i as u8) & 3 }).collect();
                let c = tlv(code, &val);
                v.push(format!("open {}", hex(&open_with_params(vec![(2, c.clone())]))));
                if len <= 247 {
                    let mut two = c.clone(); two.extend_from_slice(&[65, 4, 0, 1, 0, 0]);
                    v.push(format!("open {}", hex(&open_with_params(vec![(2, two)]))));
                }
                if len <= 12 {
                    // random content for the short ones, a few times
                    for _ in 0..3 {
                        let mut c2 = tlv(code, &rng.bytes(len)); c2.extend_from_slice(&tlv(1, &[0, 1, 0, 1]));
                        v.push(format!("open {}", hex(&open_with_params(vec![(2, c2)]))));
                    }
                }
            }
        }
        // --- structured, well-formed OPENs and their mutations
        for _ in 0..3000 * scale {
            let o = gen_open_struct(rng);
            let m = o.encode();
            v.push(format!("open {}", hex(&m)));
            if rng.chance(1, 6) { v.push(format!("msg {}", hex(&m))); }
            for _ in 0..2 { let mm = mutate(rng, &m); v.push(format!("open {}", hex(&mm))); }
            if rng.chance(1, 8) { let mm = mutate(rng, &m); v.push(format!("msg {}", hex(&mm))); }
        }
        // --- optional parameters filling the one-octet total: several parameters, many capabilities,
        //     long non-capability parameters, 250..=255 octets of parameters
        for i in 0..40 * scale {
            let mut params: Vec<(u8, Vec<u8>)> = vec![];
            let target = 240 + (i % 16);
            loop {
                let used: usize = params.iter().map(|(_, v)| 2 + v.len()).sum();
                if used + 4 > target { break; }
                let room = target - used - 2;
                if rng.chance(1, 5) {
                    let l = rng.usize(0, room.min(120));
                    params.push((*rng.pick(&[0u8, 1, 3, 4, 100, 254, 255]), rng.bytes(l)));
                } else {
                    let mut cur = vec![];
                    for _ in 0..rng.usize(1, 6) {
                        let code = gen_code(rng);
                        let c = tlv(code, &gen_cap_value(rng, code));
                        if cur.len() + c.len() > room { break; }
                        cur.extend_from_slice(&c);
                    }
                    if cur.is_empty() { cur = tlv(200, &vec![7; room.saturating_sub(2).min(253)]); }
                    params.push((2, cur));
                }
            }
            let m = RefOpen { ver: 4, asn2: 64512, ht: 180, id: [192, 0, 2, 1], params }.encode();
            v.push(format!("open {}", hex(&m)));
            v.push(format!("open {}", hex(&mutate(rng, &m))));
        }
        // --- NOTIFICATIONs at the maximum message size and at the limit of the length field
        for total in [4095usize, 4096, 4097, 65535] {
            let mut m = hdr(total as u16, 3); m.push(6); m.push(2); m.extend((21..total).map(|i| (i % 251) as u8));
            v.push(format!("notif {}", hex(&m)));
            if total <= 4097 { v.push(format!("msg {}", hex(&m))); }
        }
        // --- truncation at every offset of a few messages (both with stale and with repaired lengths)
        for _ in 0..6 {
            let m = gen_open_struct(rng).encode();
            for n in 0..=m.len() {
                v.push(format!("open {}", hex(&m[..n])));
                if n >= 19 { let mut t = m[..n].to_vec(); let l = n as u16; t[16..18].copy_from_slice(&l.to_be_bytes()); v.push(format!("open {}", hex(&t))); }
            }
        }
        // --- arbitrary byte strings
        for _ in 0..300 * scale {
            let n = rng.usize(0, 60);
            let b = rng.bytes(n);
            let op = *rng.pick(&["open", "notif", "ka", "rr", "msg"]);
            v.push(format!("{} {}", op, hex(&b)));
        }
        // --- NOTIFICATION: every total length 0..=40, all codes, boundary subcodes
        for n in 0..=40usize {
            let mut m = hdr(n as u16, 3); m.extend((19..n).map(|i| i as u8)); m.truncate(n);
            v.push(format!("notif {}", hex(&m)));
            v.push(format!("msg {}", hex(&m)));
            // header says something else
            if m.len() >= 19 { let mut m2 = m.clone(); m2[17] = m2[17].wrapping_add(1); v.push(format!("notif {}", hex(&m2))); }
        }
        for code in 0..=255u16 {
            for sub in [0u8, 1, 2, 7, 11, 255] {
                let dl = rng.usize(0, 6);
                let mut m = hdr(21 + dl as u16, 3); m.push(code as u8); m.push(sub); m.extend(rng.bytes(dl));
                v.push(format!("notif {}", hex(&m)));
            }
        }
        for _ in 0..500 * scale {
            let dl = rng.usize(0, 30);
            let mut m = hdr(21 + dl as u16, 3); m.push(rng.edgy(9) as u8); m.push(rng.u8()); m.extend(rng.bytes(dl));
            v.push(format!("notif {}", hex(&m)));
            let mm = mutate(rng, &m);
            v.push(format!("notif {}", hex(&mm)));
            if rng.chance(1, 4) { v.push(format!("msg {}", hex(&mm))); }
        }
        // --- KEEPALIVE
        for n in 0..=24usize {
            for l in [n as u16, 19, 0, 18, 20] {
                let mut m = hdr(l, 4); m.extend((19..n).map(|i| i as u8)); m.truncate(n);
                v.push(format!("ka {}", hex(&m)));
                v.push(format!("msg {}", hex(&m)));
            }
        }
        for t in 0..=255u16 { v.push(format!("ka {}", hex(&hdr(19, t as u8)))); v.push(format!("msg {}", hex(&hdr(19, t as u8)))); }
        for i in 0..16 { let mut m = hdr(19, 4); m[i] = 0xfe; v.push(format!("ka {}", hex(&m))); v.push(format!("open {}", hex(&{ let mut o = open_with_params(vec![]); o[i] = 0x7f; o }))); }
        // --- ROUTE-REFRESH
        for _ in 0..400 * scale {
            let mut m = hdr(23, 5); m.extend_from_slice(&gen_afi(rng).to_be_bytes()); m.push(*rng.pick(&[0u8, 1, 2, 3, 255, 77])); m.push(gen_safi(rng));
            v.push(format!("rr {}", hex(&m)));
            if rng.chance(1, 2) { let mm = mutate(rng, &m); v.push(format!("rr {}", hex(&mm))); if rng.chance(1, 3) { v.push(format!("msg {}", hex(&mm))); } }
            if rng.chance(1, 4) { v.push(format!("msg {}", hex(&m))); }
        }
        for n in 0..=27usize { let mut m = hdr(23, 5); m.extend_from_slice(&[0, 1, 0, 1, 9, 9, 9, 9]); m.truncate(n); v.push(format!("rr {}", hex(&m))); v.push(format!("msg {}", hex(&m))); }
        for l in [0u16, 19, 22, 24, 4096] { let mut m = hdr(l, 5); m.extend_from_slice(&[0, 2, 1, 1]); v.push(format!("rr {}", hex(&m))); v.push(format!("msg {}", hex(&m))); }
        // --- builders
        v.push("bka".into());
        for _ in 0..1500 * scale {
            let asn = match rng.below(4) { 0 => rng.edgy(65535) as u32, 1 => 65536, 2 => rng.u32(), _ => rng.edgy(u32::MAX as u64) as u32 };
            let four = if rng.chance(2, 3) { Some(if rng.bool() { asn } else { rng.u32() }) } else { None };
            let nmp = rng.usize(0, 4);
            let mp: Vec<(u16, u8)> = (0..nmp).map(|_| (gen_afi(rng), gen_safi(rng))).collect();
            let nap = if rng.chance(1, 2) { 0 } else { rng.usize(1, 5) };
            let ap: Vec<(u16, u8, u8)> = (0..nap).map(|_| (gen_afi(rng), gen_safi(rng), rng.range(1, 3) as u8)).collect();
            let nc = if rng.chance(1, 2) { 0 } else { rng.usize(1, 4) };
            let caps: Vec<Vec<u8>> = (0..nc).map(|_| { let c = gen_code(rng); tlv(c, &gen_cap_value(rng, c)) }).collect();
            let ht = rng.edgy(65535) as u16;
            let id = rng.bytes(4);
            let l = bopen_line(asn, ht, &id, four, &mp, &ap, &caps);
            // one in eight: the same builder calls on a target that already holds 1..40 octets
            if rng.chance(1, 8) && !l.contains("capbytes=2") && !l.contains("capbytes=3") {
                v.push(format!("bopent {} {}", rng.usize(1, 40), &l[6..]));
            }
            v.push(l);
        }
        // near the one-octet limits: total capability bytes 240..=262 (K4 above 253)
        for total in 240..=262usize {
            // one unknown capability carrying the bulk, plus the 4-octet one (6 bytes)
            let bulk = total - 6;
            if bulk - 2 <= 255 {
                v.push(bopen_line(64512, 90, &[10, 0, 0, 1], Some(64512), &[], &[], &[tlv(200, &vec![0xab; bulk - 2])]));
            }
            // many MP capabilities (6 bytes each) + filler
            let n6 = total / 6; let rest = total - n6 * 6;
            let mps: Vec<(u16, u8)> = (0..n6).map(|i| (1 + (i % 2) as u16, 1 + (i % 3) as u8)).collect();
            if rest >= 2 { v.push(bopen_line(1, 2, &[1, 2, 3, 4], None, &mps, &[], &[tlv(201, &vec![1; rest - 2])])); }
            else if rest == 0 { v.push(bopen_line(1, 2, &[1, 2, 3, 4], None, &mps, &[], &[])); }
        }
        // ADD-PATH family counts around 63/64 (4*n vs the one-octet capability length)
        for n in [1usize, 2, 61, 62, 63, 64, 65, 70] {
            let ap: Vec<(u16, u8, u8)> = (0..n).map(|i| (1 + (i % 2) as u16, 1 + (i % 200) as u8, 1 + (i % 3) as u8)).collect();
            v.push(bopen_line(65000, 180, &[192, 0, 2, 1], None, &[], &ap, &[]));
        }
        // NOTIFICATION builder
        for code in 0..=9u8 { for sub in [0u8, 1, 2, 9, 255] {
            let dl = rng.usize(0, 8);
            let d = if rng.chance(1, 4) { "none".to_string() } else { hex(&rng.bytes(dl)) };
            v.push(format!("bnotif {} {} {}", code, sub, d));
        } }
        for _ in 0..300 * scale { let dl = rng.usize(0, 40); v.push(format!("bnotif {} {} {}", rng.u8(), rng.u8(), hex(&rng.bytes(dl)))); }
        for n in [0usize, 1, 4075, 4076, 65513, 65514, 65515, 65516, 65535, 65536, 70000] {
            v.push(format!("bnotifn 6 2 {} {}", n, 0x5a));
        }
        v
    }

    fn exec(&self, line: &str) -> String { self.exec_inner(line) }

    fn oracle(&self, line: &str, reply: &str) -> Result<(), String> {
        let w: Vec<&str> = line.split(' ').collect();
        if reply == "panic" { return Err("decoding / building panicked".into()); }
        if reply == "bad-op" { return Ok(()); }
        // the iterator-protocol verdict of an accepted OPEN (last token of an `open` reply)
        proto_judge(reply)?;
        let reply = reply.strip_suffix(" proto=ok").unwrap_or(reply);
        // a builder made on a target that already holds octets must produce the same message
        if let Some(rest) = line.strip_prefix("bopent ") {
            let (_, r) = rest.split_once(' ').ok_or("bad bopent")?;
            return self.oracle(&format!("bopen {}", r), reply).map_err(|e| format!("(from_target on a non-empty target) {}", e));
        }
        match w.as_slice() {
            ["open", h] => {
                let bs = unhex(h).ok_or("hex")?;
                if reply.starts_with("ok") {
                    if reply.split(' ').any(|f| f.ends_with("=P")) { return Err(format!("an accessor of an accepted OPEN panicked: {}", reply)); }
                    if !header_ok(&bs) { return Err("OPEN accepted although the header length disagrees with the bytes supplied (or bad marker)".into()); }
                }
                if let Some(o) = ref_decode_open(&bs) {
                    let want = ref_open_reply(&o, bs.len());
                    if reply != want { return Err(format!("well-formed OPEN: expected `{}`", want)); }
                }
                Ok(())
            }
            ["notif", h] => {
                let bs = unhex(h).ok_or("hex")?;
                if reply.starts_with("ok") && reply.split(' ').any(|f| f.ends_with("=P")) { return Err(format!("an accessor of an accepted NOTIFICATION panicked: {}", reply)); }
                let wf = bs.len() >= 21 && bs.len() <= 4096 && header_ok(&bs) && bs[18] == 3;
                if wf {
                    // code, subcode and data exactly as on the wire
                    let data = if bs.len() > 21 { hex(&bs[21..]) } else { "none".into() };
                    let want = format!("ok len={} code={} raw={}.{} data={}", bs.len(), bs[19], bs[19], bs[20], data);
                    if reply != want {
                        // details() has no room for a subcode with codes 0 and 4: known finding K1
                        if (bs[19] == 0 || bs[19] == 4) && reply == format!("ok len={} code={} raw={}.0 data={}", bs.len(), bs[19], bs[19], data) {
                            return Err(format!("NOTIFICATION code {}: subcode {} reported as 0 (K1)", bs[19], bs[20]));
                        }
                        return Err(format!("well-formed NOTIFICATION: expected `{}`", want));
                    }
                }
                Ok(())
            }
            ["ka", h] => {
                let bs = unhex(h).ok_or("hex")?;
                let wf = bs.len() == 19 && header_ok(&bs) && bs[18] == 4;
                if wf && reply != "ok" { return Err("well-formed KEEPALIVE rejected".into()); }
                if reply == "ok" && !(bs.len() == 19 && header_ok(&bs)) { return Err("KEEPALIVE accepted although it is not 19 bytes with a matching header length".into()); }
                Ok(())
            }
            ["rr", h] => {
                let bs = unhex(h).ok_or("hex")?;
                let wf = bs.len() == 23 && header_ok(&bs) && bs[18] == 5;
                if wf {
                    let want = format!("ok afi={} safi={} sub={}", u16::from_be_bytes([bs[19], bs[20]]), bs[22], bs[21]);
                    if reply != want { return Err(format!("well-formed ROUTE-REFRESH: expected `{}`", want)); }
                }
                Ok(())
            }
            ["msg", h] => {
                let bs = unhex(h).ok_or("hex")?;
                if reply.contains("=P") { return Err("accessor of an accepted message panicked".into()); }
                if let Some(_) = ref_decode_open(&bs) {
                    if reply != format!("ok open len={} type=1", bs.len()) { return Err("well-formed OPEN not dispatched as OPEN".into()); }
                }
                if bs.len() == 19 && header_ok(&bs) && bs[18] == 4 && reply != "ok keepalive len=19 type=4" { return Err("well-formed KEEPALIVE not dispatched".into()); }
                if bs.len() >= 21 && bs.len() <= 4096 && header_ok(&bs) && bs[18] == 3 && reply != format!("ok notification len={} type=3", bs.len()) { return Err("well-formed NOTIFICATION not dispatched".into()); }
                if bs.len() == 23 && header_ok(&bs) && bs[18] == 5 && reply != "ok routerefresh len=23 type=5" {
                    return Err("well-formed ROUTE-REFRESH not decoded by Message::from_octets".into());
                }
                if reply.starts_with("ok keepalive") && bs.len() != 19 { return Err("KEEPALIVE of other than 19 bytes accepted".into()); }
                if reply.starts_with("ok") && !header_ok(&bs) { return Err("message accepted although header length disagrees with the bytes supplied".into()); }
                Ok(())
            }
            ["bopen", ..] => {
                let b = parse_bopen(&w).ok_or("bad bopen")?;
                let out = reply.strip_prefix("ok ").and_then(unhex).ok_or("no bytes")?;
                // what the builder was given, as capability list in builder order
                let mut caps: Vec<(u8, Vec<u8>)> = vec![];
                if let Some(a) = b.four { caps.push((65, a.to_be_bytes().to_vec())); }
                for (a, s) in &b.mp { let x = a.to_be_bytes(); caps.push((1, vec![x[0], x[1], 0, *s])); }
                let mut sane = true;
                for c in &b.caps {
                    if c.len() < 2 || c.len() != 2 + c[1] as usize { sane = false; break; }
                    caps.push((c[0], c[2..].to_vec()));
                }
                if !b.ap.is_empty() {
                    let mut val = vec![];
                    for (a, s, d) in &b.ap { let x = a.to_be_bytes(); val.extend_from_slice(&[x[0], x[1], *s, *d]); }
                    if val.len() > 255 { sane = false; }
                    caps.push((69, val));
                }
                if !sane { return Ok(()); } // input is not an encodable capability list
                let params = if caps.is_empty() { vec![] } else {
                    let mut pv = vec![]; for (c, v) in &caps { pv.extend(tlv(*c, v)); }
                    vec![(2u8, pv)]
                };
                let want = RefOpen { ver: 4, asn2: u16::try_from(b.asn).unwrap_or(23456), ht: b.ht, id: b.id, params };
                let dec = ref_decode_open_lenient(&out);
                if dec.as_ref() != Some(&want) { return Err(format!("OPEN built from these values decodes (reference decoder) to {:?}", dec)); }
                // and through routecore's own decoder
                let r = catch(|| exec_open(out.clone()));
                let all_wf = caps.iter().all(|(c, v)| ref_cap_wf(*c, v));
                if all_wf {
                    let want_reply = ref_open_reply(&want, out.len());
                    if r != want_reply { return Err(format!("routecore decodes its own OPEN as `{}`, expected `{}`", r, want_reply)); }
                } else if r == "panic" || r.contains("=P") { return Err(format!("routecore panics on its own OPEN: {}", r)); }
                Ok(())
            }
            ["bnotif", c, s, d] => {
                let c: u8 = c.parse().unwrap(); let s: u8 = s.parse().unwrap();
                let data = if *d == "none" { vec![] } else { unhex(d).ok_or("hex")? };
                let out = reply.strip_prefix("ok ").and_then(unhex).ok_or("builder failed on a small NOTIFICATION")?;
                let sub = if c == 0 || c == 4 { 0 } else { s }; // Details::{Reserved, HoldTimerExpired} carry no subcode
                let mut want = hdr(21 + data.len() as u16, 3); want.push(c); want.push(sub); want.extend_from_slice(&data);
                if out != want { return Err(format!("NOTIFICATION built is not {}", hex(&want))); }
                let r = catch(|| exec_notif(out.clone()));
                let want_r = format!("ok len={} code={} raw={}.{} data={}", out.len(), c, c, sub, if data.is_empty() { "none".into() } else { hex(&data) });
                if r != want_r { return Err(format!("routecore decodes its own NOTIFICATION as `{}`, expected `{}`", r, want_r)); }
                Ok(())
            }
            ["bnotifn", _c, _s, n, _f] => {
                let n: usize = n.parse().unwrap();
                if 21 + n <= 65535 {
                    let want_prefix = format!("ok len={} head={}", 21 + n, hex(&{ let mut h = hdr((21 + n) as u16, 3); h.push(6); h.push(2); h }));
                    if !reply.starts_with(&want_prefix) || !reply.ends_with("tail_ok=1") { return Err(format!("expected `{} tail_ok=1`", want_prefix)); }
                } else if reply != "err" { return Err("a NOTIFICATION longer than 65535 bytes must be refused".into()); }
                Ok(())
            }
            ["bka"] => {
                if reply != format!("ok {}", hex(&hdr(19, 4))) { return Err("KEEPALIVE builder output is not the 19-byte keepalive".into()); }
                match KeepaliveMessage::from_octets(hdr(19, 4)) { Ok(_) => Ok(()), Err(_) => Err("built KEEPALIVE rejected".into()) }
            }
            _ => Ok(()),
        }
    }

    fn nontrivial(&self, line: &str, reply: &str) -> bool {
        if reply == "bad-op" { return false; }
        let w: Vec<&str> = line.split(' ').collect();
        match w.as_slice() {
            ["open", h] | ["notif", h] | ["ka", h] | ["rr", h] | ["msg", h] => {
                // accepted, or rejected after the header check
                reply.starts_with("ok") || unhex(h).map(|b| header_ok(&b)).unwrap_or(false)
            }
            _ => true,
        }
    }

    fn class(&self, line: &str, reply: &str) -> String {
        let op = line.split(' ').next().unwrap_or("");
        let r = reply.split(' ').next().unwrap_or("");
        match op {
            "open" => {
                if r != "ok" {
                    let late = line.split(' ').nth(1).and_then(unhex).map(|b| header_ok(&b)).unwrap_or(false);
                    return format!("open:{}{}", r, if late { "-after-header" } else { "-header" });
                }
                let caps = reply.split(' ').find(|f| f.starts_with("caps=")).unwrap_or("caps=-");
                let n = if caps == "caps=-" { 0 } else { caps.matches(',').count() + 1 };
                let b = match n { 0 => "0", 1 => "1", 2..=4 => "2-4", _ => "5+" };
                let wf = line.split(' ').nth(1).and_then(unhex).map(|b| ref_decode_open(&b).is_some()).unwrap_or(false);
                format!("open:ok:caps={}:{}", b, if wf { "wellformed" } else { "tolerated" })
            }
            _ => format!("{}:{}", op, r),
        }
    }
}

/// like ref_decode_open but without the per-capability RFC form (builders may be given any TLV)
fn ref_decode_open_lenient(bs: &[u8]) -> Option<RefOpen> {
    if bs.len() < 29 || bs[..16] != MARKER { return None; }
    if u16::from_be_bytes([bs[16], bs[17]]) as usize != bs.len() || bs[18] != 1 { return None; }
    if 29 + bs[28] as usize != bs.len() { return None; }
    let mut params = vec![];
    let mut i = 29;
    while i < bs.len() {
        if i + 2 > bs.len() { return None; }
        let l = bs[i + 1] as usize;
        if i + 2 + l > bs.len() { return None; }
        params.push((bs[i], bs[i + 2..i + 2 + l].to_vec()));
        i += 2 + l;
    }
    let o = RefOpen { ver: bs[19], asn2: u16::from_be_bytes([bs[20], bs[21]]), ht: u16::from_be_bytes([bs[22], bs[23]]),
                      id: [bs[24], bs[25], bs[26], bs[27]], params };
    o.caps()?;
    Some(o)
}
