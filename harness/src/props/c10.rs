//! C10: route preference (`OrdRoute::cmp`, `==`, `try_new`) on real routes
//! built through the public API (PaMap + TiebreakerInfo) from the request
//! line, judged against a reference comparison written from RFC 4271
//! section 9.1.2.2 / RFC 4456 section 9 / RFC 5065 section 5.3 that shares no
//! code with routecore.  The route syntax and the reference are reused by C11.
//!
//! route token: 12 comma separated fields
//!   src,dop,lp,path,origin,med,lasn,oid,bgpid,cl,peer,extra
//!   src    e|i                      learned over eBGP / iBGP
//!   dop    -|u32                    TiebreakerInfo.degree_of_preference
//!   lp     -|!|u32                  LOCAL_PREF attribute (`!` here and in med / oid / cl: the type code holds a
//!                                   `PathAttribute::Invalid`, as after a malformed UPDATE; `get` then finds nothing)
//!   path   -|!|e|hop.hop...         AS_PATH absent | key 2 holds an Invalid attribute | empty | hops
//!          hop = u32 | S<a+b..> | Q<a+b..> | C<a+b..> | D<a+b..>   (AS_SET, AS_SEQUENCE segment kept
//!          as one hop, AS_CONFED_SEQUENCE, AS_CONFED_SET; every kind may be empty: an empty AS_SEQUENCE
//!          segment hop is what `AsPath::new(vec![2, 0], true).to_hop_path()` yields)
//!   origin -|!|u8|U<u8>             ORIGIN absent | key 1 holds an Invalid attribute | OriginType::from(n) |
//!                                   `OriginType::Unimplemented(n)` written out directly (for n <= 2 a value no parse
//!                                   yields: the public enum allows it, `u8::from` of it is n, it goes out as ORIGIN n)
//!   med    -|!|u32    lasn u32    oid -|!|u32 (ORIGINATOR_ID)    bgpid u32
//!   cl     -|!|n (0..=64)           CLUSTER_LIST with n entries
//!   peer   4:u32 | 6:u128           peer address
//!   extra  u32                      0 = nothing, n = NEXT_HOP n (content the comparison never reads)
//!
//! u-token: a route given as a received UPDATE - `u<sess>,<pdu hex>,<src>,<dop>,<lasn>,<bgpid>,<peer>` (see the
//! section "routes given as a received UPDATE" below).  Ops: `try|cmp|tri <strat> <route>..` on 12-field routes,
//! `utry|ucmp|utri <strat> <token>..` where every token is a u-token or a 12-field route; `hops <path>`;
//! `wire-malformed <strat> <src>`.  Replies of the u-ops: as `try|cmp|tri`, or `rej <0|1 per candidate>` (`rej` for
//! utry) when an UPDATE is not accepted by `UpdateMessage::from_octets`, `pmerr` if `from_update_pdu` fails.
use crate::common::*;
use inetnum::asn::Asn;
use octseq::{OctetsInto, Parser};
use routecore::bgp::aspath::{AsPath, Hop, HopPath, OwnedHop, Segment};
use routecore::bgp::message::update::PduParseInfo;
use routecore::bgp::path_attributes::{Attribute, ClusterIds, PaMap, PathAttribute};
use routecore::bgp::path_selection::{DegreeOfPreference, OrdRoute, OrdStrat, Rfc4271, RouteSource, SkipMed, TiebreakerInfo};
use routecore::bgp::types::{ConventionalNextHop, LocalPref, MultiExitDisc, Origin, OriginType, OriginatorId};
use std::cmp::Ordering;
use std::net::{IpAddr, Ipv4Addr, Ipv6Addr};

pub struct C10;

// ---------------------------------------------------------------- route syntax

/// `Seg(kind, asns)`: kind `S`/`Q`/`C`/`D` = AS_SET / AS_SEQUENCE / confed sequence / confed set held as a
/// `Hop::Segment` with four-octet AS numbers; the lower-case letters are the same segments with two-octet
/// AS numbers (as read from a path received in a two-octet session).  The width is not route content.
#[derive(Clone, Debug, Eq)]
pub enum HopSpec { Asn(u32), Seg(char, Vec<u32>) }
impl PartialEq for HopSpec {
    fn eq(&self, o: &Self) -> bool {
        match (self, o) {
            (HopSpec::Asn(a), HopSpec::Asn(b)) => a == b,
            (HopSpec::Seg(c, a), HopSpec::Seg(d, b)) => c.to_ascii_uppercase() == d.to_ascii_uppercase() && a == b,
            _ => false,
        }
    }
}
impl HopSpec {
    /// (kind in upper case, ASNs) of a segment hop
    pub fn seg(&self) -> Option<(char, &[u32])> {
        match self { HopSpec::Seg(c, a) => Some((c.to_ascii_uppercase(), a)), _ => None }
    }
}

#[derive(Clone, Debug, PartialEq, Eq)]
pub enum Slot<T> { Absent, Bogus, Val(T) }

/// What the request line says about one route.  Equality of two specs is
/// equality of route *content* (every field maps injectively to an attribute
/// or a tie-breaker field).
#[derive(Clone, Debug, PartialEq, Eq)]
pub struct RouteSpec {
    pub ibgp: bool,
    pub dop: Option<u32>,
    pub lp: Option<u32>,
    pub path: Slot<Vec<HopSpec>>,
    pub origin: Slot<u8>,
    /// the ORIGIN was given as `U<n>`: the attribute is `Origin(OriginType::Unimplemented(n))` built directly, not
    /// `OriginType::from(n)`.  For n <= 2 another Rust value (and another `PaMap`) with the same origin NUMBER.
    pub origin_raw: bool,
    pub med: Option<u32>,
    pub lasn: u32,
    pub oid: Option<u32>,
    pub bgpid: u32,
    pub cl: Option<u32>,
    pub peer_v6: bool,
    pub peer: u128,
    pub extra: u32,
    /// bit 0 / 1 / 2 / 3: the LOCAL_PREF / MED / ORIGINATOR_ID / CLUSTER_LIST type code holds an
    /// `Invalid` attribute (the field itself is then `None`: the comparison finds no such attribute)
    pub bogus: u8,
    /// only for a route read from a received UPDATE (u-token): every attribute the route holds, first
    /// occurrence per type code, as (kind `t`/`i`/`u`, code, flags kept, canonical value) - so that equality of
    /// two specs stays equality of route content.  Empty for a route given by its 12 fields.
    pub rest: Vec<(u8, u8, u8, Vec<u8>)>,
}

/// strict decimal: digits only, 1..=39 of them (the Lean side does the same)
pub fn nat(s: &str, max: u128) -> Option<u128> {
    if s.is_empty() || s.len() > 39 || !s.bytes().all(|b| b.is_ascii_digit()) { return None; }
    let v: u128 = s.parse().ok()?;
    if v <= max { Some(v) } else { None }
}
fn opt_u32(s: &str) -> Option<Option<u32>> {
    if s == "-" { Some(None) } else { nat(s, u32::MAX as u128).map(|v| Some(v as u32)) }
}
/// `!` = the slot holds an Invalid attribute: no value, and the bit is recorded in `mask`
fn slot_u32(s: &str, max: u128, bit: u8, mask: &mut u8) -> Option<Option<u32>> {
    if s == "!" { *mask |= bit; return Some(None); }
    if s == "-" { Some(None) } else { nat(s, max).map(|v| Some(v as u32)) }
}

fn parse_hop(s: &str) -> Option<HopSpec> {
    let c = s.chars().next()?;
    if c.is_ascii_digit() { return nat(s, u32::MAX as u128).map(|v| HopSpec::Asn(v as u32)); }
    if !matches!(c, 'S' | 'Q' | 'C' | 'D' | 's' | 'q' | 'c' | 'd') { return None; }
    let rest = &s[1..];
    let mut asns = Vec::new();
    if !rest.is_empty() {
        for a in rest.split('+') { asns.push(nat(a, u32::MAX as u128)? as u32); }
    }
    if asns.len() > 255 { return None; }
    // two-octet segments hold two-octet AS numbers
    if c.is_ascii_lowercase() && asns.iter().any(|a| *a > 65535) { return None; }
    Some(HopSpec::Seg(c, asns))
}

pub fn parse_route(s: &str) -> Option<RouteSpec> {
    let f: Vec<&str> = s.split(',').collect();
    if f.len() != 12 { return None; }
    let ibgp = match f[0] { "e" => false, "i" => true, _ => return None };
    let dop = opt_u32(f[1])?;
    let mut bogus = 0u8;
    let lp = slot_u32(f[2], u32::MAX as u128, 1, &mut bogus)?;
    let path = match f[3] {
        "-" => Slot::Absent,
        "!" => Slot::Bogus,
        "e" => Slot::Val(vec![]),
        p => {
            let mut hops = Vec::new();
            for h in p.split('.') { hops.push(parse_hop(h)?); }
            if hops.len() > 400 { return None; }
            Slot::Val(hops)
        }
    };
    let origin = match f[4] {
        "-" => Slot::Absent,
        "!" => Slot::Bogus,
        o => Slot::Val(nat(o.strip_prefix('U').unwrap_or(o), 255)? as u8),
    };
    // `Unimplemented(n)` for n > 2 IS `OriginType::from(n)`: the same value, the same content
    let origin_raw = f[4].starts_with('U') && matches!(origin, Slot::Val(o) if o <= 2);
    let med = slot_u32(f[5], u32::MAX as u128, 2, &mut bogus)?;
    let lasn = nat(f[6], u32::MAX as u128)? as u32;
    let oid = slot_u32(f[7], u32::MAX as u128, 4, &mut bogus)?;
    let bgpid = nat(f[8], u32::MAX as u128)? as u32;
    let cl = slot_u32(f[9], 64, 8, &mut bogus)?;
    let (peer_v6, peer) = match f[10].split_once(':')? {
        ("4", a) => (false, nat(a, u32::MAX as u128)?),
        ("6", a) => (true, nat(a, u128::MAX)?),
        _ => return None,
    };
    let extra = nat(f[11], u32::MAX as u128)? as u32;
    Some(RouteSpec { ibgp, dop, lp, path, origin, origin_raw, med, lasn, oid, bgpid, cl, peer_v6, peer, extra, bogus, rest: vec![] })
}

fn show_opt(o: Option<u32>) -> String { o.map(|v| v.to_string()).unwrap_or("-".into()) }

pub fn show_route(r: &RouteSpec) -> String {
    let path = match &r.path {
        Slot::Absent => "-".to_string(),
        Slot::Bogus => "!".to_string(),
        Slot::Val(h) if h.is_empty() => "e".to_string(),
        Slot::Val(h) => h.iter().map(|h| match h {
            HopSpec::Asn(a) => a.to_string(),
            HopSpec::Seg(c, asns) => format!("{}{}", c, asns.iter().map(|a| a.to_string()).collect::<Vec<_>>().join("+")),
        }).collect::<Vec<_>>().join("."),
    };
    let origin = match &r.origin { Slot::Absent => "-".into(), Slot::Bogus => "!".into(), Slot::Val(o) => format!("{}{}", if r.origin_raw { "U" } else { "" }, o) };
    let slot = |o: Option<u32>, bit: u8| if r.bogus & bit != 0 { "!".to_string() } else { show_opt(o) };
    format!("{},{},{},{},{},{},{},{},{},{},{}:{},{}",
        if r.ibgp { "i" } else { "e" }, show_opt(r.dop), slot(r.lp, 1), path, origin, slot(r.med, 2), r.lasn,
        slot(r.oid, 4), r.bgpid, slot(r.cl, 8), if r.peer_v6 { 6 } else { 4 }, r.peer, r.extra)
}

// ------------------------------------------------- building the real thing

fn seq_segment(asns: &[u32]) -> Segment<Vec<u8>> {
    // an empty AS_SEQUENCE segment: only from a parsed path that contains one
    if asns.is_empty() {
        let ap = AsPath::new(vec![2u8, 0], true).unwrap();
        let seg = ap.segments().next().unwrap();
        return seg.octets_into();
    }
    // the only public way to an AS_SEQUENCE `Segment`: compose a path and read its first segment back
    let hp = HopPath::from(asns.iter().map(|a| Asn::from_u32(*a)).collect::<Vec<Asn>>());
    let ap: AsPath<Vec<u8>> = hp.to_as_path().unwrap();
    let seg = ap.segments().next().unwrap();
    seg.octets_into()
}

/// a segment with two-octet AS numbers, as `AsPath::new(octets, false).segments()` yields it
fn seg16(kind: char, asns: &[u32]) -> Segment<Vec<u8>> {
    let ty = match kind { 'S' => 1u8, 'Q' => 2, 'C' => 3, _ => 4 };
    let mut raw = vec![ty, asns.len() as u8];
    for a in asns { raw.extend_from_slice(&(*a as u16).to_be_bytes()); }
    let ap = AsPath::new(raw, false).unwrap();
    let seg = ap.segments().next().unwrap();
    seg.octets_into()
}

fn build_hop(h: &HopSpec) -> OwnedHop {
    match h {
        HopSpec::Asn(a) => Hop::Asn(Asn::from_u32(*a)),
        HopSpec::Seg(c, asns) => {
            let it = asns.iter().map(|a| Asn::from_u32(*a));
            if c.is_ascii_lowercase() { return Hop::Segment(seg16(c.to_ascii_uppercase(), asns)); }
            Hop::Segment(match c {
                'S' => Segment::new_set(it),
                'C' => Segment::new_confed_sequence(it),
                'D' => Segment::new_confed_set(it),
                _ => seq_segment(asns),
            })
        }
    }
}

pub fn build_hop_path(hops: &[HopSpec]) -> HopPath {
    HopPath::from(hops.iter().map(build_hop).collect::<Vec<OwnedHop>>())
}

pub fn build(r: &RouteSpec) -> (PaMap, TiebreakerInfo) {
    let mut m = PaMap::empty();
    match &r.origin {
        Slot::Absent => {}
        // what PaMap::from_update_pdu stores for a received ORIGIN of the wrong length
        Slot::Bogus => { m.add_attribute(PathAttribute::Invalid(0x40.into(), 1, vec![0, 0])).unwrap(); }
        Slot::Val(o) => { m.set(Origin(if r.origin_raw { OriginType::Unimplemented(*o) } else { OriginType::from(*o) })); }
    }
    match &r.path {
        Slot::Absent => {}
        // ... and for a received AS_PATH that does not validate
        Slot::Bogus => { m.add_attribute(PathAttribute::Invalid(0x40.into(), 2, vec![2, 1, 0])).unwrap(); }
        Slot::Val(h) => { m.set(build_hop_path(h)); }
    }
    if let Some(v) = r.lp { m.set(LocalPref(v)); }
    if let Some(v) = r.med { m.set(MultiExitDisc(v)); }
    if let Some(v) = r.oid { m.set(OriginatorId(Ipv4Addr::from(v))); }
    // what PaMap::from_update_pdu stores for a received LOCAL_PREF / MED / ORIGINATOR_ID / CLUSTER_LIST of a wrong length
    for (bit, flags, code, val) in [(1u8, 0x40u8, 5u8, vec![0u8, 0]), (2, 0x80, 4, vec![0, 0]), (4, 0x80, 9, vec![1, 2, 3]), (8, 0x80, 10, vec![1, 2, 3])] {
        if r.bogus & bit != 0 { m.add_attribute(PathAttribute::Invalid(flags.into(), code, val)).unwrap(); }
    }
    if let Some(n) = r.cl {
        let mut bytes = Vec::new();
        for i in 0..n { bytes.extend_from_slice(&(0x0a000001u32 + i).to_be_bytes()); }
        let ids = <ClusterIds as Attribute>::parse(&mut Parser::from_ref(&bytes), PduParseInfo::modern()).unwrap();
        m.set(ids);
    }
    if r.extra != 0 { m.set(ConventionalNextHop(Ipv4Addr::from(r.extra))); }
    (m, build_tb(r))
}

/// the tie-breaker record of a route spec
pub fn build_tb(r: &RouteSpec) -> TiebreakerInfo {
    let peer = if r.peer_v6 { IpAddr::V6(Ipv6Addr::from(r.peer)) } else { IpAddr::V4(Ipv4Addr::from(r.peer as u32)) };
    TiebreakerInfo::new(
        if r.ibgp { RouteSource::Ibgp } else { RouteSource::Ebgp },
        r.dop.map(DegreeOfPreference),
        Asn::from_u32(r.lasn),
        r.bgpid.to_be_bytes().into(),
        peer,
    )
}

/// `ok` or `refused`.  The property says WHICH routes are refused, not with which error: the reason
/// (a private enum behind `DecisionError`, visible only through its Display / Debug text) is not observed.
pub fn refusal<OS: OrdStrat>(m: &PaMap, tb: TiebreakerInfo) -> &'static str {
    match OrdRoute::<OS>::try_new(m, tb) { Ok(_) => "ok", Err(_) => "refused" }
}

pub fn ord(o: Ordering) -> &'static str { match o { Ordering::Less => "lt", Ordering::Equal => "eq", Ordering::Greater => "gt" } }

/// The routes are compared twice: each on its own `PaMap` allocation, and with equal attribute maps
/// interned to ONE object (routes of a RIB that shares attribute sets).  The reply is the common
/// result, or both joined by ` | shared `.
fn cmp_line<OS: OrdStrat>(specs: &[RouteSpec]) -> String {
    let built: Vec<(PaMap, TiebreakerInfo)> = specs.iter().map(build).collect();
    cmp_built::<OS>(&built)
}

fn cmp_built<OS: OrdStrat>(built: &[(PaMap, TiebreakerInfo)]) -> String {
    let why: Vec<&str> = built.iter().map(|(m, t)| refusal::<OS>(m, *t)).collect();
    if why.iter().any(|w| *w != "ok") { return format!("refused {}", why.join(" ")); }
    let own: Vec<&PaMap> = built.iter().map(|(m, _)| m).collect();
    let shared: Vec<&PaMap> = built.iter().map(|(m, _)| &built.iter().find(|(o, _)| o == m).unwrap().0).collect();
    let a = cmp_on::<OS>(built, &own);
    let b = cmp_on::<OS>(built, &shared);
    if a == b { a } else { format!("{} | shared {}", a, b) }
}

/// (tie coverage) the other public ways to the same comparison: the named constructors `rfc4271` / `skip_med`,
/// the strategy conversions `into_strat` / `from_strat` (a converted route compares as one built for that strategy),
/// the accessors `tiebreakers` / `pa_map` / `inner`, and `preferred` (= the smaller of two)
fn alt_ok<OS: OrdStrat>(built: &[(PaMap, TiebreakerInfo)], maps: &[&PaMap]) -> bool {
    use routecore::bgp::path_selection::preferred;
    let mk = |i: usize| OrdRoute::<OS>::try_new(maps[i], built[i].1).unwrap();
    let (a, b) = (mk(0), mk(1));
    if a.tiebreakers() != built[0].1 || !std::ptr::eq(a.pa_map(), maps[0]) || a.inner() != (built[0].1, maps[0]) { return false; }
    let (Ok(ra), Ok(rb)) = (OrdRoute::rfc4271(maps[0], built[0].1), OrdRoute::rfc4271(maps[1], built[1].1)) else { return false };
    let (Ok(sa), Ok(sb)) = (OrdRoute::skip_med(maps[0], built[0].1), OrdRoute::skip_med(maps[1], built[1].1)) else { return false };
    let (ca, cb): (OrdRoute<Rfc4271>, OrdRoute<Rfc4271>) = (mk(0).into_strat(), mk(1).into_strat());
    let (da, db): (OrdRoute<SkipMed>, OrdRoute<SkipMed>) = (OrdRoute::from_strat(mk(0)), OrdRoute::from_strat(mk(1)));
    if ca.cmp(&cb) != ra.cmp(&rb) || da.cmp(&db) != sa.cmp(&sb) { return false; }
    // back to the strategy of the request: the same answer as the routes built for it
    let (ea, eb): (OrdRoute<OS>, OrdRoute<OS>) = (ca.into_strat(), OrdRoute::from_strat(db));
    if ea.cmp(&eb) != a.cmp(&b) { return false; }
    let p = preferred(mk(0), mk(1));
    let want = if a.cmp(&b) == Ordering::Greater { 1 } else { 0 };
    std::ptr::eq(p.pa_map(), maps[want]) && p.tiebreakers() == built[want].1
}

fn cmp_on<OS: OrdStrat>(built: &[(PaMap, TiebreakerInfo)], maps: &[&PaMap]) -> String {
    let rs: Vec<OrdRoute<OS>> = built.iter().zip(maps).map(|((_, t), m)| OrdRoute::try_new(*m, *t).unwrap()).collect();
    match rs.len() {
        2 => format!("{} {} {} {}{}", ord(rs[0].cmp(&rs[1])), if rs[0] == rs[1] { "same" } else { "diff" },
            ord(rs[1].cmp(&rs[0])), ord(rs[0].partial_cmp(&rs[1]).unwrap()), if alt_ok::<OS>(built, maps) { "" } else { " ALT-BAD" }),
        _ => format!("{} {} {}", ord(rs[0].cmp(&rs[1])), ord(rs[1].cmp(&rs[2])), ord(rs[0].cmp(&rs[2]))),
    }
}

// ------------------------------------ the reference: RFC 4271 9.1 as elimination

/// 9.1.1: degree of preference.  Locally configured value if there is one;
/// otherwise LOCAL_PREF for a route learned from an internal peer; otherwise
/// nothing is known and all such routes rank alike (0).
fn ref_dop(r: &RouteSpec) -> u32 {
    match (r.dop, r.ibgp, r.lp) { (Some(d), _, _) => d, (None, true, Some(l)) => l, _ => 0 }
}
fn ref_hops(r: &RouteSpec) -> &[HopSpec] { match &r.path { Slot::Val(h) => h, _ => &[] } }
/// 9.1.2.2 (a) with RFC 5065 5.3: every AS in an AS_SEQUENCE counts 1, an
/// AS_SET counts 1 whatever its size, confederation segments count 0.
fn ref_path_len(r: &RouteSpec) -> usize {
    ref_hops(r).iter().map(|h| match h {
        HopSpec::Asn(_) => 1,
        h => match h.seg() { Some(('S', _)) => 1, Some(('Q', asns)) => asns.len(), _ => 0 },
    }).sum()
}
/// 9.1.2.2 (c) neighborAS: the leftmost AS of the AS_PATH when the path starts
/// with an AS_SEQUENCE; a path that is empty (or starts with something that
/// names no single neighbour) was originated inside the local AS.
fn ref_neighbour(r: &RouteSpec) -> u32 {
    match ref_hops(r).first() {
        Some(HopSpec::Asn(a)) => *a,
        Some(h) => match h.seg() { Some(('Q', asns)) if !asns.is_empty() => asns[0], _ => r.lasn },
        _ => r.lasn,
    }
}
fn ref_origin(r: &RouteSpec) -> u8 { match r.origin { Slot::Val(o) => o, _ => 0 } }
fn ref_med(r: &RouteSpec) -> u32 { r.med.unwrap_or(0) }
/// (f) + RFC 4456 section 9: ORIGINATOR_ID stands in for the BGP identifier.
fn ref_id(r: &RouteSpec) -> u32 { r.oid.unwrap_or(r.bgpid) }
fn ref_cluster_len(r: &RouteSpec) -> u32 { r.cl.unwrap_or(0) }
fn ref_peer(r: &RouteSpec) -> (bool, u128) { (r.peer_v6, r.peer) }

pub fn ref_eligible(r: &RouteSpec) -> bool {
    matches!(r.origin, Slot::Val(_)) && matches!(r.path, Slot::Val(_))
        && (r.ibgp || match ref_hops(r).first() {
            Some(HopSpec::Asn(_)) => true,
            Some(h) => matches!(h.seg(), Some(('Q', asns)) if !asns.is_empty()),
            _ => false,
        })
}

/// Routes of which the property does not say that they are accepted - the places where routecore's reading of a
/// route is its own policy and RFC 7606 would have the route treated as withdrawn: an ORIGIN value the RFC does
/// not define (> 2; 7606 7.1), an AS_PATH with a zero-length segment (7.2), an optional attribute whose type code
/// holds an Invalid attribute (a MED / LOCAL_PREF / ORIGINATOR_ID / CLUSTER_LIST of a wrong length: 7.4 / 7.5 / 7.9 /
/// 7.10).  The oracle ABSTAINS on acceptance: refusing such a route is accepted.  When it is accepted it is compared
/// by the property's text (ORIGIN by number; a set counts one, an empty AS_SEQUENCE nothing; the Invalid attribute
/// as absent).  The fourth such place - ORIGINATOR_ID / CLUSTER_LIST on a route learned over eBGP, which 7606 7.9 /
/// 7.10 would discard - is judged by the property's text too ("lowest BGP identifier with ORIGINATOR_ID
/// substituted, shorter cluster list": no exception for eBGP), which is what routecore does.
pub fn may_be_refused(r: &RouteSpec) -> bool {
    matches!(r.origin, Slot::Val(o) if o > 2) || r.bogus != 0
        || matches!(&r.path, Slot::Val(h) if h.iter().any(|x| matches!(x, HopSpec::Seg(_, a) if a.is_empty())))
}

/// "refused at construction": `ok` only for eligible routes, `refused` for every route lacking ORIGIN /
/// AS_PATH / eBGP neighbour (and tolerated where `may_be_refused`)
pub fn judge_construction(r: &RouteSpec, reply: &str) -> Result<(), String> {
    match reply {
        "ok" => if ref_eligible(r) { Ok(()) } else { Err("a route lacking ORIGIN / AS_PATH / eBGP neighbour AS was accepted".into()) },
        "refused" => if !ref_eligible(r) || may_be_refused(r) { Ok(()) } else { Err("an eligible route was refused".into()) },
        x => Err(format!("unexpected construction reply {}", x)),
    }
}

/// The tie-breaking procedure of 9.1.2.2 run on the candidate set {a, b}:
/// each step removes candidates from consideration; whoever is left alone is
/// preferred.  `med` = step (c) enabled.
pub fn rfc_prefer(a: &RouteSpec, b: &RouteSpec, med: bool) -> Ordering {
    let rs = [a, b];
    let mut alive: Vec<usize> = vec![0, 1];
    fn keep_min<K: Ord + Copy>(alive: &mut Vec<usize>, key: impl Fn(usize) -> K) {
        let m = alive.iter().map(|i| key(*i)).min().unwrap();
        alive.retain(|i| key(*i) == m);
    }
    // phase 2: highest degree of preference
    let top = alive.iter().map(|i| ref_dop(rs[*i])).max().unwrap();
    alive.retain(|i| ref_dop(rs[*i]) == top);
    // a) smallest number of AS numbers in AS_PATH
    keep_min(&mut alive, |i| ref_path_len(rs[i]));
    // b) lowest origin number
    keep_min(&mut alive, |i| ref_origin(rs[i]));
    // c) for m, n still under consideration: same neighborAS and MED(n) < MED(m) removes m
    if med {
        let snapshot = alive.clone();
        alive.retain(|m| !snapshot.iter().any(|n| ref_neighbour(rs[*n]) == ref_neighbour(rs[*m]) && ref_med(rs[*n]) < ref_med(rs[*m])));
    }
    // d) if at least one candidate was received via EBGP, remove all received via IBGP
    if alive.iter().any(|i| !rs[*i].ibgp) { alive.retain(|i| !rs[*i].ibgp); }
    // e) interior cost: not available to the comparison, all candidates rank alike
    // f) lowest BGP identifier (ORIGINATOR_ID substituted)
    keep_min(&mut alive, |i| ref_id(rs[i]));
    // RFC 4456: shorter CLUSTER_LIST
    keep_min(&mut alive, |i| ref_cluster_len(rs[i]));
    // g) lowest peer address
    keep_min(&mut alive, |i| ref_peer(rs[i]));
    match (alive.contains(&0), alive.contains(&1)) {
        (true, false) => Ordering::Less,
        (false, true) => Ordering::Greater,
        _ => Ordering::Equal,
    }
}

/// the statement of C10 on one two-route reply (`refused ..` or `<ab> <same|diff> <ba> <partial_cmp>`), for the
/// routes `a`, `b` as the reference reads them
fn judge_cmp(s: &str, a: &RouteSpec, b: &RouteSpec, r: &[&str]) -> Result<(), String> {
    let el = [ref_eligible(a), ref_eligible(b)];
        if r[0] == "refused" {
            if r.len() != 3 { return Err("reply".into()); }
            for (i, x) in [a, b].iter().enumerate() { judge_construction(x, r[1 + i]).map_err(|e| format!("route {}: {}", i, e))?; }
            return Ok(());
        }
        if !(el[0] && el[1]) { return Err("an ineligible route reached comparison".into()); }
        let med = s == "rfc4271";
        let want = rfc_prefer(a, b, med);
        if r.len() != 4 { return Err("reply".into()); }
        let (ab, ba) = (parse_ord(r[0]).ok_or("reply")?, parse_ord(r[2]).ok_or("reply")?);
        if ab != want { return Err(format!("cmp = {} but RFC 4271 9.1 elimination gives {}", r[0], ord(want))); }
        if ba != ab.reverse() { return Err(format!("antisymmetry: cmp(a,b) = {}, cmp(b,a) = {}", r[0], r[2])); }
        if (r[1] == "same") != (ab == Ordering::Equal) { return Err("== disagrees with cmp".into()); }
        if r[3] != r[0] { return Err("partial_cmp disagrees with cmp".into()); }
        if a == b && ab != Ordering::Equal { return Err("a route is not equal to itself".into()); }
        Ok(())
}

/// ... and on a three-route reply (`refused ...` or `<ab> <bc> <ac>`)
fn judge_tri(s: &str, rs: &[RouteSpec], r: &[&str]) -> Result<(), String> {
        if r[0] == "refused" {
            if r.len() != 4 { return Err("reply".into()); }
            for i in 0..3 { judge_construction(&rs[i], r[1 + i]).map_err(|e| format!("route {}: {}", i, e))?; }
            return Ok(());
        }
        if !rs.iter().all(ref_eligible) { return Err("an ineligible route reached comparison".into()); }
        if r.len() != 3 { return Err("reply".into()); }
        let med = s == "rfc4271";
        let o: Vec<Ordering> = r.iter().map(|x| parse_ord(x).ok_or("reply")).collect::<Result<_, _>>()?;
        let (ab, bc, ac) = (o[0], o[1], o[2]);
        for (got, (x, y), nm) in [(ab, (0, 1), "ab"), (bc, (1, 2), "bc"), (ac, (0, 2), "ac")] {
            let want = rfc_prefer(&rs[x], &rs[y], med);
            if got != want { return Err(format!("cmp {} = {} but RFC elimination gives {}", nm, ord(got), ord(want))); }
        }
        if !med {
            // strict weak order: < transitive, equivalence transitive, equivalence compatible with <
            use Ordering::*;
            let want_ac = match (ab, bc) {
                (Less, Less) | (Less, Equal) | (Equal, Less) => Some(Less),
                (Greater, Greater) | (Greater, Equal) | (Equal, Greater) => Some(Greater),
                (Equal, Equal) => Some(Equal),
                _ => None,
            };
            if let Some(w) = want_ac { if ac != w { return Err(format!("weak order law broken: ab={} bc={} ac={}", r[0], r[1], r[2])); } }
        }
        Ok(())
}

fn parse_ord(s: &str) -> Option<Ordering> {
    match s { "lt" => Some(Ordering::Less), "eq" => Some(Ordering::Equal), "gt" => Some(Ordering::Greater), _ => None }
}


// ------------------------------------------- routes given as a received UPDATE (u-tokens)
//
//   u<sess>,<pdu hex>,<src>,<dop>,<lasn>,<bgpid>,<peer>
//   <sess>   nothing = session with four-octet AS numbers (`SessionConfig::modern()`), `2` = two-octet
//            (`legacy()`), `a` / `2a` = the same with ADD-PATH for all families (as C17's PDU tokens)
//   the other five fields: the tie-breaker record, as in the 12-field route token
//
// The real route: `UpdateMessage::from_octets` -> `PaMap::from_update_pdu` -> `OrdRoute::try_new`.
// The independent reading (`read_pdu`): this file's own walk over the attribute section (RFC 4271 4.3 framing,
// RFC 7606 3.g first occurrence, the length rules of the RFCs) into the same `RouteSpec` the reference
// comparison `rfc_prefer` works on.  It shares no code with routecore (its policy choices are routecore's, see
// `read_pdu` / `may_be_refused`).

#[derive(Clone, Debug)]
pub struct PduCand { pub four: bool, pub ap: bool, pub pdu: Vec<u8>, pub tb: RouteSpec }

#[derive(Clone, Debug)]
pub enum Cand { Abs(RouteSpec), Pdu(PduCand) }

pub fn parse_cand(s: &str) -> Option<Cand> {
    let f: Vec<&str> = s.split(',').collect();
    if f.len() != 7 { return parse_route(s).map(Cand::Abs); }
    let (four, ap) = match f[0] { "u" => (true, false), "u2" => (false, false), "ua" => (true, true), "u2a" => (false, true), _ => return None };
    let pdu = unhex(f[1])?;
    let tb = parse_route(&format!("{},{},-,-,-,-,{},-,{},-,{},0", f[2], f[3], f[4], f[5], f[6]))?;
    Some(Cand::Pdu(PduCand { four, ap, pdu, tb }))
}

pub fn show_tb(r: &RouteSpec) -> String {
    format!("{},{},{},{},{}:{}", if r.ibgp { "i" } else { "e" }, show_opt(r.dop), r.lasn, r.bgpid, if r.peer_v6 { 6 } else { 4 }, r.peer)
}

pub fn show_pdu_cand(four: bool, ap: bool, pdu: &[u8], tb: &RouteSpec) -> String {
    format!("u{}{},{},{}", if four { "" } else { "2" }, if ap { "a" } else { "" }, hex(pdu), show_tb(tb))
}

pub enum BuiltCand { Rej, PmErr, Ok(PaMap, TiebreakerInfo) }

pub fn build_cand(c: &Cand) -> BuiltCand {
    match c {
        Cand::Abs(r) => { let (m, t) = build(r); BuiltCand::Ok(m, t) }
        Cand::Pdu(p) => {
            let sc = crate::props::c17::session(p.four, p.ap);
            let Ok(u) = routecore::bgp::message::UpdateMessage::from_octets(p.pdu.clone(), &sc) else { return BuiltCand::Rej };
            match PaMap::from_update_pdu(&u) { Ok(m) => BuiltCand::Ok(m, build_tb(&p.tb)), Err(_) => BuiltCand::PmErr }
        }
    }
}

/// `Ok(built)` or the reply of a line one of whose UPDATEs is not accepted (`rej <0|1 per candidate>`) / whose
/// accepted UPDATE `from_update_pdu` refuses (`pmerr`: the model has no such case)
pub fn build_all(cands: &[Cand]) -> Result<Vec<(PaMap, TiebreakerInfo)>, String> {
    let mut built = Vec::new();
    let mut rej = Vec::new();
    for c in cands {
        match build_cand(c) {
            BuiltCand::Rej => rej.push("1"),
            BuiltCand::PmErr => return Err("pmerr".into()),
            BuiltCand::Ok(m, t) => { rej.push("0"); built.push((m, t)); }
        }
    }
    if rej.contains(&"1") { return Err(format!("rej {}", rej.join(" "))); }
    Ok(built)
}

// ---- the independent reading of the PDU

/// the attribute section cut into (flags, code, value); None if the sections or an attribute do not fit
fn own_walk(pdu: &[u8]) -> Option<Vec<(u8, u8, Vec<u8>)>> {
    if pdu.len() < 23 { return None; }
    let wl = ((pdu[19] as usize) << 8) | pdu[20] as usize;
    let p = 21 + wl;
    if pdu.len() < p + 2 { return None; }
    let al = ((pdu[p] as usize) << 8) | pdu[p + 1] as usize;
    let sec = pdu.get(p + 2..p + 2 + al)?;
    let mut out = Vec::new();
    let mut i = 0;
    while i < sec.len() {
        let fl = *sec.get(i)?;
        let code = *sec.get(i + 1)?;
        let (len, h) = if fl & 0x10 != 0 { (((*sec.get(i + 2)? as usize) << 8) | *sec.get(i + 3)? as usize, 4) } else { (*sec.get(i + 2)? as usize, 3) };
        out.push((fl, code, sec.get(i + h..i + h + len)?.to_vec()));
        i += h + len;
    }
    Some(out)
}

/// an AS path attribute value with AS numbers of `w` octets, as hops: RFC 4271 4.3 b / RFC 5065 segment types
/// 1..4, a count, count AS numbers.  The ASes of a (non-empty) AS_SEQUENCE are the hops of the route, any
/// other segment is one hop.
fn own_path(v: &[u8], w: usize) -> Option<Vec<HopSpec>> {
    let mut hops = Vec::new();
    let mut i = 0;
    while i < v.len() {
        let t = *v.get(i)?;
        let n = *v.get(i + 1)? as usize;
        let body = v.get(i + 2..i + 2 + n * w)?;
        let asns: Vec<u32> = body.chunks(w).map(|c| c.iter().fold(0u32, |a, b| (a << 8) | *b as u32)).collect();
        match t {
            2 if n > 0 => hops.extend(asns.into_iter().map(HopSpec::Asn)),
            1 => hops.push(HopSpec::Seg('S', asns)),
            2 => hops.push(HopSpec::Seg('Q', asns)),
            3 => hops.push(HopSpec::Seg('C', asns)),
            4 => hops.push(HopSpec::Seg('D', asns)),
            _ => return None,
        }
        i += 2 + n * w;
    }
    Some(hops)
}

/// length rules of the attribute types routecore knows (RFC 4271 5, 4456, 1997, 4360, 6793, 5701, 8092, 9234, 6368 ...)
fn own_valid(code: u8, v: &[u8], four: bool) -> Option<bool> {
    let n = v.len();
    Some(match code {
        1 => n == 1,
        2 => own_path(v, if four { 4 } else { 2 }).is_some(),
        17 => own_path(v, 4).is_some(),
        3 | 4 | 5 | 9 | 20 | 35 => n == 4,
        6 => n == 0,
        7 => n == if four { 8 } else { 6 },
        18 => n == 8,
        8 | 10 => n % 4 == 0,
        16 => n % 8 == 0,
        21 => n == 5,
        25 => n % 20 == 0,
        32 => n % 12 == 0,
        128 => n >= 4,
        255 => true,
        _ => return None,
    })
}

fn ser_hops(h: &[HopSpec]) -> Vec<u8> {
    let mut o = Vec::new();
    for x in h {
        match x {
            HopSpec::Asn(a) => { o.push(0); o.extend(a.to_be_bytes()); }
            HopSpec::Seg(c, asns) => { o.push(c.to_ascii_uppercase() as u8); o.push(asns.len() as u8); for a in asns { o.extend(a.to_be_bytes()); } }
        }
    }
    o
}

/// The route a received UPDATE denotes, read by this file's own code (no routecore call): of several attributes
/// with one type code the first counts (RFC 7606 3.g); ORIGIN is one octet, LOCAL_PREF / MED / ORIGINATOR_ID four,
/// CLUSTER_LIST a whole number of four-octet ids; an attribute of another shape is there but unusable (`Bogus` / the
/// `bogus` bit); the AS_PATH is read in the AS number width of the session; an AS4_PATH is NOT merged into it
/// (routecore leaves RFC 6793 4.2.3 reconstruction to its user: `get::<HopPath>()` is the AS_PATH attribute).
/// A second opinion on the MECHANICS (framing, first occurrence, widths, hop counting, neighbour).  On POLICY it
/// adopts routecore's choices where RFC 7606 says otherwise (undefined ORIGIN value = a value, zero-length segment
/// accepted, malformed optional attribute = absent, ORIGINATOR_ID / CLUSTER_LIST over eBGP used): there the oracle
/// abstains on acceptance (`may_be_refused`) and otherwise judges by the property's text, never against RFC 7606.
/// None: the attribute section cannot be walked (the UPDATE is malformed as a whole).
pub fn read_pdu(c: &PduCand) -> Option<RouteSpec> {
    let attrs = own_walk(&c.pdu)?;
    let mut r = c.tb.clone();
    let first = |code: u8| attrs.iter().find(|a| a.1 == code).map(|a| &a.2);
    let be = |v: &Vec<u8>| u32::from_be_bytes([v[0], v[1], v[2], v[3]]);
    r.origin_raw = false;
    r.origin = match first(1) { None => Slot::Absent, Some(v) if v.len() == 1 => Slot::Val(v[0]), Some(_) => Slot::Bogus };
    r.path = match first(2) { None => Slot::Absent, Some(v) => match own_path(v, if c.four { 4 } else { 2 }) { Some(h) => Slot::Val(h), None => Slot::Bogus } };
    r.bogus = 0;
    let mut four_octets = |code: u8, bit: u8| match first(code) { None => None, Some(v) if v.len() == 4 => Some(be(v)), Some(_) => { r.bogus |= bit; None } };
    let lp = four_octets(5, 1);
    let med = four_octets(4, 2);
    let oid = four_octets(9, 4);
    r.lp = lp; r.med = med; r.oid = oid;
    r.cl = match first(10) { None => None, Some(v) if v.len() % 4 == 0 => Some((v.len() / 4) as u32), Some(_) => { r.bogus |= 8; None } };
    r.extra = 0;
    // the content of the route: every attribute but MP_REACH_NLRI / MP_UNREACH_NLRI, first occurrence per code
    let mut rest: Vec<(u8, u8, u8, Vec<u8>)> = Vec::new();
    for (fl, code, v) in &attrs {
        if *code == 14 || *code == 15 || rest.iter().any(|x| x.1 == *code) { continue; }
        rest.push(match own_valid(*code, v, c.four) {
            None => (b'u', *code, *fl, v.clone()),
            Some(false) => (b'i', *code, 0, v.clone()),
            Some(true) => (b't', *code, 0, match code {
                2 => ser_hops(&own_path(v, if c.four { 4 } else { 2 }).unwrap()),
                17 => ser_hops(&own_path(v, 4).unwrap()),
                7 if !c.four => { let mut x = vec![0u8, 0]; x.extend(v); x }
                _ => v.clone(),
            }),
        });
    }
    rest.sort();
    r.rest = rest;
    Some(r)
}

/// the specs the reference judges for the candidates of a line; None = some UPDATE cannot be walked
pub fn cand_specs(cands: &[Cand]) -> Option<Vec<RouteSpec>> {
    cands.iter().map(|c| match c { Cand::Abs(r) => Some(r.clone()), Cand::Pdu(p) => read_pdu(p) }).collect()
}

// ---- generator of UPDATEs for the decision process

/// one attribute of a planned UPDATE: flags, code, value, two-octet length forced
#[derive(Clone, Debug)]
pub struct PAttr { pub fl: u8, pub code: u8, pub val: Vec<u8>, pub ext: bool }

fn canon_flags(code: u8) -> u8 { match code { 1 | 2 | 3 | 5 | 6 => 0x40, 4 | 9 | 10 | 14 | 15 => 0x80, _ => 0xC0 } }

fn pa(rng: &mut Rng, code: u8, val: Vec<u8>) -> PAttr {
    let fl = if rng.chance(1, 12) { *rng.pick(&[0x40u8, 0x80, 0xC0, 0xE0]) } else { canon_flags(code) };
    PAttr { fl, code, val, ext: rng.chance(1, 15) }
}

/// an AS path value with AS numbers of the given width: few ASes from a small pool (ties in length and
/// neighbour AS are frequent), all four segment types, empty segments, the empty path
pub fn gen_wire_path(rng: &mut Rng, four: bool) -> Vec<u8> {
    let mut v = Vec::new();
    let nseg = match rng.below(12) { 0 => 0, 1..=7 => 1, 8..=10 => 2, _ => 3 };
    for i in 0..nseg {
        let t = match rng.below(if i == 0 { 20 } else { 6 }) { 0 => 1u8, 1 => 3, 2 => 4, _ => 2 };
        let n = match rng.below(16) { 0 => 0, 1 => 6, _ => rng.usize(1, 3) };
        v.push(t); v.push(n as u8);
        for _ in 0..n {
            let a: u32 = if four { *rng.pick(&[10u32, 20, 30, 65000, 4200000000, 23456]) } else { *rng.pick(&[10u32, 20, 30, 65000, 23456]) };
            if four { v.extend(a.to_be_bytes()); } else { v.extend((a as u16).to_be_bytes()); }
        }
    }
    v
}

fn small_u32(rng: &mut Rng) -> Vec<u8> { (*rng.pick(&[0u32, 1, 100, 100, 200, u32::MAX, 0x01000000])).to_be_bytes().to_vec() }

fn gen_decision_value(rng: &mut Rng, code: u8, four: bool) -> Vec<u8> {
    match code {
        1 => vec![*rng.pick(&[0u8, 0, 1, 2, 2, 3, 255])],
        2 => gen_wire_path(rng, four),
        17 => gen_wire_path(rng, true),
        10 => { let n = rng.usize(0, 3); (0..n).flat_map(|i| (0x0a000001u32 + i as u32).to_be_bytes()).collect() }
        9 => (*rng.pick(&[1u32, 2, 3, 256, 0x01000000, 0x00ff0000])).to_be_bytes().to_vec(),
        _ => small_u32(rng),
    }
}

/// a value the type's length rule refuses
fn gen_bad_value(rng: &mut Rng, code: u8, four: bool) -> Vec<u8> {
    match code {
        1 => if rng.bool() { vec![] } else { vec![0, 0] },
        2 | 17 => { let mut v = gen_wire_path(rng, four || code == 17); match rng.below(3) { 0 => { v.push(2); v.push(3); v.push(0); } 1 => { v.push(2); } _ => { v.push(9); v.push(0); } } v }
        10 => { let n = *rng.pick(&[1usize, 3, 5, 6]); rng.bytes(n) }
        _ => { let n = *rng.pick(&[0usize, 2, 3, 5, 8]); rng.bytes(n) }
    }
}

/// the attributes of an UPDATE whose route takes part in the decision process: mostly well formed, with each
/// of the six attributes the comparison reads now and then missing, malformed, repeated (with a different
/// value) or - AS_PATH - in the other AS number width; AS4_PATH next to AS_PATH; content the comparison never
/// reads (NEXT_HOP, communities, an unknown attribute, MP_REACH_NLRI); any order
pub fn gen_plan(rng: &mut Rng, four: bool) -> Vec<PAttr> {
    let mut a: Vec<PAttr> = Vec::new();
    for (code, present_of_8) in [(1u8, 8u64), (2, 8), (5, 4), (4, 4), (9, 2), (10, 2)] {
        if !rng.chance(present_of_8, 8) { continue; }
        let roll = rng.below(if code <= 2 { 60 } else { 30 });
        match roll {
            0 => if code <= 2 { continue },                                               // a mandatory attribute is missing
            1 | 2 => { let v = gen_bad_value(rng, code, four); a.push(pa(rng, code, v)); }
            3..=6 => {                                                                     // repeated, both well formed
                let v = gen_decision_value(rng, code, four); a.push(pa(rng, code, v));
                let v = gen_decision_value(rng, code, four); a.push(pa(rng, code, v));
            }
            7 | 8 => {                                                                     // repeated, one of them malformed
                let (v, w) = (gen_decision_value(rng, code, four), gen_bad_value(rng, code, four));
                let (v, w) = if rng.bool() { (v, w) } else { (w, v) };
                a.push(pa(rng, code, v)); a.push(pa(rng, code, w));
            }
            9 | 10 if code == 2 => { let v = gen_wire_path(rng, !four); a.push(pa(rng, 2, v)); }  // what a speaker of the other width sends
            _ => { let v = gen_decision_value(rng, code, four); a.push(pa(rng, code, v)); }
        }
    }
    // AS4_PATH: never merged into the AS_PATH
    if rng.chance(if four { 1 } else { 3 }, 8) { let v = if rng.chance(1, 10) { gen_bad_value(rng, 17, true) } else { gen_wire_path(rng, true) }; a.push(pa(rng, 17, v)); }
    if rng.chance(1, 2) { let v = vec![10, 0, 0, rng.range(1, 3) as u8]; a.push(pa(rng, 3, v)); }
    if rng.chance(1, 5) { let n = rng.usize(1, 3); let v = rng.bytes(4 * n); a.push(pa(rng, 8, v)); }
    if rng.chance(1, 8) { let n = rng.usize(0, 5); let v = rng.bytes(n); a.push(PAttr { fl: *rng.pick(&[0xC0u8, 0x80, 0xE0]), code: *rng.pick(&[99u8, 22, 200]), val: v, ext: false }); }
    if rng.chance(1, 10) { a.push(PAttr { fl: 0x40, code: 6, val: vec![], ext: false }); }
    if rng.chance(1, 8) {
        // MP_REACH_NLRI: IPv6 unicast, one next hop, 2001:db8::/32
        let mut v = vec![0u8, 2, 1, 16]; v.extend([0x20, 1, 0xd, 0xb8, 0, 0, 0, 0, 0, 0, 0, 0, 0, 0, 0, 1]); v.push(0); v.extend([32, 0x20, 1, 0xd, 0xb8]);
        let at = rng.usize(0, a.len()); a.insert(at, PAttr { fl: 0x80, code: 14, val: v, ext: false });
    }
    if rng.chance(1, 3) { for _ in 0..rng.usize(1, 3) { let n = a.len(); if n > 1 { let (i, j) = (rng.usize(0, n - 1), rng.usize(0, n - 1)); a.swap(i, j); } } }
    a
}

/// a small edit of a plan: one attribute's value changed / dropped / repeated / moved - most of the decision stays tied
pub fn edit_plan(rng: &mut Rng, plan: &[PAttr], four: bool) -> Vec<PAttr> {
    let mut p = plan.to_vec();
    let decision = [1u8, 2, 4, 5, 9, 10];
    match rng.below(8) {
        0 | 1 | 2 => { let code = *rng.pick(&decision); let v = gen_decision_value(rng, code, four);
            match p.iter_mut().find(|x| x.code == code) { Some(x) => x.val = v, None => { let x = pa(rng, code, v); p.push(x); } } }
        3 => { let code = *rng.pick(&[4u8, 5, 9, 10, 17, 3]); p.retain(|x| x.code != code); }
        4 => if !p.is_empty() {                                     // repeat an attribute with another value, before or after the original
            let i = rng.usize(0, p.len() - 1); let code = p[i].code;
            let v = if decision.contains(&code) { gen_decision_value(rng, code, four) } else { let n = p[i].val.len(); rng.bytes(n) };
            let x = pa(rng, code, v); if rng.bool() { p.insert(i, x); } else { p.push(x); } }
        5 => if p.len() > 1 { let (i, j) = (rng.usize(0, p.len() - 1), rng.usize(0, p.len() - 1)); p.swap(i, j); }
        6 => { let code = *rng.pick(&decision); let v = gen_bad_value(rng, code, four);
            match p.iter_mut().find(|x| x.code == code) { Some(x) => x.val = v, None => { let x = pa(rng, code, v); p.push(x); } } }
        _ => { let v = vec![10, 0, 0, rng.range(1, 9) as u8]; match p.iter_mut().find(|x| x.code == 3) { Some(x) => x.val = v, None => { let x = pa(rng, 3, v); p.push(x); } } }
    }
    p
}

/// the UPDATE: no withdrawals, the planned attributes, one announced prefix 10.<n>.0.0/16 (with a path id in an ADD-PATH session)
pub fn plan_pdu(plan: &[PAttr], ap: bool) -> Vec<u8> {
    let mut attrs = Vec::new();
    for x in plan {
        if x.val.len() > 255 || x.ext { attrs.push(x.fl | 0x10); attrs.push(x.code); attrs.extend((x.val.len() as u16).to_be_bytes()); }
        else { attrs.push(x.fl & !0x10); attrs.push(x.code); attrs.push(x.val.len() as u8); }
        attrs.extend(&x.val);
    }
    let mut nlri = Vec::new();
    if ap { nlri.extend([0, 0, 0, 1]); }
    nlri.extend([16, 10, 1]);
    let len = 19 + 2 + 2 + attrs.len() + nlri.len();
    let mut p = vec![0xffu8; 16];
    p.extend((len as u16).to_be_bytes()); p.push(2); p.extend([0, 0]);
    p.extend((attrs.len() as u16).to_be_bytes()); p.extend(attrs); p.extend(nlri);
    p
}

/// the tie-breaker record of a random route (small pools: ties are frequent)
pub fn random_tb(rng: &mut Rng) -> RouteSpec {
    let mut r = random_route(rng);
    r.lp = None; r.path = Slot::Absent; r.origin = Slot::Absent; r.origin_raw = false; r.med = None; r.oid = None; r.cl = None; r.extra = 0; r.bogus = 0;
    r
}

fn edit_tb(rng: &mut Rng, t: &RouteSpec) -> RouteSpec {
    let mut b = t.clone();
    match rng.below(6) {
        0 => b.ibgp = !b.ibgp,
        1 => b.dop = if b.dop.is_some() { None } else { Some(100) },
        2 => b.bgpid = b.bgpid.wrapping_add(1),
        3 => { b.peer = b.peer.wrapping_add(1); if !b.peer_v6 { b.peer &= 0xffffffff; } }
        4 => b.lasn = *rng.pick(&[10u32, 20, 65000]),
        _ => {}
    }
    b
}

/// `n` candidates given as UPDATEs: the first from scratch, each further one from scratch or (mostly) a small edit of
/// its predecessor's attributes / tie-breakers, now and then in a session of the other AS number width; 1 in 10 is
/// an UPDATE of C17's generator (all 20 attribute kinds, damaged attributes, rejected UPDATEs)
pub fn gen_pdu_cands(rng: &mut Rng, n: usize) -> Vec<String> {
    let mut out = Vec::new();
    let (_, mut four, mut ap) = crate::props::c17::gen_sess(rng);
    let mut plan = gen_plan(rng, four);
    let mut tb = random_tb(rng);
    for i in 0..n {
        if i > 0 {
            match rng.below(10) {
                0 | 1 => { let s = crate::props::c17::gen_sess(rng); four = s.1; ap = s.2; plan = gen_plan(rng, four); tb = random_tb(rng); }
                2 => tb = random_tb(rng),
                3 | 4 => tb = edit_tb(rng, &tb),
                5 => {}                                                     // the same route again
                _ => { plan = edit_plan(rng, &plan, four); if rng.chance(1, 3) { tb = edit_tb(rng, &tb); } }
            }
        }
        // an eBGP route needs a neighbour AS: most routes whose AS_PATH names none are presented as learned over iBGP
        if !tb.ibgp && rng.chance(2, 3) {
            let nb = plan.iter().find(|x| x.code == 2).and_then(|x| own_path(&x.val, if four { 4 } else { 2 }))
                .map_or(false, |h| matches!(h.first(), Some(HopSpec::Asn(_))));
            if !nb { tb.ibgp = true; }
        }
        if rng.chance(1, 10) {
            let conv = rng.bool();
            let p = crate::props::c17::gen_pdu_s(rng, conv, false, four, ap);
            let p = if rng.chance(1, 3) { crate::props::c17::mutate_attrs(rng, p) } else { p };
            out.push(show_pdu_cand(four, ap, &p, &tb));
        } else {
            out.push(show_pdu_cand(four, ap, &plan_pdu(&plan, ap), &tb));
        }
    }
    out
}

// ---------------------------------------------------------------- generators

pub fn base_route() -> RouteSpec {
    RouteSpec { ibgp: false, dop: None, lp: None, path: Slot::Val(vec![HopSpec::Asn(10), HopSpec::Asn(20)]), origin: Slot::Val(0), origin_raw: false,
        med: None, lasn: 65000, oid: None, bgpid: 5, cl: None, peer_v6: false, peer: 0x0a000001, extra: 0, bogus: 0, rest: vec![] }
}

pub fn path_of(s: &str) -> Slot<Vec<HopSpec>> {
    match s { "-" => Slot::Absent, "!" => Slot::Bogus, "e" => Slot::Val(vec![]),
        p => Slot::Val(p.split('.').map(|h| parse_hop(h).unwrap()).collect()) }
}

/// product lattice over the decision fields
#[allow(clippy::too_many_arguments)]
fn lattice(srcs: &[bool], dops: &[Option<u32>], lps: &[Option<u32>], paths: &[&str], origins: &[u8], meds: &[Option<u32>],
           ids: &[(Option<u32>, u32)], cls: &[Option<u32>], peers: &[(bool, u128)], lasns: &[u32]) -> Vec<RouteSpec> {
    let mut v = Vec::new();
    for &ibgp in srcs { for &dop in dops { for &lp in lps { for p in paths { for &o in origins { for &med in meds {
    for &(oid, bgpid) in ids { for &cl in cls { for &(peer_v6, peer) in peers { for &lasn in lasns {
        v.push(RouteSpec { ibgp, dop, lp, path: path_of(p), origin: Slot::Val(o), origin_raw: false, med, lasn, oid, bgpid, cl, peer_v6, peer, extra: 0, bogus: 0, rest: vec![] });
    } } } } } } } } } }
    v
}

pub fn random_route(rng: &mut Rng) -> RouteSpec {
    // small pools so that ties at every step are frequent
    fn small(rng: &mut Rng) -> u32 { match rng.below(6) { 0 => 0, 1 => 1, 2 => 100, 3 => 200, 4 => u32::MAX, _ => rng.u32() } }
    let ibgp = rng.bool();
    let n = match rng.below(8) { 0 => 0, 1..=5 => rng.usize(1, 4), _ => rng.usize(1, 12) };
    let mut hops = Vec::new();
    for i in 0..n {
        let asn = |rng: &mut Rng| *rng.pick(&[10u32, 20, 30, 65000, 4200000000]);
        let k = rng.below(if i == 0 && !ibgp { 14 } else { 10 });
        hops.push(match k {
            0 => HopSpec::Seg('S', (0..rng.usize(0, 3)).map(|_| asn(rng)).collect()),
            1 => HopSpec::Seg('C', (0..rng.usize(0, 3)).map(|_| asn(rng)).collect()),
            2 => HopSpec::Seg('D', (0..rng.usize(0, 3)).map(|_| asn(rng)).collect()),
            3 if rng.chance(1, 3) => { let lo = if rng.chance(1, 6) { 0 } else { 1 }; HopSpec::Seg('Q', (0..rng.usize(lo, 3)).map(|_| asn(rng)).collect()) }
            _ => HopSpec::Asn(asn(rng)),
        });
        // the same segment as a two-octet session delivers it
        if let Some(HopSpec::Seg(c, a)) = hops.last() {
            if rng.chance(1, 2) && a.iter().all(|x| *x <= 65535) {
                let (c, mut a) = (c.to_ascii_lowercase(), a.clone());
                if c == 'q' { for _ in 0..rng.usize(0, 4) { a.push(*rng.pick(&[10u32, 20, 30, 65000])); } }
                *hops.last_mut().unwrap() = HopSpec::Seg(c, a);
            }
        }
    }
    let opt = |rng: &mut Rng, p: u64| if rng.chance(p, 4) { Some(small(rng)) } else { None };
    let r = RouteSpec {
        ibgp,
        dop: opt(rng, 1),
        lp: opt(rng, 2),
        path: if rng.chance(1, 40) { if rng.bool() { Slot::Absent } else { Slot::Bogus } } else { Slot::Val(hops) },
        origin: if rng.chance(1, 40) { if rng.bool() { Slot::Absent } else { Slot::Bogus } } else { Slot::Val(*rng.pick(&[0u8, 0, 1, 2, 2, 3, 255])) },
        origin_raw: false,
        med: opt(rng, 2),
        lasn: *rng.pick(&[10u32, 20, 65000]),
        oid: if rng.chance(1, 3) { Some(*rng.pick(&[1u32, 2, 3, 256, 0x01000000, 0x00ff0000])) } else { None },
        bgpid: *rng.pick(&[1u32, 2, 3, 256, 0x01000000, u32::MAX]),
        cl: if rng.chance(1, 3) { Some(rng.below(4) as u32) } else { None },
        peer_v6: rng.chance(1, 3),
        peer: 0,
        extra: if rng.chance(1, 4) { rng.range(1, 3) as u32 } else { 0 },
        bogus: 0,
        rest: vec![],
    };
    let mut r = r;
    // 1 in 8: the ORIGIN as `OriginType::Unimplemented(n)` written out (n <= 2: a value only the API builds)
    if matches!(r.origin, Slot::Val(_)) && rng.chance(1, 8) { r.origin_raw = true; }
    // now and then an optional attribute's type code holds an Invalid attribute
    if rng.chance(1, 12) {
        let bit = 1u8 << rng.below(4);
        r.bogus |= bit;
        match bit { 1 => r.lp = None, 2 => r.med = None, 4 => r.oid = None, _ => r.cl = None }
    }
    // IPv6 peers include IPv4-mapped (::ffff:a.b.c.d) and IPv4-compatible (::a.b.c.d) forms of the IPv4 pool below:
    // an address is compared as the IpAddr it is, never through a canonical / mapped form (round-5 seed)
    r.peer = if r.peer_v6 { *rng.pick(&[1u128, 2, 256, 0xffffffff, 1 << 64, 1 << 120, (1 << 120) + 1, u128::MAX,
                                         0xffff_0000_0001, 0xffff_0000_0002, 0xffff_0a00_0001, 0xffff_0100_0000, 0xffff_ffff_ffff, 0xffff_0000_0000,
                                         0x0a00_0001, 0x0100_0000, 0xfffe_ffff_ffff, 0x1_0000_0000_0000]) }
             else { *rng.pick(&[1u128, 2, 256, 0x0a000001, 0x01000000, 0xffffffff]) };
    r
}

const STRATS: [&str; 2] = ["skipmed", "rfc4271"];

impl Prop for C10 {
    fn gen(&self, rng: &mut Rng, tier: Tier) -> Vec<String> {
        let mut v = Vec::new();
        let e = [false]; let ei = [false, true];
        let n = [None]; let id1 = [(None, 5u32)]; let p1 = [(false, 0x0a000001u128)];
        // ---- construction: every combination of presence of ORIGIN / AS_PATH / neighbour, both sources
        for src in ["e", "i"] { for path in ["-", "!", "e", "10.20", "S10+20.30", "C10.20", "D10", "Q10+20.30", "10", "q10+20.30", "q10", "s10.20", "c10", "d10"] {
            for origin in ["-", "!", "0", "2", "7", "U0", "U2", "U7"] { for s in STRATS {
                v.push(format!("try {} {},-,-,{},{},-,65000,-,5,-,4:1,0", s, src, path, origin));
            } }
        } }
        for s in STRATS { for src in ["e", "i"] { v.push(format!("wire-malformed {} {}", s, src)); } }
        // an empty AS_SEQUENCE segment hop names no neighbour; Invalid attributes under the optional type codes
        for s in STRATS { for src in ["e", "i"] {
            for path in ["Q", "q", "Q.10", "10.Q"] { v.push(format!("try {} {},-,-,{},0,-,65000,-,5,-,4:1,0", s, src, path)); }
            for (lp, med, oid, cl) in [("!", "-", "-", "-"), ("-", "!", "-", "-"), ("-", "-", "!", "-"), ("-", "-", "-", "!"), ("!", "!", "!", "!")] {
                v.push(format!("try {} {},-,{},10.20,0,{},65000,{},5,{},4:1,0", s, src, lp, med, oid, cl));
                // ... compared as if the attribute were absent
                v.push(format!("cmp {} {},-,{},10.20,0,{},65000,{},5,{},4:1,0 {},-,7,10.20,0,7,65000,7,5,1,4:1,0", s, src, lp, med, oid, cl, src));
                v.push(format!("cmp {} {},-,{},10.20,0,{},65000,{},5,{},4:1,0 {},-,-,10.20,0,-,65000,-,5,-,4:1,0", s, src, lp, med, oid, cl, src));
            }
        } }
        // ---- ORIGIN values only the API builds (`OriginType::Unimplemented(0..=2)`) against every parse image: step b
        // goes by the origin NUMBER (F37: the derived order of the enum ranked Unimplemented(0) above Incomplete)
        let origins = ["0", "1", "2", "3", "255", "U0", "U1", "U2", "U3", "U255"];
        for s in STRATS { for src in ["e", "i"] { for a in origins { for b in origins {
            v.push(format!("cmp {} {},-,-,10.20,{},-,65000,-,5,-,4:1,0 {},-,-,10.20,{},-,65000,-,5,-,4:1,0", s, src, a, src, b));
        } } } }
        for a in ["U0", "U1", "U2"] { for b in ["0", "2", "U1"] { for c in ["1", "U0", "3"] {
            v.push(format!("tri skipmed e,-,-,10.20,{},-,65000,-,5,-,4:1,0 e,-,-,10.20,{},-,65000,-,5,-,4:1,0 e,-,-,10.20,{},-,65000,-,5,-,4:1,0", a, b, c));
        } } }
        // ---- hop_count_path_selection / neighbor_path_selection
        for p in ["e", "10", "10.20.30", "S10+20", "S", "S10.20", "10.S20+30.40", "C10+20.30", "D10+20.30", "C10.D20.S30.40",
                  "Q10+20", "Q10+20.30", "30.Q10+20", "10.10.10.10", "C", "D",
                  "q10", "q10+20", "q10+20+30", "q10+20+30+40+50.60", "30.q10+20", "q10+20.Q30+40", "s10+20", "s", "c10+20.30", "d10+20.30",
                  "s10+20.q30+40+50", "q65535+1.2", "Q", "q", "Q.10", "q.Q10", "10.Q.20"] {
            v.push(format!("hops {}", p));
        }
        // ---- exhaustive lattices, all ordered pairs (incl. a route with itself)
        // front: the early decision fields (source, DoP, LOCAL_PREF, path length, origin, MED) x a late tie-breaker
        let front = lattice(&ei, &[None, Some(100)], &[None, Some(200)], &["10.20", "10.S20+30.40", "30"], &[0, 2],
            &[None, Some(50)], &[(None, 5), (None, 9)], &n, &p1, &[65000]);
        // back: the late fields (source, neighbour for MED, MED, BGP id / ORIGINATOR_ID, CLUSTER_LIST, peer address)
        let back = lattice(&ei, &n, &n, &["10.20", "30.20"], &[0], &[None, Some(50)],
            &[(None, 5), (Some(3), 5), (None, 9)], &[None, Some(2)], &[(false, 1), (false, 2), (true, 1)], &[65000]);
        // iBGP routes with an empty / set-first path: the neighbour AS falls back to the local AS
        let local = lattice(&[true], &n, &n, &["e", "S10+20", "65000", "10"], &[0], &[None, Some(7), Some(50)], &[(None, 5), (None, 9)], &n, &p1, &[65000, 10]);
        let mut lats: Vec<&Vec<RouteSpec>> = vec![&front, &back, &local];
        let full;
        if tier == Tier::Thorough {
            full = lattice(&ei, &[None, Some(100)], &[None, Some(200)], &["10.20", "10.S20+30.40", "30"], &[0, 2], &[None, Some(50)],
                &[(None, 5), (Some(3), 5), (None, 9)], &[None, Some(2)], &[(false, 1), (true, 1)], &[65000]);
            lats.push(&full);
        }
        for lat in lats { for s in STRATS { for a in lat.iter() { let sa = show_route(a); for b in lat.iter() {
            v.push(format!("cmp {} {} {}", s, sa, show_route(b)));
        } } } }
        // ---- exhaustive triples over a lattice that contains the MED non-transitivity
        let tri = lattice(&ei, &n, &n, &["10.20", "30.20"], &[0], &[None, Some(50)], &[(None, 3), (None, 5), (None, 9)], &n, &p1, &[65000]);
        let tri2 = lattice(&e, &[None, Some(100)], &n, &["10.20", "10.20.30"], &[0, 1], &n, &id1, &[None, Some(1)], &[(false, 1), (true, 1)], &[65000]);
        for lat in [&tri, &tri2] { for s in STRATS { for a in lat.iter() { for b in lat.iter() { for c in lat.iter() {
            v.push(format!("tri {} {} {} {}", s, show_route(a), show_route(b), show_route(c)));
        } } } } }
        // ---- random attribute maps and tie-breaker records
        let k = if tier == Tier::Thorough { 100 } else { 1 };
        for _ in 0..20000 * k {
            let a = random_route(rng);
            // half of the partners are small edits of `a`, so that long common prefixes of the decision are frequent
            let b = if rng.bool() { random_route(rng) } else { mutate(&a, rng) };
            v.push(format!("cmp {} {} {}", rng.pick(&STRATS), show_route(&a), show_route(&b)));
        }
        for _ in 0..6000 * k {
            let a = random_route(rng);
            let b = if rng.bool() { random_route(rng) } else { mutate(&a, rng) };
            let c = if rng.bool() { random_route(rng) } else { mutate(&b, rng) };
            v.push(format!("tri {} {} {} {}", rng.pick(&STRATS), show_route(&a), show_route(&b), show_route(&c)));
        }
        for _ in 0..2000 * k { v.push(format!("try {} {}", rng.pick(&STRATS), show_route(&random_route(rng)))); }
        // ---- routes given as received UPDATEs: from_octets -> PaMap::from_update_pdu -> try_new -> cmp
        // (lines of ~500 octets: the thorough tier takes 20x, not 100x)
        let k = if tier == Tier::Thorough { 20 } else { 1 };
        for _ in 0..6000 * k { let c = gen_pdu_cands(rng, 2); v.push(format!("ucmp {} {}", rng.pick(&STRATS), c.join(" "))); }
        for _ in 0..1500 * k { let c = gen_pdu_cands(rng, 3); v.push(format!("utri {} {}", rng.pick(&STRATS), c.join(" "))); }
        for _ in 0..1500 * k { let c = gen_pdu_cands(rng, 1); v.push(format!("utry {} {}", rng.pick(&STRATS), c[0])); }
        // a route from the wire against a route built through the API
        for _ in 0..1000 * k {
            let c = gen_pdu_cands(rng, 1);
            let a = show_route(&random_route(rng));
            if rng.bool() { v.push(format!("ucmp {} {} {}", rng.pick(&STRATS), a, c[0])); } else { v.push(format!("ucmp {} {} {}", rng.pick(&STRATS), c[0], a)); }
        }
        v
    }

    fn exec(&self, line: &str) -> String {
        let w: Vec<&str> = line.split(' ').collect();
        match w.as_slice() {
            ["try", s, r] => {
                let Some(r) = parse_route(r) else { return "bad-op".into() };
                let (m, tb) = build(&r);
                match *s { "skipmed" => refusal::<SkipMed>(&m, tb), "rfc4271" => refusal::<Rfc4271>(&m, tb), _ => "bad-op" }.into()
            }
            ["cmp", s, rest @ ..] | ["tri", s, rest @ ..] => {
                if rest.len() != if w[0] == "cmp" { 2 } else { 3 } { return "bad-op".into(); }
                let mut specs = Vec::new();
                for r in rest { match parse_route(r) { Some(r) => specs.push(r), None => return "bad-op".into() } }
                match *s { "skipmed" => cmp_line::<SkipMed>(&specs), "rfc4271" => cmp_line::<Rfc4271>(&specs), _ => "bad-op".into() }
            }
            ["utry", s, a] => {
                let Some(c) = parse_cand(a) else { return "bad-op".into() };
                if !STRATS.contains(s) { return "bad-op".into(); }
                match build_all(&[c]) {
                    Err(e) => if e == "pmerr" { e } else { "rej".into() },
                    Ok(b) => match *s { "skipmed" => refusal::<SkipMed>(&b[0].0, b[0].1), _ => refusal::<Rfc4271>(&b[0].0, b[0].1) }.into(),
                }
            }
            ["ucmp", s, rest @ ..] | ["utri", s, rest @ ..] => {
                if rest.len() != if w[0] == "ucmp" { 2 } else { 3 } { return "bad-op".into(); }
                let mut cands = Vec::new();
                for r in rest { match parse_cand(r) { Some(c) => cands.push(c), None => return "bad-op".into() } }
                if !STRATS.contains(s) { return "bad-op".into(); }
                match build_all(&cands) {
                    Err(e) => e,
                    Ok(b) => match *s { "skipmed" => cmp_built::<SkipMed>(&b), _ => cmp_built::<Rfc4271>(&b) },
                }
            }
            ["hops", p] => {
                let Some(r) = parse_route(&format!("i,-,-,{},0,-,1,-,1,-,4:1,0", p)) else { return "bad-op".into() };
                let Slot::Val(h) = &r.path else { return "bad-op".into() };
                let hp = build_hop_path(h);
                format!("{} {}", hp.hop_count_path_selection(), hp.neighbor_path_selection().map(|a| a.into_u32().to_string()).unwrap_or("-".into()))
            }
            // a received UPDATE whose ORIGIN (length 2) and AS_PATH (3 octets) do not validate, turned into
            // a PaMap by PaMap::from_update_pdu: the type codes 1 and 2 are present but hold `Invalid`
            ["wire-malformed", s, src] => {
                let attrs: Vec<u8> = vec![0x40, 1, 2, 0, 0, 0x40, 2, 3, 2, 1, 0, 0x40, 3, 4, 1, 2, 3, 4];
                let mut m = vec![0xffu8; 16];
                let total = 19 + 2 + 2 + attrs.len() + 2;
                m.extend_from_slice(&(total as u16).to_be_bytes());
                m.push(2);
                m.extend_from_slice(&[0, 0]);
                m.extend_from_slice(&(attrs.len() as u16).to_be_bytes());
                m.extend_from_slice(&attrs);
                m.extend_from_slice(&[8, 10]);
                let sc = routecore::bgp::message::SessionConfig::modern();
                let Ok(u) = routecore::bgp::message::UpdateMessage::from_octets(m, &sc) else { return "update-rejected".into() };
                let Ok(pm) = PaMap::from_update_pdu(&u) else { return "update-rejected".into() };
                let Some(r) = parse_route(&format!("{},-,-,!,!,-,65000,-,5,-,4:1,0", src)) else { return "bad-op".into() };
                let (_, tb) = build(&r);
                match *s { "skipmed" => refusal::<SkipMed>(&pm, tb), "rfc4271" => refusal::<Rfc4271>(&pm, tb), _ => "bad-op" }.into()
            }
            _ => "bad-op".into(),
        }
    }

    fn oracle(&self, line: &str, reply: &str) -> Result<(), String> {
        if reply == "bad-op" { return Ok(()); }
        if reply == "panic" { return Err("panic".into()); }
        if reply.contains("ALT-BAD") { return Err("the named constructors / strategy conversions / accessors / `preferred` disagree with try_new + cmp".into()); }
        // the same routes on separate and on shared attribute maps: each presentation is judged
        if let Some((own, shared)) = reply.split_once(" | shared ") {
            self.oracle(line, own)?;
            return self.oracle(line, shared).map_err(|e| format!("when routes with equal attributes share one PaMap object: {}", e));
        }
        let w: Vec<&str> = line.split(' ').collect();
        let r: Vec<&str> = reply.split(' ').collect();
        match w.as_slice() {
            ["try", _, a] => {
                let a = parse_route(a).unwrap();
                // refused when ORIGIN or AS_PATH is lacking or an eBGP route has no neighbour AS; accepted otherwise
                // (either, where the property is silent: undefined ORIGIN value, Invalid optional attribute)
                judge_construction(&a, reply)
            }
            // routes given as received UPDATEs: the same judgement, on this file's own reading of the PDU.  Whether
            // an UPDATE is accepted at all is C01 / C02 / C17's subject (`rej`), as is `from_update_pdu` (`pmerr`)
            ["utry", _, a] => {
                if reply == "rej" || reply == "pmerr" { return Ok(()); }
                let Some(sp) = cand_specs(&[parse_cand(a).unwrap()]) else { return Ok(()) };
                judge_construction(&sp[0], reply)
            }
            ["ucmp", s, a, b] => {
                if r[0] == "rej" || r[0] == "pmerr" { return Ok(()); }
                let Some(sp) = cand_specs(&[parse_cand(a).unwrap(), parse_cand(b).unwrap()]) else { return Ok(()) };
                judge_cmp(s, &sp[0], &sp[1], &r)
            }
            ["utri", s, a, b, c] => {
                if r[0] == "rej" || r[0] == "pmerr" { return Ok(()); }
                let Some(sp) = cand_specs(&[parse_cand(a).unwrap(), parse_cand(b).unwrap(), parse_cand(c).unwrap()]) else { return Ok(()) };
                judge_tri(s, &sp, &r)
            }
            ["cmp", s, a, b] => {
                let (a, b) = (parse_route(a).unwrap(), parse_route(b).unwrap());
                judge_cmp(s, &a, &b, &r)
            }
            ["tri", s, a, b, c] => {
                let rs = [parse_route(a).unwrap(), parse_route(b).unwrap(), parse_route(c).unwrap()];
                judge_tri(s, &rs, &r)
            }
            ["wire-malformed", ..] => {
                if reply == "ok" { Err("a route without valid ORIGIN / AS_PATH was accepted for comparison".into()) } else { Ok(()) }
            }
            ["hops", p] => {
                let a = parse_route(&format!("i,-,-,{},0,-,1,-,1,-,4:1,0", p)).unwrap();
                let want_n = match ref_hops(&a).first() {
                    Some(HopSpec::Asn(x)) => x.to_string(),
                    Some(h) => match h.seg() { Some(('Q', asns)) if !asns.is_empty() => asns[0].to_string(), _ => "-".to_string() },
                    _ => "-".to_string(),
                };
                let want = format!("{} {}", ref_path_len(&a), want_n);
                if reply == want { Ok(()) } else { Err(format!("path-selection length/neighbour {} but the RFC counting gives {}", reply, want)) }
            }
            _ => Ok(()),
        }
    }

    fn nontrivial(&self, _line: &str, reply: &str) -> bool { reply != "bad-op" && !reply.starts_with("refused") && !reply.starts_with("rej") && reply != "pmerr" }

    fn class(&self, line: &str, reply: &str) -> String {
        let w: Vec<&str> = line.split(' ').collect();
        let op = w[0];
        match op {
            "cmp" | "tri" => {
                let s = w.get(1).copied().unwrap_or("");
                if reply.starts_with("refused") { return format!("{}:{}:refused", op, s); }
                if op == "tri" { return format!("{}:{}:{}", op, s, reply.replace(' ', "")); }
                // which step decided: re-run the reference with the steps accumulated
                let (a, b) = (parse_route(w[2]), parse_route(w[3]));
                match (a, b) { (Some(a), Some(b)) => format!("cmp:{}:decided-at-{}", s, deciding_step(&a, &b, s == "rfc4271")), _ => "cmp:bad".into() }
            }
            "ucmp" | "utri" | "utry" => {
                let s = w.get(1).copied().unwrap_or("");
                let cands: Option<Vec<Cand>> = w[2..].iter().map(|t| parse_cand(t)).collect();
                let Some(cands) = cands else { return format!("{}:bad", op) };
                let feat = pdu_feature(&cands);
                let r0 = reply.split(' ').next().unwrap_or("");
                let special = feat.starts_with("repeated") || feat.starts_with("malformed");
                if matches!(r0, "refused" | "rej" | "pmerr" | "panic" | "bad-op") || op == "utry" { return format!("{}:{}:{}", op, r0, feat); }
                if op == "utri" || special { return format!("{}:compared:{}", op, feat); }
                match cand_specs(&cands) { Some(sp) => format!("ucmp:{}:decided-at-{}", s, deciding_step(&sp[0], &sp[1], s == "rfc4271")), None => "ucmp:unwalkable".into() }
            }
            _ => format!("{}:{}", op, reply.split(' ').next().unwrap_or("")),
        }
    }
}

/// what is special about the UPDATEs of a line (the first that applies): a decision attribute repeated, a decision
/// attribute malformed, an AS4_PATH next to the AS_PATH, a two-octet session, nothing
fn pdu_feature(cands: &[Cand]) -> String {
    let mut two = false;
    let mut as4 = false;
    let mut bad: Option<u8> = None;
    let mut rep: Option<u8> = None;
    for c in cands {
        let Cand::Pdu(p) = c else { continue };
        two |= !p.four;
        let Some(attrs) = own_walk(&p.pdu) else { return "unwalkable".into() };
        for code in [1u8, 2, 4, 5, 9, 10] {
            let n = attrs.iter().filter(|a| a.1 == code).count();
            if n > 1 && rep.is_none() { rep = Some(code); }
            if let Some(a) = attrs.iter().find(|a| a.1 == code) { if own_valid(code, &a.2, p.four) == Some(false) && bad.is_none() { bad = Some(code); } }
        }
        as4 |= attrs.iter().any(|a| a.1 == 17) && attrs.iter().any(|a| a.1 == 2);
    }
    if let Some(c) = rep { return format!("repeated-{}", c); }
    if let Some(c) = bad { return format!("malformed-{}", c); }
    if as4 { return "as4path".into(); }
    if two { "two-octet".into() } else { "plain".into() }
}

/// a small edit of one field of `a` (keeps most of the decision prefix tied)
pub fn mutate(a: &RouteSpec, rng: &mut Rng) -> RouteSpec {
    let mut b = a.clone();
    match rng.below(12) {
        0 => b.ibgp = !b.ibgp,
        1 => b.dop = if b.dop.is_some() { None } else { Some(100) },
        2 => { b.lp = Some(b.lp.unwrap_or(0).wrapping_add(1)); b.bogus &= !1; }
        3 => if let Slot::Val(h) = &mut b.path { h.push(HopSpec::Asn(30)); },
        4 => if let Slot::Val(h) = &mut b.path { if let Some(x) = h.last_mut() { *x = HopSpec::Asn(77); } },
        5 => if rng.chance(1, 3) && matches!(b.origin, Slot::Val(_)) { b.origin_raw = !b.origin_raw } else { b.origin = Slot::Val(match b.origin { Slot::Val(o) => o.wrapping_add(1), _ => 0 }) },
        6 => { b.med = Some(b.med.unwrap_or(0).wrapping_add(1)); b.bogus &= !2; }
        7 => { b.oid = if b.oid.is_some() { None } else { Some(2) }; b.bogus &= !4; }
        8 => b.bgpid = b.bgpid.wrapping_add(1),
        9 => { b.cl = Some((b.cl.unwrap_or(0) + 1) % 5); b.bogus &= !8; }
        10 => { if rng.bool() { b.peer_v6 = !b.peer_v6; if !b.peer_v6 { b.peer &= 0xffffffff; } } else { b.peer = b.peer.wrapping_add(1); if !b.peer_v6 { b.peer &= 0xffffffff; } } }
        _ => b.extra = b.extra.wrapping_add(1),
    }
    b
}

fn deciding_step(a: &RouteSpec, b: &RouteSpec, med: bool) -> &'static str {
    if ref_dop(a) != ref_dop(b) { return "dop"; }
    if ref_path_len(a) != ref_path_len(b) { return "a-pathlen"; }
    if ref_origin(a) != ref_origin(b) { return "b-origin"; }
    if med && ref_neighbour(a) == ref_neighbour(b) && ref_med(a) != ref_med(b) { return "c-med"; }
    if a.ibgp != b.ibgp { return "d-ebgp"; }
    if ref_id(a) != ref_id(b) { return "f-id"; }
    if ref_cluster_len(a) != ref_cluster_len(b) { return "f2-clusterlen"; }
    if ref_peer(a) != ref_peer(b) { return "g-peer"; }
    "tie"
}
