//! C13: AS path conversions (src/bgp/aspath.rs) through the public API.
//!
//! hop path  `-` | hop{,hop}    hop = `a<asn>` | `s<ty>/<w>:<asn>{.<asn>}`
//! requests  compose H | compose16 H | count H | hprepend H ASN N | hpeq H H
//!           (H: what the public API builds: `s<1|3|4>/4:` of any length = Segment::new_set / new_confed_*;
//!            every other `s<1..4>/<2|4>:` = a segment cut out of a checked wire path of that width
//!            (AsPath::segments() + octets_into): at most 255 ASNs, ASNs fit the width)
//!           wire W HEX | prepend W HEX ASN N | eq W1 HEX1 W2 HEX2
use crate::common::*;
use inetnum::asn::Asn;
use octseq::OctetsInto;
use routecore::bgp::aspath::{AsPath, Hop, HopPath, Segment};
use std::hash::{Hash, Hasher};

pub struct C13;

// ---------------------------------------------------------------- reference
/// width-erased hop: the thing the property calls "hop sequence"
#[derive(Clone, PartialEq, Eq, Debug)]
pub(crate) enum RHop { Asn(u32), Seg(u8, Vec<u32>) }

/// independent AS_PATH reader written from RFC 4271 4.3 / RFC 5065: a list of
/// (type 1..=4, count, count ASNs of the given width), nothing left over.
pub(crate) fn ref_segments(bs: &[u8], four: bool) -> Option<Vec<(u8, Vec<u32>)>> {
    let sz = if four { 4 } else { 2 };
    let mut i = 0;
    let mut out = Vec::new();
    while i < bs.len() {
        if i + 2 > bs.len() { return None; }
        let ty = bs[i];
        let n = bs[i + 1] as usize;
        if !(1..=4).contains(&ty) { return None; }
        i += 2;
        if i + n * sz > bs.len() { return None; }
        let mut asns = Vec::with_capacity(n);
        for k in 0..n {
            let o = i + k * sz;
            asns.push(if four { u32::from_be_bytes([bs[o], bs[o + 1], bs[o + 2], bs[o + 3]]) }
                      else { u16::from_be_bytes([bs[o], bs[o + 1]]) as u32 });
        }
        i += n * sz;
        out.push((ty, asns));
    }
    Some(out)
}

pub(crate) fn ref_hops(segs: &[(u8, Vec<u32>)]) -> Vec<RHop> {
    let mut v = Vec::new();
    for (ty, asns) in segs {
        if *ty == 2 && !asns.is_empty() { for a in asns { v.push(RHop::Asn(*a)); } }
        else { v.push(RHop::Seg(*ty, asns.clone())); }
    }
    v
}

pub(crate) fn ref_encode(segs: &[(u8, Vec<u32>)], four: bool) -> Vec<u8> {
    let mut v = Vec::new();
    for (ty, asns) in segs {
        v.push(*ty);
        v.push(asns.len() as u8);
        for a in asns {
            if four { v.extend_from_slice(&a.to_be_bytes()); } else { v.extend_from_slice(&(*a as u16).to_be_bytes()); }
        }
    }
    v
}

// ------------------------------------------------------------ text <-> hops
fn parse_asns(s: &str) -> Option<Vec<u32>> {
    if s.is_empty() { return Some(vec![]); }
    s.split('.').map(|a| if a.bytes().all(|c| c.is_ascii_digit()) { a.parse::<u32>().ok() } else { None }).collect()
}

/// hops as printed in requests and replies (with width)
#[derive(Clone, Debug, PartialEq)]
pub(crate) enum THop { Asn(u32), Seg(u8, u8, Vec<u32>) }

fn parse_thop(s: &str) -> Option<THop> {
    if let Some(r) = s.strip_prefix('a') {
        if r.is_empty() || !r.bytes().all(|c| c.is_ascii_digit()) { return None; }
        return r.parse::<u32>().ok().map(THop::Asn);
    }
    let r = s.strip_prefix('s')?;
    let (head, asns) = r.split_once(':')?;
    let (ty, w) = head.split_once('/')?;
    let ty: u8 = ty.parse().ok()?;
    let w: u8 = w.parse().ok()?;
    Some(THop::Seg(ty, w, parse_asns(asns)?))
}

pub(crate) fn parse_thops(s: &str) -> Option<Vec<THop>> {
    if s == "-" { return Some(vec![]); }
    s.split(',').map(parse_thop).collect()
}

/// request-side: only what the public API constructs
pub(crate) fn parse_api_hops(s: &str) -> Option<Vec<THop>> {
    let v = parse_thops(s)?;
    // reject forms the model's parser rejects (e.g. "s01/4:"): exactly one character for type and width
    if s != "-" {
        for t in s.split(',') {
            if t.starts_with('s') && !(t.len() >= 5 && t.is_char_boundary(2) && t.is_char_boundary(5)
                && (&t[2..5] == "/4:" || &t[2..5] == "/2:")) { return None; }
        }
    }
    for h in &v {
        if let THop::Seg(ty, w, asns) = h {
            let new_star = *w == 4 && (*ty == 1 || *ty == 3 || *ty == 4);          // Segment::new_*: any length
            let from_wire = (1..=4).contains(ty) && (*w == 4 || *w == 2) && asns.len() <= 255
                && (*w == 4 || asns.iter().all(|a| *a <= 65535));                  // cut out of a wire path
            if !(new_star || from_wire) { return None; }
        }
    }
    Some(v)
}

/// width-erased hops as they come out of the implementation
pub(crate) fn erase(v: &[THop]) -> Vec<RHop> {
    v.iter().map(|h| match h { THop::Asn(a) => RHop::Asn(*a), THop::Seg(t, _, a) => RHop::Seg(*t, a.clone()) }).collect()
}

/// the hop sequence a requested hop path stands for: width erased, and a non-empty AS_SEQUENCE held as
/// one segment hop is the ASNs it contains (RFC 4271: a sequence of ASNs is a sequence of ASNs however
/// the sender stored it)
pub(crate) fn erase_flat(v: &[THop]) -> Vec<RHop> {
    let mut out = Vec::new();
    for h in v {
        match h {
            THop::Asn(a) => out.push(RHop::Asn(*a)),
            THop::Seg(2, _, a) if !a.is_empty() => out.extend(a.iter().map(|x| RHop::Asn(*x))),
            THop::Seg(t, _, a) => out.push(RHop::Seg(*t, a.clone())),
        }
    }
    out
}

/// true when decoding the wire form gives back the hop path itself (up to the width of segment hops)
pub(crate) fn is_flat(v: &[THop]) -> bool { !v.iter().any(|h| matches!(h, THop::Seg(2, _, a) if !a.is_empty())) }

pub(crate) fn build(v: &[THop]) -> HopPath {
    // hop paths of even length are built front to back with append / append_set / append_confed_*, those of
    // odd length back to front with prepend / prepend_set / prepend_confed_* (the same HopPath either way)
    let back = v.len() % 2 == 1;
    let mut hp = HopPath::new();
    let order: Vec<&THop> = if back { v.iter().rev().collect() } else { v.iter().collect() };
    for h in order {
        match h {
            THop::Asn(a) => if back { hp.prepend(Hop::Asn(Asn::from_u32(*a))) } else { hp.append(Hop::Asn(Asn::from_u32(*a))) },
            THop::Seg(ty, w, asns) if *w == 4 && matches!(ty, 1 | 3 | 4) => {
                let it = asns.iter().map(|a| Asn::from_u32(*a));
                match (ty, back) {
                    (1, false) => hp.append_set(it),
                    (3, false) => hp.append_confed_sequence(it),
                    (_, false) => hp.append_confed_set(it),
                    (1, true) => hp.prepend_set(it),
                    (3, true) => hp.prepend_confed_sequence(it),
                    (_, true) => hp.prepend_confed_set(it),
                }
            }
            THop::Seg(ty, w, asns) => {
                // any other segment: cut it out of a one-segment wire path of that width
                let four = *w == 4;
                let p = AsPath::new(ref_encode(&[(*ty, asns.clone())], four), four).expect("request grammar admits only segments with a wire form");
                let seg = p.segments().next().expect("one segment");
                let hop: Hop<Vec<u8>> = Hop::Segment(seg.octets_into());
                if back { hp.prepend(hop) } else { hp.append(hop) }
            }
        }
    }
    hp
}

fn show_asns<I: Iterator<Item = Asn>>(it: I) -> String {
    it.take(100_000).map(|a| a.into_u32().to_string()).collect::<Vec<_>>().join(".")
}

/// the segment type is read through the public API (first octet `Segment::compose` writes; a segment of
/// more than 255 ASNs cannot be composed: then off the Display name). The storage width is a private
/// field with no accessor: it is read off derive(Debug) and only ever compared with the model, the
/// oracle never judges it.
pub(crate) fn show_seg<O: octseq::Octets + std::fmt::Debug>(s: &Segment<O>) -> String {
    let ty = if s.asns().take(256).count() <= 255 {
        let mut v: Vec<u8> = Vec::new();
        let _ = s.compose(&mut v);
        v.first().copied().unwrap_or(0)
    } else {
        let d = format!("{}", s);
        if d.starts_with("AS_SET") { 1 } else if d.starts_with("AS_SEQUENCE") { 2 }
        else if d.starts_with("AS_CONFED_SEQUENCE") { 3 } else if d.starts_with("AS_CONFED_SET") { 4 } else { 0 }
    };
    let w = if format!("{:?}", s).contains("four_byte_asns: true") { 4 } else { 2 };
    format!("s{}/{}:{}", ty, w, show_asns(s.asns()))
}

pub(crate) fn show_hop<O: octseq::Octets + std::fmt::Debug>(h: &Hop<O>) -> String {
    match h { Hop::Asn(a) => format!("a{}", a.into_u32()), Hop::Segment(s) => show_seg(s) }
}

/// common::iter_protocol on the three iterators of an `AsPath`: hops(), segments() and asns() of its first,
/// middle and last segment (a macro: the item types depend on the octets type)
macro_rules! proto_path {
    ($p:expr, $name:expr, $path:expr) => {{
        let (p, name, path) = ($p, $name, $path);
        p.it(&format!("{}.hops()", name), || path.hops(), |h| $crate::props::c13::show_hop(h), 100_000);
        p.it(&format!("{}.segments()", name), || path.segments(), |s| $crate::props::c13::show_seg(s), 100_000);
        let n = path.segments().take(100_000).count();
        for i in [0, n / 2, n.saturating_sub(1)] {
            if let Some(seg) = path.segments().nth(i) { if i < n {
                p.it(&format!("{}.segments()[{}].asns()", name, i), || seg.asns(), |a| a.into_u32().to_string(), 70_000);
            } }
        }
    }};
}
pub(crate) use proto_path;

pub(crate) fn join(v: Vec<String>) -> String { if v.is_empty() { "-".into() } else { v.join(",") } }

#[derive(Default)]
struct Rec(Vec<String>);
impl Hasher for Rec {
    fn finish(&self) -> u64 { 0 }
    fn write(&mut self, bytes: &[u8]) { self.0.push(format!("r{}", hex(bytes))); }
    fn write_u8(&mut self, i: u8) { self.0.push(format!("b{}", i)); }
    fn write_u32(&mut self, i: u32) { self.0.push(format!("w{}", i)); }
}
fn rec_hash<T: Hash>(t: &T) -> String {
    let mut r = Rec::default();
    t.hash(&mut r);
    if r.0.is_empty() { "-".into() } else { r.0.join(".") }
}

pub(crate) fn parse_w(s: &str) -> Option<bool> { match s { "4" => Some(true), "2" => Some(false), _ => None } }
fn n_is_plain(s: &str) -> bool { !s.is_empty() && s.bytes().all(|c| c.is_ascii_digit()) }
fn parse_u32_strict(s: &str) -> Option<u32> { if !s.is_empty() && s.bytes().all(|c| c.is_ascii_digit()) { s.parse().ok() } else { None } }

pub(crate) fn field<'a>(reply: &'a str, key: &str) -> Option<&'a str> {
    reply.split(' ').find_map(|t| t.strip_prefix(key))
}

// ---------------------------------------------------------------- generators
pub(crate) fn pick_asn(rng: &mut Rng, small: bool) -> u32 {
    if small {
        match rng.below(6) { 0 => 0, 1 => 65535, 2 => 1, 3 => 23456, _ => rng.below(65536) as u32 }
    } else {
        match rng.below(8) { 0 => 65536, 1 => u32::MAX, 2 => 65535, 3 => 0, 4 => 4200000000, _ => rng.u32() }
    }
}

const RUNS: &[usize] = &[0, 1, 2, 3, 254, 255, 256, 257, 300, 509, 510, 511, 512, 600];
const SEGN: &[usize] = &[0, 1, 2, 3, 10, 254, 255];

pub(crate) fn gen_hop_path(rng: &mut Rng) -> String {
    let small = rng.chance(3, 5);
    let pieces = rng.usize(0, 5);
    let mut toks: Vec<String> = Vec::new();
    for _ in 0..pieces {
        if rng.chance(1, 2) {
            let n = if rng.chance(1, 3) { *rng.pick(RUNS) } else if rng.chance(1, 8) { rng.usize(0, 600) } else { rng.usize(0, 8) };
            for _ in 0..n {
                let big = !small && rng.chance(1, 20);
                toks.push(format!("a{}", pick_asn(rng, !big)));
            }
        } else {
            let ty = *rng.pick(&[1u8, 3, 4]);
            let n = if rng.chance(1, 40) { *rng.pick(&[256usize, 300, 600]) }      // K2 territory
                    else if rng.chance(1, 4) { *rng.pick(SEGN) } else { rng.usize(0, 6) };
            let asns: Vec<String> = (0..n).map(|_| { let big = !small && rng.chance(1, 20); pick_asn(rng, !big).to_string() }).collect();
            toks.push(format!("s{}/4:{}", ty, asns.join(".")));
        }
    }
    join(toks)
}

/// hop paths over everything the public API can put into a HopPath: as `gen_hop_path`, plus segments cut
/// out of wire paths of either width – among them a non-empty AS_SEQUENCE held as ONE segment hop
/// (`HopPath::from(Vec<Segment>)`, `append(Hop::Segment(..))`) and two-octet segment hops (`to_hop_path`
/// of a two-octet path).
pub(crate) fn gen_hop_path_g(rng: &mut Rng) -> String {
    let small = rng.chance(3, 5);
    let pieces = rng.usize(1, 5);
    let mut toks: Vec<String> = Vec::new();
    for _ in 0..pieces {
        match rng.below(4) {
            0 => {
                let n = if rng.chance(1, 4) { *rng.pick(RUNS) } else { rng.usize(0, 6) };
                for _ in 0..n { let big = !small && rng.chance(1, 20); toks.push(format!("a{}", pick_asn(rng, !big))); }
            }
            1 => {
                let t = gen_hop_path(rng);
                if t != "-" { toks.push(t); }
            }
            _ => {
                let two = rng.chance(1, 3);
                let ty = if rng.chance(1, 2) { 2 } else { rng.range(1, 4) as u8 };
                let n = if rng.chance(1, 5) { *rng.pick(&[0usize, 1, 254, 255]) } else { rng.usize(0, 6) };
                let asns: Vec<String> = (0..n).map(|_| { let big = !two && !small && rng.chance(1, 10); pick_asn(rng, !big).to_string() }).collect();
                toks.push(format!("s{}/{}:{}", ty, if two { 2 } else { 4 }, asns.join(".")));
            }
        }
    }
    join(toks)
}

pub(crate) fn gen_segments(rng: &mut Rng, small: bool) -> Vec<(u8, Vec<u32>)> {
    let n = rng.usize(0, 5);
    (0..n).map(|_| {
        let ty = if rng.chance(1, 2) { 2 } else { rng.range(1, 4) as u8 };
        let c = if rng.chance(1, 6) { *rng.pick(&[0usize, 1, 254, 255]) } else { rng.usize(0, 7) };
        (ty, (0..c).map(|_| { let big = !small && rng.chance(1, 10); pick_asn(rng, !big) }).collect())
    }).collect()
}

fn mutate(rng: &mut Rng, mut b: Vec<u8>) -> Vec<u8> {
    match rng.below(6) {
        0 => { if !b.is_empty() { let n = rng.usize(0, b.len() - 1); b.truncate(n); } }
        1 => { if !b.is_empty() { b[0] = *rng.pick(&[0u8, 5, 255, 2, 1]); } }
        2 => { if b.len() > 1 { b[1] = b[1].wrapping_add(*rng.pick(&[1u8, 255, 2])); } }
        3 => { b.push(rng.u8()); }
        4 => { if !b.is_empty() { let i = rng.usize(0, b.len() - 1); b[i] ^= 1 << rng.below(8); } }
        _ => { let k = rng.usize(1, 4); let e = rng.bytes(k); b.extend(e); }
    }
    b
}

impl Prop for C13 {
    fn gen(&self, rng: &mut Rng, tier: Tier) -> Vec<String> {
        let mut v = Vec::new();
        let scale = if tier == Tier::Thorough { 100 } else { 1 };
        // every run length 0..=600 once (single run; 4-octet and, with small ASNs, 2-octet)
        for n in 0..=600usize {
            let big: Vec<String> = (0..n).map(|i| format!("a{}", 65000 + (i as u32) * 7)).collect();
            v.push(format!("compose {}", join(big)));
            let small: Vec<String> = (0..n).map(|i| format!("a{}", (i as u32 * 109) % 65536)).collect();
            v.push(format!("compose16 {}", join(small)));
        }
        // every prepend count 0..=600 on a short two-octet / four-octet path
        for n in 0..=600usize {
            if n % 2 == 0 { v.push(format!("prepend 2 02020001000201010005 {} {}", 64512 + n, n)); }
            else { v.push(format!("prepend 4 0201000100000301fffffffe {} {}", 4200000000u32 + n as u32, n)); }
        }
        // structured hop paths: those of Hop::Asn + Segment::new_*, then hop paths holding segments cut out
        // of wire paths (AS_SEQUENCE as one segment hop, two-octet segment hops)
        for i in 0..(500 * scale) {
            let h = if i % 2 == 0 { gen_hop_path(rng) } else { gen_hop_path_g(rng) };
            v.push(format!("compose {}", h));
            v.push(format!("compose16 {}", h));
            v.push(format!("count {}", h));
            if i % 4 == 1 {
                let n = if rng.chance(1, 3) { *rng.pick(RUNS) } else { rng.usize(0, 5) };
                let sm = rng.bool();
                v.push(format!("hprepend {} {} {}", h, pick_asn(rng, sm), n));
            }
        }
        // hop-path equality / hashing: the same hops with segment widths flipped where both widths exist, the
        // flat hop sequence, a near miss
        for _ in 0..(150 * scale) {
            let h = gen_hop_path_g(rng);
            let Some(t) = parse_api_hops(&h) else { continue };
            if t.iter().any(|x| matches!(x, THop::Seg(_, _, a) if a.len() > 255)) { continue; }
            let show = |v: &Vec<THop>| join(v.iter().map(|x| match x { THop::Asn(a) => format!("a{}", a),
                THop::Seg(ty, w, a) => format!("s{}/{}:{}", ty, w, a.iter().map(|y| y.to_string()).collect::<Vec<_>>().join(".")) }).collect());
            let flipped: Vec<THop> = t.iter().map(|x| match x {
                THop::Seg(ty, w, a) if a.iter().all(|y| *y <= 65535) => THop::Seg(*ty, 6 - *w, a.clone()),
                o => o.clone() }).collect();
            v.push(format!("hpeq {} {}", h, show(&flipped)));
            let mut flat: Vec<THop> = Vec::new();
            for x in &t { match x { THop::Seg(2, _, a) if !a.is_empty() => flat.extend(a.iter().map(|y| THop::Asn(*y))), o => flat.push(o.clone()) } }
            v.push(format!("hpeq {} {}", h, show(&flat)));
            let mut other = t.clone();
            if !other.is_empty() {
                let i = rng.usize(0, other.len() - 1);
                match &mut other[i] {
                    THop::Asn(a) => { *a ^= 1; }
                    THop::Seg(ty, w, a) => { if rng.bool() { *ty = (*ty % 4) + 1; if *w == 4 && *ty == 2 && a.len() > 255 { *ty = 3; } } else if a.pop().is_none() { a.push(7); } }
                }
            } else { other.push(THop::Asn(1)); }
            v.push(format!("hpeq {} {}", h, show(&other)));
        }
        // an AS_SEQUENCE of every boundary size as ONE segment hop, alone and next to plain ASN hops
        for n in [1usize, 2, 254, 255] {
            for w in [4, 2] {
                let seg = format!("s2/{}:{}", w, (0..n).map(|i| (64000 + i).to_string()).collect::<Vec<_>>().join("."));
                for h in [seg.clone(), format!("a1,{},a7", seg), format!("{},s1/4:5.6,{}", seg, seg)] {
                    v.push(format!("compose {}", h)); v.push(format!("compose16 {}", h)); v.push(format!("count {}", h));
                }
            }
        }
        // wire paths, both widths; mostly valid, then a malformed stream
        for _ in 0..(500 * scale) {
            let four = rng.bool();
            let small = !four || rng.chance(1, 2);
            let segs = gen_segments(rng, small);
            let w = if four { 4 } else { 2 };
            let bytes = ref_encode(&segs, four);
            v.push(format!("wire {} {}", w, hex(&bytes)));
            let n = if rng.chance(1, 3) { *rng.pick(RUNS) } else { rng.usize(0, 5) };
            let sm = rng.bool();
            v.push(format!("prepend {} {} {} {}", w, hex(&bytes), pick_asn(rng, sm), n));
            // the same segments in the other width compare and hash equal
            if small {
                v.push(format!("eq {} {} {} {}", w, hex(&bytes), if four { 2 } else { 4 }, hex(&ref_encode(&segs, !four))));
            }
            // a near miss: one ASN / type / count changed
            let mut other = segs.clone();
            if !other.is_empty() {
                let i = rng.usize(0, other.len() - 1);
                match rng.below(4) {
                    0 => { other[i].0 = (other[i].0 % 4) + 1; }
                    1 => { if let Some(a) = other[i].1.last_mut() { *a ^= 1; } else { other[i].1.push(7); } }
                    2 => { other[i].1.pop(); }
                    _ => { other.remove(i); }
                }
            } else { other.push((2, vec![])); }
            let of = rng.bool();
            let osmall = other.iter().all(|(_, a)| a.iter().all(|x| *x < 65536));
            let of = of || !osmall;
            v.push(format!("eq {} {} {} {}", w, hex(&bytes), if of { 4 } else { 2 }, hex(&ref_encode(&other, of))));
            if rng.chance(1, 2) {
                let m = mutate(rng, bytes.clone());
                v.push(format!("wire {} {}", if rng.chance(1, 8) { 6 - w } else { w }, hex(&m)));
            }
        }
        // raw bytes
        for _ in 0..(200 * scale) {
            let n = rng.usize(0, 12);
            let mut b = rng.bytes(n);
            if n > 1 { b[0] = rng.range(0, 5) as u8; b[1] = rng.range(0, 3) as u8; }
            v.push(format!("wire {} {}", if rng.bool() { 4 } else { 2 }, hex(&b)));
        }
        v
    }

    fn exec(&self, line: &str) -> String {
        let w: Vec<&str> = line.split(' ').collect();
        match w.as_slice() {
            ["compose", h] => {
                let Some(h) = parse_api_hops(h) else { return "bad-op".into() };
                let hp = build(&h);
                let p: AsPath<Vec<u8>> = hp.to_as_path().unwrap();
                let bytes = p.clone().into_inner();
                let chk = if AsPath::check(&bytes, true).is_ok() { "ok" } else { "err" };
                let hops = join(p.hops().take(100_000).map(|h| show_hop(&h)).collect());
                let mut pr = Proto::new(); proto_path!(&mut pr, "path", &p);
                format!("ok {} chk={} hops={} {}", hex(&bytes), chk, hops, pr.token())
            }
            ["compose16", h] => {
                let Some(h) = parse_api_hops(h) else { return "bad-op".into() };
                let hp = build(&h);
                let p16: AsPath<Vec<u8>> = match hp.try_to_asn16_path() { Ok(p) => p, Err(_) => return "err".into() };
                let p32: AsPath<Vec<u8>> = hp.to_as_path().unwrap();
                let bytes = p16.clone().into_inner();
                let chk = if AsPath::check(&bytes, false).is_ok() { "ok" } else { "err" };
                let hops = join(p16.hops().take(100_000).map(|h| show_hop(&h)).collect());
                let mut pr = Proto::new(); proto_path!(&mut pr, "path16", &p16);
                format!("ok {} chk={} eq={} hasheq={} hops={} {}", hex(&bytes), chk, p16 == p32,
                    rec_hash(&p16) == rec_hash(&p32), hops, pr.token())
            }
            ["count", h] => {
                let Some(h) = parse_api_hops(h) else { return "bad-op".into() };
                let hp = build(&h);
                format!("ok {} {}", hp.hop_count(), hp.hop_count_path_selection())
            }
            ["hpeq", h1, h2] => {
                let (Some(a), Some(b)) = (parse_api_hops(h1), parse_api_hops(h2)) else { return "bad-op".into() };
                let (pa, pb) = (build(&a), build(&b));
                format!("ok {} {}", pa == pb, rec_hash(&pa) == rec_hash(&pb))
            }
            ["hprepend", h, a, n] => {
                let (Some(h), Some(a), Some(n)) = (parse_api_hops(h), parse_u32_strict(a), n.parse::<usize>().ok()) else { return "bad-op".into() };
                if n > 2000 || !n_is_plain(w[3]) { return "bad-op".into(); }
                let mut hp = build(&h);
                let asn = Asn::from_u32(a);
                // the whole prepend family: n copies through prepend_n, or the equivalent prepend / prepend_arr
                match n { 1 => hp.prepend(asn), 2 => hp.prepend_arr([asn, asn]), 3 => hp.prepend_arr([asn, asn, asn]), _ => hp.prepend_n(asn, n) }
                let p: AsPath<Vec<u8>> = hp.to_as_path().unwrap();
                let hops = join(p.hops().take(100_000).map(|h| show_hop(&h)).collect());
                let mut pr = Proto::new(); proto_path!(&mut pr, "path", &p);
                format!("ok {} hops={} {}", hex(&p.into_inner()), hops, pr.token())
            }
            ["wire", ws, hx] => {
                let (Some(four), Some(bs)) = (parse_w(ws), unhex(hx)) else { return "bad-op".into() };
                let p = match AsPath::new(bs, four) { Ok(p) => p, Err(_) => return "err".into() };
                let segs = join(p.segments().take(100_000).map(|s| show_seg(&s)).collect());
                let hp = p.to_hop_path();
                let hops = join(hp.iter().map(show_hop).collect());
                let b32: AsPath<Vec<u8>> = hp.to_as_path().unwrap();
                let b16 = match hp.try_to_asn16_path::<Vec<u8>>() { Ok(p) => hex(&p.into_inner()), Err(_) => "err".into() };
                let mut pr = Proto::new(); proto_path!(&mut pr, "path", &p);
                pr.it("hop_path.iter()", || hp.iter(), |h| show_hop(*h), 100_000);
                format!("ok segs={} hops={} back32={} back16={} count={} single={} {}", segs, hops,
                    hex(&b32.into_inner()), b16, hp.hop_count_path_selection(), p.is_single_sequence(), pr.token())
            }
            ["prepend", ws, hx, a, n] => {
                let (Some(four), Some(bs), Some(a), Some(n)) = (parse_w(ws), unhex(hx), parse_u32_strict(a), n.parse::<usize>().ok())
                    else { return "bad-op".into() };
                let p = match AsPath::new(bs, four) { Ok(p) => p, Err(_) => return "err".into() };
                let asn = Asn::from_u32(a);
                let r = match n { 2 => p.prepend_arr([asn, asn]).unwrap(), 4 => p.prepend_arr([asn, asn, asn, asn]).unwrap(), _ => p.prepend(asn, n).unwrap() };
                let hops = join(r.hops().take(100_000).map(|h| show_hop(&h)).collect());
                let mut pr = Proto::new(); proto_path!(&mut pr, "path", &r);
                format!("ok {} hops={} {}", hex(&r.into_inner()), hops, pr.token())
            }
            ["eq", w1, h1, w2, h2] => {
                let (Some(f1), Some(b1), Some(f2), Some(b2)) = (parse_w(w1), unhex(h1), parse_w(w2), unhex(h2))
                    else { return "bad-op".into() };
                // the right-hand side atop a borrowed slice: `PartialEq<AsPath<Other>>` across octets types
                let (p1, p2) = match (AsPath::new(b1, f1), AsPath::new(&b2[..], f2)) { (Ok(a), Ok(b)) => (a, b), _ => return "err".into() };
                format!("ok {} {}", p1 == p2, rec_hash(&p1) == rec_hash(&p2))
            }
            _ => "bad-op".into(),
        }
    }

    fn oracle(&self, line: &str, reply: &str) -> Result<(), String> {
        let w: Vec<&str> = line.split(' ').collect();
        if reply == "bad-op" { return Ok(()); }
        proto_judge(reply)?;
        match w.as_slice() {
            ["compose", h] | ["compose16", h] => {
                let wide = w[0] == "compose";
                let h = parse_api_hops(h).ok_or("unparsable request")?;
                let want = erase_flat(&h);
                if reply == "panic" { return Err("conversion of an API-built hop path to wire format panicked".into()); }
                let large = h.iter().any(|x| match x { THop::Asn(a) => *a > 65535, THop::Seg(_, _, a) => a.iter().any(|y| *y > 65535) });
                if !wide {
                    if (reply == "err") != large {
                        return Err(format!("two-octet conversion {} although {} ASN exceeds 65535", if reply == "err" { "failed" } else { "succeeded" }, if large { "an" } else { "no" }));
                    }
                    if reply == "err" { return Ok(()); }
                } else if reply == "err" { return Err("to_as_path failed".into()); }
                let hx = reply.split(' ').nth(1).ok_or("short reply")?;
                let bytes = unhex(hx).ok_or("bad hex")?;
                let segs = ref_segments(&bytes, wide).ok_or("emitted bytes are not a valid AS_PATH")?;
                if ref_hops(&segs) != want { return Err("hop sequence of the emitted wire path differs from the hop path".into()); }
                if field(reply, "chk=") != Some("ok") { return Err("AsPath::check rejects the emitted path".into()); }
                let got = parse_thops(field(reply, "hops=").ok_or("no hops")?).ok_or("bad hops")?;
                if erase(&got) != want { return Err("hops() of the emitted path differ from the hop path".into()); }
                if !wide && (field(reply, "eq=") != Some("true") || field(reply, "hasheq=") != Some("true")) {
                    return Err("two-octet and four-octet path of the same hops do not compare/hash equal".into());
                }
                Ok(())
            }
            ["count", h] => {
                // sequence AS numbers (plain ASN hops and the ASNs of an AS_SEQUENCE held as one segment hop)
                // plus AS_SETs; confederation segments are ignored. `hop_count()` (first number) is not the
                // property's subject: it is compared with the model only.
                let h = parse_api_hops(h).ok_or("unparsable request")?;
                let sel: usize = h.iter().map(|x| match x { THop::Asn(_) => 1, THop::Seg(1, _, _) => 1, THop::Seg(2, _, a) => a.len(), _ => 0 }).sum();
                let got = reply.split(' ').nth(2).and_then(|x| x.parse::<usize>().ok());
                if reply.starts_with("ok ") && got == Some(sel) { Ok(()) } else { Err(format!("path-selection hop count: expected {} (sequence ASNs + AS_SETs), reply `{}`", sel, reply)) }
            }
            ["hpeq", h1, h2] => {
                // hop paths with the same hops – segment hops in whatever storage width – compare equal and
                // hash equal (`Hop::eq`/`Segment::eq` across widths; Eq/Hash consistency). Different hops: model only.
                let (a, b) = (parse_api_hops(h1).ok_or("unparsable request")?, parse_api_hops(h2).ok_or("unparsable request")?);
                if a.iter().chain(b.iter()).any(|x| matches!(x, THop::Seg(_, _, s) if s.len() > 255)) { return Ok(()); }  // K2: Segment::hash panics
                let r: Vec<&str> = reply.split(' ').collect();
                if r.len() != 3 || r[0] != "ok" { return Err(format!("comparison of two hop paths gave {}", reply)); }
                if erase(&a) == erase(&b) {
                    if r[1] != "true" { return Err("hop paths with the same hops compare unequal".into()); }
                    if r[2] != "true" { return Err("hop paths with the same hops hash differently".into()); }
                }
                if r[1] == "true" && r[2] != "true" { return Err("hop paths that compare equal hash differently".into()); }
                Ok(())
            }
            ["hprepend", h, a, n] => {
                let h = parse_api_hops(h).ok_or("unparsable request")?;
                if h.iter().any(|x| matches!(x, THop::Seg(_, _, a) if a.len() > 255)) { return Ok(()); }   // K2 is judged on compose lines
                if !reply.starts_with("ok ") { return Err(format!("prepend_n + to_as_path on an API-built hop path gave {}", reply)); }
                let a: u32 = a.parse().map_err(|_| "asn")?; let n: usize = n.parse().map_err(|_| "n")?;
                let mut want: Vec<RHop> = std::iter::repeat(RHop::Asn(a)).take(n).collect();
                want.extend(erase_flat(&h));
                let out = unhex(reply.split(' ').nth(1).ok_or("short")?).ok_or("hex")?;
                let so = ref_segments(&out, true).ok_or("prepend_n + to_as_path emitted an invalid AS_PATH")?;
                if ref_hops(&so) != want { return Err("prepend_n(asn, n) is not n copies followed by the original hops".into()); }
                Ok(())
            }
            ["wire", ws, hx] => {
                let four = parse_w(ws).ok_or("w")?; let bs = unhex(hx).ok_or("hex")?;
                // the property quantifies over VALID wire paths: what happens to an invalid one is not its
                // subject (the reply is still compared with the model)
                let Some(segs) = ref_segments(&bs, four) else { return Ok(()) };
                if reply == "err" { return Err("a valid AS_PATH was rejected".into()); }
                if reply == "panic" { return Err("panic on a valid AS_PATH".into()); }
                // segments(): types and ASNs as on the wire (the storage width is private: not judged)
                let got_segs = parse_thops(field(reply, "segs=").ok_or("no segs")?).ok_or("bad segs")?;
                let want_segs: Vec<RHop> = segs.iter().map(|(t, a)| RHop::Seg(*t, a.clone())).collect();
                if erase(&got_segs) != want_segs { return Err("segments() differ from the wire".into()); }
                let want = ref_hops(&segs);
                let got = parse_thops(field(reply, "hops=").ok_or("no hops")?).ok_or("bad hops")?;
                if erase(&got) != want { return Err("to_hop_path differs from the wire".into()); }
                let b32 = unhex(field(reply, "back32=").ok_or("no back32")?).ok_or("hex")?;
                let s32 = ref_segments(&b32, true).ok_or("re-emitted path invalid")?;
                if ref_hops(&s32) != want { return Err("wire -> hops -> wire changed the hop sequence".into()); }
                let large = segs.iter().any(|(_, a)| a.iter().any(|x| *x > 65535));
                let b16 = field(reply, "back16=").ok_or("no back16")?;
                if (b16 == "err") != large { return Err("two-octet conversion fails iff some ASN > 65535 violated".into()); }
                if b16 != "err" {
                    let s16 = ref_segments(&unhex(b16).ok_or("hex")?, false).ok_or("re-emitted 2-octet path invalid")?;
                    if ref_hops(&s16) != want { return Err("wire -> hops -> 2-octet wire changed the hop sequence".into()); }
                }
                // path-selection hop count of the hop path: ASNs of AS_SEQUENCEs + number of AS_SETs
                let sel: usize = segs.iter().map(|(t, a)| match t { 2 => a.len(), 1 => 1, _ => 0 }).sum();
                if field(reply, "count=") != Some(sel.to_string().as_str()) {
                    return Err(format!("path-selection hop count of the hop path is {} but the wire has {} sequence ASNs + AS_SETs", field(reply, "count=").unwrap_or("?"), sel));
                }
                Ok(())
            }
            ["prepend", ws, hx, a, n] => {
                let four = parse_w(ws).ok_or("w")?; let bs = unhex(hx).ok_or("hex")?;
                let Some(segs) = ref_segments(&bs, four) else { return Ok(()) };   // valid wire paths only
                if !reply.starts_with("ok ") { return Err(format!("prepend on a valid path gave {}", reply)); }
                let a: u32 = a.parse().map_err(|_| "asn")?; let n: usize = n.parse().map_err(|_| "n")?;
                let mut want: Vec<RHop> = std::iter::repeat(RHop::Asn(a)).take(n).collect();
                want.extend(ref_hops(&segs));
                let out = unhex(reply.split(' ').nth(1).ok_or("short")?).ok_or("hex")?;
                let so = ref_segments(&out, true).ok_or("prepend emitted an invalid AS_PATH")?;
                if ref_hops(&so) != want { return Err("prepend(asn, n) is not n copies followed by the original hops".into()); }
                let got = parse_thops(field(reply, "hops=").ok_or("no hops")?).ok_or("bad hops")?;
                if erase(&got) != want { return Err("hops() after prepend differ".into()); }
                Ok(())
            }
            ["eq", w1, h1, w2, h2] => {
                let s1 = ref_segments(&unhex(h1).ok_or("hex")?, parse_w(w1).ok_or("w")?);
                let s2 = ref_segments(&unhex(h2).ok_or("hex")?, parse_w(w2).ok_or("w")?);
                let (Some(s1), Some(s2)) = (s1, s2) else { return Ok(()) };          // valid wire paths only
                let r: Vec<&str> = reply.split(' ').collect();
                if r.len() != 3 || r[0] != "ok" { return Err(format!("comparison of two valid paths gave {}", reply)); }
                // the property states one direction: the SAME segments (in whatever widths) compare equal and
                // hash equal. What `==` says about different segments is compared with the model only.
                if s1 == s2 {
                    if r[1] != "true" { return Err("paths with the same segments compare unequal".into()); }
                    if r[2] != "true" { return Err("paths with the same segments hash differently".into()); }
                }
                Ok(())
            }
            _ => Ok(()),
        }
    }

    fn nontrivial(&self, _line: &str, reply: &str) -> bool { reply.starts_with("ok") }

    fn class(&self, line: &str, reply: &str) -> String {
        let op = line.split(' ').next().unwrap_or("");
        let r = reply.split(' ').next().unwrap_or("");
        let extra = match op {
            "compose" | "compose16" => {
                let h = line.split(' ').nth(1).unwrap_or("");
                let mut run = 0usize; let mut maxrun = 0usize; let mut seg = false; let mut seq = false; let mut two = false;
                if h != "-" { for t in h.split(',') { if t.starts_with('a') { run += 1; maxrun = maxrun.max(run); } else {
                    run = 0; seg = true;
                    if t.starts_with("s2/") && !t.ends_with(':') { seq = true; }
                    if t.get(2..4) == Some("/2") { two = true; } } } }
                format!(":run{}{}{}{}", if maxrun > 510 { ">510" } else if maxrun > 255 { ">255" } else { "<=255" }, if seg { "+segs" } else { "" },
                    if seq { "+seqseg" } else { "" }, if two { "+w2seg" } else { "" })
            }
            "wire" | "prepend" => format!(":w{}", line.split(' ').nth(1).unwrap_or("")),
            "eq" | "hpeq" => format!(":{}", reply.split(' ').nth(1).unwrap_or("")),
            _ => String::new(),
        };
        format!("{}{}:{}", op, extra, r)
    }
}
