//! C13: AS path conversions (src/bgp/aspath.rs) through the public API.
//!
//! hop path  `-` | hop{,hop}    hop = `a<asn>` | `s<ty>/<w>:<asn>{.<asn>}`
//! requests  compose H | compose16 H | count H        (H: w=4, ty in {1,3,4})
//!           wire W HEX | prepend W HEX ASN N | eq W1 HEX1 W2 HEX2
use crate::common::*;
use inetnum::asn::Asn;
use routecore::bgp::aspath::{AsPath, Hop, HopPath, Segment};
use std::hash::{Hash, Hasher};

pub struct C13;

// ---------------------------------------------------------------- reference
/// width-erased hop: the thing the property calls "hop sequence"
#[derive(Clone, PartialEq, Eq, Debug)]
pub(crate) enum RHop { Asn(u32), Seg(u8, Vec<u32>) }

/// independent AS_PATH reader written from RFC 4271 4.3 / RFC 5065: a list of
/// (type 1..=4, count, count ASNs of the given width), nothing left over.
pub(crate) fn ref_segments(bs: &[u8], four: bool) -> Option<Vec<(u8, Vec<u32>)>> {
    let sz = if four { 4 } else { 2 };
    let mut i = 0;
    let mut out = Vec::new();
    while i < bs.len() {
        if i + 2 > bs.len() { return None; }
        let ty = bs[i];
        let n = bs[i + 1] as usize;
        if !(1..=4).contains(&ty) { return None; }
        i += 2;
        if i + n * sz > bs.len() { return None; }
        let mut asns = Vec::with_capacity(n);
        for k in 0..n {
            let o = i + k * sz;
            asns.push(if four { u32::from_be_bytes([bs[o], bs[o + 1], bs[o + 2], bs[o + 3]]) }
                      else { u16::from_be_bytes([bs[o], bs[o + 1]]) as u32 });
        }
        i += n * sz;
        out.push((ty, asns));
    }
    Some(out)
}

pub(crate) fn ref_hops(segs: &[(u8, Vec<u32>)]) -> Vec<RHop> {
    let mut v = Vec::new();
    for (ty, asns) in segs {
        if *ty == 2 && !asns.is_empty() { for a in asns { v.push(RHop::Asn(*a)); } }
        else { v.push(RHop::Seg(*ty, asns.clone())); }
    }
    v
}

pub(crate) fn ref_encode(segs: &[(u8, Vec<u32>)], four: bool) -> Vec<u8> {
    let mut v = Vec::new();
    for (ty, asns) in segs {
        v.push(*ty);
        v.push(asns.len() as u8);
        for a in asns {
            if four { v.extend_from_slice(&a.to_be_bytes()); } else { v.extend_from_slice(&(*a as u16).to_be_bytes()); }
        }
    }
    v
}

// ------------------------------------------------------------ text <-> hops
fn parse_asns(s: &str) -> Option<Vec<u32>> {
    if s.is_empty() { return Some(vec![]); }
    s.split('.').map(|a| if a.bytes().all(|c| c.is_ascii_digit()) { a.parse::<u32>().ok() } else { None }).collect()
}

/// hops as printed in requests and replies (with width)
#[derive(Clone, Debug, PartialEq)]
pub(crate) enum THop { Asn(u32), Seg(u8, u8, Vec<u32>) }

fn parse_thop(s: &str) -> Option<THop> {
    if let Some(r) = s.strip_prefix('a') {
        if r.is_empty() || !r.bytes().all(|c| c.is_ascii_digit()) { return None; }
        return r.parse::<u32>().ok().map(THop::Asn);
    }
    let r = s.strip_prefix('s')?;
    let (head, asns) = r.split_once(':')?;
    let (ty, w) = head.split_once('/')?;
    let ty: u8 = ty.parse().ok()?;
    let w: u8 = w.parse().ok()?;
    Some(THop::Seg(ty, w, parse_asns(asns)?))
}

pub(crate) fn parse_thops(s: &str) -> Option<Vec<THop>> {
    if s == "-" { return Some(vec![]); }
    s.split(',').map(parse_thop).collect()
}

/// request-side: only what the public API constructs directly
pub(crate) fn parse_api_hops(s: &str) -> Option<Vec<THop>> {
    let v = parse_thops(s)?;
    for h in &v {
        if let THop::Seg(ty, w, _) = h {
            if *w != 4 || !(*ty == 1 || *ty == 3 || *ty == 4) { return None; }
            // the model's request grammar has exactly one digit for the type
        }
    }
    // reject forms the model's parser rejects (e.g. "s01/4:")
    if s != "-" {
        for t in s.split(',') {
            if t.starts_with('s') && !(t.len() >= 5 && &t[2..5] == "/4:") { return None; }
        }
    }
    Some(v)
}

pub(crate) fn erase(v: &[THop]) -> Vec<RHop> {
    v.iter().map(|h| match h { THop::Asn(a) => RHop::Asn(*a), THop::Seg(t, _, a) => RHop::Seg(*t, a.clone()) }).collect()
}

pub(crate) fn build(v: &[THop]) -> HopPath {
    let mut hp = HopPath::new();
    for h in v {
        match h {
            THop::Asn(a) => hp.append(Hop::Asn(Asn::from_u32(*a))),
            THop::Seg(ty, _, asns) => {
                let it = asns.iter().map(|a| Asn::from_u32(*a));
                match ty {
                    1 => hp.append_set(it),
                    3 => hp.append_confed_sequence(it),
                    _ => hp.append_confed_set(it),
                }
            }
        }
    }
    hp
}

fn show_asns<I: Iterator<Item = Asn>>(it: I) -> String {
    it.take(100_000).map(|a| a.into_u32().to_string()).collect::<Vec<_>>().join(".")
}

/// stype and width are private fields: read them off derive(Debug)
fn show_seg<O: octseq::Octets + std::fmt::Debug>(s: &Segment<O>) -> String {
    let d = format!("{:?}", s);
    let ty = if d.contains("stype: Set") { 1 } else if d.contains("stype: Sequence") { 2 }
        else if d.contains("stype: ConfedSequence") { 3 } else if d.contains("stype: ConfedSet") { 4 } else { 0 };
    let w = if d.contains("four_byte_asns: true") { 4 } else { 2 };
    format!("s{}/{}:{}", ty, w, show_asns(s.asns()))
}

pub(crate) fn show_hop<O: octseq::Octets + std::fmt::Debug>(h: &Hop<O>) -> String {
    match h { Hop::Asn(a) => format!("a{}", a.into_u32()), Hop::Segment(s) => show_seg(s) }
}

pub(crate) fn join(v: Vec<String>) -> String { if v.is_empty() { "-".into() } else { v.join(",") } }

#[derive(Default)]
struct Rec(Vec<String>);
impl Hasher for Rec {
    fn finish(&self) -> u64 { 0 }
    fn write(&mut self, bytes: &[u8]) { self.0.push(format!("r{}", hex(bytes))); }
    fn write_u8(&mut self, i: u8) { self.0.push(format!("b{}", i)); }
    fn write_u32(&mut self, i: u32) { self.0.push(format!("w{}", i)); }
}
fn rec_hash<T: Hash>(t: &T) -> String {
    let mut r = Rec::default();
    t.hash(&mut r);
    if r.0.is_empty() { "-".into() } else { r.0.join(".") }
}

pub(crate) fn parse_w(s: &str) -> Option<bool> { match s { "4" => Some(true), "2" => Some(false), _ => None } }
fn parse_u32_strict(s: &str) -> Option<u32> { if !s.is_empty() && s.bytes().all(|c| c.is_ascii_digit()) { s.parse().ok() } else { None } }

pub(crate) fn field<'a>(reply: &'a str, key: &str) -> Option<&'a str> {
    reply.split(' ').find_map(|t| t.strip_prefix(key))
}

// ---------------------------------------------------------------- generators
pub(crate) fn pick_asn(rng: &mut Rng, small: bool) -> u32 {
    if small {
        match rng.below(6) { 0 => 0, 1 => 65535, 2 => 1, 3 => 23456, _ => rng.below(65536) as u32 }
    } else {
        match rng.below(8) { 0 => 65536, 1 => u32::MAX, 2 => 65535, 3 => 0, 4 => 4200000000, _ => rng.u32() }
    }
}

const RUNS: &[usize] = &[0, 1, 2, 3, 254, 255, 256, 257, 300, 509, 510, 511, 512, 600];
const SEGN: &[usize] = &[0, 1, 2, 3, 10, 254, 255];

pub(crate) fn gen_hop_path(rng: &mut Rng) -> String {
    let small = rng.chance(3, 5);
    let pieces = rng.usize(0, 5);
    let mut toks: Vec<String> = Vec::new();
    for _ in 0..pieces {
        if rng.chance(1, 2) {
            let n = if rng.chance(1, 3) { *rng.pick(RUNS) } else if rng.chance(1, 8) { rng.usize(0, 600) } else { rng.usize(0, 8) };
            for _ in 0..n {
                let big = !small && rng.chance(1, 20);
                toks.push(format!("a{}", pick_asn(rng, !big)));
            }
        } else {
            let ty = *rng.pick(&[1u8, 3, 4]);
            let n = if rng.chance(1, 40) { *rng.pick(&[256usize, 300, 600]) }      // K2 territory
                    else if rng.chance(1, 4) { *rng.pick(SEGN) } else { rng.usize(0, 6) };
            let asns: Vec<String> = (0..n).map(|_| { let big = !small && rng.chance(1, 20); pick_asn(rng, !big).to_string() }).collect();
            toks.push(format!("s{}/4:{}", ty, asns.join(".")));
        }
    }
    join(toks)
}

pub(crate) fn gen_segments(rng: &mut Rng, small: bool) -> Vec<(u8, Vec<u32>)> {
    let n = rng.usize(0, 5);
    (0..n).map(|_| {
        let ty = if rng.chance(1, 2) { 2 } else { rng.range(1, 4) as u8 };
        let c = if rng.chance(1, 6) { *rng.pick(&[0usize, 1, 254, 255]) } else { rng.usize(0, 7) };
        (ty, (0..c).map(|_| { let big = !small && rng.chance(1, 10); pick_asn(rng, !big) }).collect())
    }).collect()
}

fn mutate(rng: &mut Rng, mut b: Vec<u8>) -> Vec<u8> {
    match rng.below(6) {
        0 => { if !b.is_empty() { let n = rng.usize(0, b.len() - 1); b.truncate(n); } }
        1 => { if !b.is_empty() { b[0] = *rng.pick(&[0u8, 5, 255, 2, 1]); } }
        2 => { if b.len() > 1 { b[1] = b[1].wrapping_add(*rng.pick(&[1u8, 255, 2])); } }
        3 => { b.push(rng.u8()); }
        4 => { if !b.is_empty() { let i = rng.usize(0, b.len() - 1); b[i] ^= 1 << rng.below(8); } }
        _ => { let k = rng.usize(1, 4); let e = rng.bytes(k); b.extend(e); }
    }
    b
}

impl Prop for C13 {
    fn gen(&self, rng: &mut Rng, tier: Tier) -> Vec<String> {
        let mut v = Vec::new();
        let scale = if tier == Tier::Thorough { 100 } else { 1 };
        // every run length 0..=600 once (single run; 4-octet and, with small ASNs, 2-octet)
        for n in 0..=600usize {
            let big: Vec<String> = (0..n).map(|i| format!("a{}", 65000 + (i as u32) * 7)).collect();
            v.push(format!("compose {}", join(big)));
            let small: Vec<String> = (0..n).map(|i| format!("a{}", (i as u32 * 109) % 65536)).collect();
            v.push(format!("compose16 {}", join(small)));
        }
        // every prepend count 0..=600 on a short two-octet / four-octet path
        for n in 0..=600usize {
            if n % 2 == 0 { v.push(format!("prepend 2 02020001000201010005 {} {}", 64512 + n, n)); }
            else { v.push(format!("prepend 4 0201000100000301fffffffe {} {}", 4200000000u32 + n as u32, n)); }
        }
        // structured hop paths
        for _ in 0..(500 * scale) {
            let h = gen_hop_path(rng);
            v.push(format!("compose {}", h));
            v.push(format!("compose16 {}", h));
            v.push(format!("count {}", h));
        }
        // wire paths, both widths; mostly valid, then a malformed stream
        for _ in 0..(500 * scale) {
            let four = rng.bool();
            let small = !four || rng.chance(1, 2);
            let segs = gen_segments(rng, small);
            let w = if four { 4 } else { 2 };
            let bytes = ref_encode(&segs, four);
            v.push(format!("wire {} {}", w, hex(&bytes)));
            let n = if rng.chance(1, 3) { *rng.pick(RUNS) } else { rng.usize(0, 5) };
            let sm = rng.bool();
            v.push(format!("prepend {} {} {} {}", w, hex(&bytes), pick_asn(rng, sm), n));
            // the same segments in the other width compare and hash equal
            if small {
                v.push(format!("eq {} {} {} {}", w, hex(&bytes), if four { 2 } else { 4 }, hex(&ref_encode(&segs, !four))));
            }
            // a near miss: one ASN / type / count changed
            let mut other = segs.clone();
            if !other.is_empty() {
                let i = rng.usize(0, other.len() - 1);
                match rng.below(4) {
                    0 => { other[i].0 = (other[i].0 % 4) + 1; }
                    1 => { if let Some(a) = other[i].1.last_mut() { *a ^= 1; } else { other[i].1.push(7); } }
                    2 => { other[i].1.pop(); }
                    _ => { other.remove(i); }
                }
            } else { other.push((2, vec![])); }
            let of = rng.bool();
            let osmall = other.iter().all(|(_, a)| a.iter().all(|x| *x < 65536));
            let of = of || !osmall;
            v.push(format!("eq {} {} {} {}", w, hex(&bytes), if of { 4 } else { 2 }, hex(&ref_encode(&other, of))));
            if rng.chance(1, 2) {
                let m = mutate(rng, bytes.clone());
                v.push(format!("wire {} {}", if rng.chance(1, 8) { 6 - w } else { w }, hex(&m)));
            }
        }
        // raw bytes
        for _ in 0..(200 * scale) {
            let n = rng.usize(0, 12);
            let mut b = rng.bytes(n);
            if n > 1 { b[0] = rng.range(0, 5) as u8; b[1] = rng.range(0, 3) as u8; }
            v.push(format!("wire {} {}", if rng.bool() { 4 } else { 2 }, hex(&b)));
        }
        v
    }

    fn exec(&self, line: &str) -> String {
        let w: Vec<&str> = line.split(' ').collect();
        match w.as_slice() {
            ["compose", h] => {
                let Some(h) = parse_api_hops(h) else { return "bad-op".into() };
                let hp = build(&h);
                let p: AsPath<Vec<u8>> = hp.to_as_path().unwrap();
                let bytes = p.clone().into_inner();
                let chk = if AsPath::check(&bytes, true).is_ok() { "ok" } else { "err" };
                let hops = join(p.hops().take(100_000).map(|h| show_hop(&h)).collect());
                format!("ok {} chk={} hops={}", hex(&bytes), chk, hops)
            }
            ["compose16", h] => {
                let Some(h) = parse_api_hops(h) else { return "bad-op".into() };
                let hp = build(&h);
                let p16: AsPath<Vec<u8>> = match hp.try_to_asn16_path() { Ok(p) => p, Err(_) => return "err".into() };
                let p32: AsPath<Vec<u8>> = hp.to_as_path().unwrap();
                let bytes = p16.clone().into_inner();
                let chk = if AsPath::check(&bytes, false).is_ok() { "ok" } else { "err" };
                let hops = join(p16.hops().take(100_000).map(|h| show_hop(&h)).collect());
                format!("ok {} chk={} eq={} hasheq={} hops={}", hex(&bytes), chk, p16 == p32,
                    rec_hash(&p16) == rec_hash(&p32), hops)
            }
            ["count", h] => {
                let Some(h) = parse_api_hops(h) else { return "bad-op".into() };
                let hp = build(&h);
                format!("ok {} {}", hp.hop_count(), hp.hop_count_path_selection())
            }
            ["wire", ws, hx] => {
                let (Some(four), Some(bs)) = (parse_w(ws), unhex(hx)) else { return "bad-op".into() };
                let p = match AsPath::new(bs, four) { Ok(p) => p, Err(_) => return "err".into() };
                let segs = join(p.segments().take(100_000).map(|s| show_seg(&s)).collect());
                let hp = p.to_hop_path();
                let hops = join(hp.iter().map(show_hop).collect());
                let b32: AsPath<Vec<u8>> = hp.to_as_path().unwrap();
                let b16 = match hp.try_to_asn16_path::<Vec<u8>>() { Ok(p) => hex(&p.into_inner()), Err(_) => "err".into() };
                format!("ok segs={} hops={} back32={} back16={} hash={} single={}", segs, hops,
                    hex(&b32.into_inner()), b16, rec_hash(&p), p.is_single_sequence())
            }
            ["prepend", ws, hx, a, n] => {
                let (Some(four), Some(bs), Some(a), Some(n)) = (parse_w(ws), unhex(hx), parse_u32_strict(a), n.parse::<usize>().ok())
                    else { return "bad-op".into() };
                let p = match AsPath::new(bs, four) { Ok(p) => p, Err(_) => return "err".into() };
                let r = p.prepend(Asn::from_u32(a), n).unwrap();
                let hops = join(r.hops().take(100_000).map(|h| show_hop(&h)).collect());
                format!("ok {} hops={}", hex(&r.into_inner()), hops)
            }
            ["eq", w1, h1, w2, h2] => {
                let (Some(f1), Some(b1), Some(f2), Some(b2)) = (parse_w(w1), unhex(h1), parse_w(w2), unhex(h2))
                    else { return "bad-op".into() };
                let (p1, p2) = match (AsPath::new(b1, f1), AsPath::new(b2, f2)) { (Ok(a), Ok(b)) => (a, b), _ => return "err".into() };
                format!("ok {} {}", p1 == p2, rec_hash(&p1) == rec_hash(&p2))
            }
            _ => "bad-op".into(),
        }
    }

    fn oracle(&self, line: &str, reply: &str) -> Result<(), String> {
        let w: Vec<&str> = line.split(' ').collect();
        if reply == "bad-op" { return Ok(()); }
        match w.as_slice() {
            ["compose", h] | ["compose16", h] => {
                let wide = w[0] == "compose";
                let h = parse_api_hops(h).ok_or("unparsable request")?;
                let want = erase(&h);
                if reply == "panic" { return Err("conversion of an API-built hop path to wire format panicked".into()); }
                let large = h.iter().any(|x| match x { THop::Asn(a) => *a > 65535, THop::Seg(_, _, a) => a.iter().any(|y| *y > 65535) });
                if !wide {
                    if (reply == "err") != large {
                        return Err(format!("two-octet conversion {} although {} ASN exceeds 65535", if reply == "err" { "failed" } else { "succeeded" }, if large { "an" } else { "no" }));
                    }
                    if reply == "err" { return Ok(()); }
                } else if reply == "err" { return Err("to_as_path failed".into()); }
                let hx = reply.split(' ').nth(1).ok_or("short reply")?;
                let bytes = unhex(hx).ok_or("bad hex")?;
                let segs = ref_segments(&bytes, wide).ok_or("emitted bytes are not a valid AS_PATH")?;
                if ref_hops(&segs) != want { return Err("hop sequence of the emitted wire path differs from the hop path".into()); }
                if field(reply, "chk=") != Some("ok") { return Err("AsPath::check rejects the emitted path".into()); }
                let got = parse_thops(field(reply, "hops=").ok_or("no hops")?).ok_or("bad hops")?;
                if erase(&got) != want { return Err("hops() of the emitted path differ from the hop path".into()); }
                if !wide && (field(reply, "eq=") != Some("true") || field(reply, "hasheq=") != Some("true")) {
                    return Err("two-octet and four-octet path of the same hops do not compare/hash equal".into());
                }
                Ok(())
            }
            ["count", h] => {
                let h = parse_api_hops(h).ok_or("unparsable request")?;
                let sel = h.iter().filter(|x| matches!(x, THop::Asn(_) | THop::Seg(1, _, _))).count();
                if reply == format!("ok {} {}", h.len(), sel) { Ok(()) } else { Err(format!("expected hop_count {} and path-selection count {}", h.len(), sel)) }
            }
            ["wire", ws, hx] => {
                let four = parse_w(ws).ok_or("w")?; let bs = unhex(hx).ok_or("hex")?;
                let Some(segs) = ref_segments(&bs, four) else {
                    return if reply == "err" { Ok(()) } else { Err("an invalid AS_PATH was accepted".into()) };
                };
                if reply == "err" { return Err("a valid AS_PATH was rejected".into()); }
                if reply == "panic" { return Err("panic on a valid AS_PATH".into()); }
                let wd = if four { 4 } else { 2 };
                let want_segs = join(segs.iter().map(|(t, a)| format!("s{}/{}:{}", t, wd, a.iter().map(|x| x.to_string()).collect::<Vec<_>>().join("."))).collect());
                if field(reply, "segs=") != Some(want_segs.as_str()) { return Err("segments() differ from the wire".into()); }
                let want = ref_hops(&segs);
                let got = parse_thops(field(reply, "hops=").ok_or("no hops")?).ok_or("bad hops")?;
                if erase(&got) != want { return Err("to_hop_path differs from the wire".into()); }
                let b32 = unhex(field(reply, "back32=").ok_or("no back32")?).ok_or("hex")?;
                let s32 = ref_segments(&b32, true).ok_or("re-emitted path invalid")?;
                if ref_hops(&s32) != want { return Err("wire -> hops -> wire changed the hop sequence".into()); }
                let large = segs.iter().any(|(_, a)| a.iter().any(|x| *x > 65535));
                let b16 = field(reply, "back16=").ok_or("no back16")?;
                if (b16 == "err") != large { return Err("two-octet conversion fails iff some ASN > 65535 violated".into()); }
                if b16 != "err" {
                    let s16 = ref_segments(&unhex(b16).ok_or("hex")?, false).ok_or("re-emitted 2-octet path invalid")?;
                    if ref_hops(&s16) != want { return Err("wire -> hops -> 2-octet wire changed the hop sequence".into()); }
                }
                let mut hk = Vec::new();
                for (t, a) in &segs { hk.push(format!("b{}", t)); hk.push(format!("b{}", a.len())); for x in a { hk.push(format!("w{}", x)); } }
                let hk = if hk.is_empty() { "-".to_string() } else { hk.join(".") };
                if field(reply, "hash=") != Some(hk.as_str()) { return Err("hash input is not (type, count, ASNs as u32) per segment".into()); }
                Ok(())
            }
            ["prepend", ws, hx, a, n] => {
                let four = parse_w(ws).ok_or("w")?; let bs = unhex(hx).ok_or("hex")?;
                let Some(segs) = ref_segments(&bs, four) else {
                    return if reply == "err" { Ok(()) } else { Err("an invalid AS_PATH was accepted".into()) };
                };
                if !reply.starts_with("ok ") { return Err(format!("prepend on a valid path gave {}", reply)); }
                let a: u32 = a.parse().map_err(|_| "asn")?; let n: usize = n.parse().map_err(|_| "n")?;
                let mut want: Vec<RHop> = std::iter::repeat(RHop::Asn(a)).take(n).collect();
                want.extend(ref_hops(&segs));
                let out = unhex(reply.split(' ').nth(1).ok_or("short")?).ok_or("hex")?;
                let so = ref_segments(&out, true).ok_or("prepend emitted an invalid AS_PATH")?;
                if ref_hops(&so) != want { return Err("prepend(asn, n) is not n copies followed by the original hops".into()); }
                let got = parse_thops(field(reply, "hops=").ok_or("no hops")?).ok_or("bad hops")?;
                if erase(&got) != want { return Err("hops() after prepend differ".into()); }
                Ok(())
            }
            ["eq", w1, h1, w2, h2] => {
                let s1 = ref_segments(&unhex(h1).ok_or("hex")?, parse_w(w1).ok_or("w")?);
                let s2 = ref_segments(&unhex(h2).ok_or("hex")?, parse_w(w2).ok_or("w")?);
                let (Some(s1), Some(s2)) = (s1, s2) else {
                    return if reply == "err" { Ok(()) } else { Err("an invalid AS_PATH was accepted".into()) };
                };
                let want = s1 == s2;
                let r: Vec<&str> = reply.split(' ').collect();
                if r.len() != 3 || r[0] != "ok" { return Err(format!("comparison gave {}", reply)); }
                if r[1] != want.to_string() { return Err(format!("paths with {} segments compare {}", if want { "the same" } else { "different" }, r[1])); }
                if want && r[2] != "true" { return Err("equal paths hash differently".into()); }
                Ok(())
            }
            _ => Ok(()),
        }
    }

    fn nontrivial(&self, _line: &str, reply: &str) -> bool { reply.starts_with("ok") }

    fn class(&self, line: &str, reply: &str) -> String {
        let op = line.split(' ').next().unwrap_or("");
        let r = reply.split(' ').next().unwrap_or("");
        let extra = match op {
            "compose" | "compose16" => {
                let h = line.split(' ').nth(1).unwrap_or("");
                let mut run = 0usize; let mut maxrun = 0usize; let mut seg = false;
                if h != "-" { for t in h.split(',') { if t.starts_with('a') { run += 1; maxrun = maxrun.max(run); } else { run = 0; seg = true; } } }
                format!(":run{}{}", if maxrun > 510 { ">510" } else if maxrun > 255 { ">255" } else { "<=255" }, if seg { "+segs" } else { "" })
            }
            "wire" | "prepend" => format!(":w{}", line.split(' ').nth(1).unwrap_or("")),
            "eq" => format!(":{}", reply.split(' ').nth(1).unwrap_or("")),
            _ => String::new(),
        };
        format!("{}{}:{}", op, extra, r)
    }
}
