use crate::common::Prop;
pub mod c18;

pub fn lookup(id: &str) -> Option<&'static dyn Prop> {
    match id {
        "C18" => Some(&c18::C18),
        _ => None,
    }
}
